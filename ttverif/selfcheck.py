"""Positive fixtures for rules whose expected count on the repository is zero: each must still
match its fixture on every run, so that a broken rule cannot pass vacuously."""
from __future__ import annotations

import os

from .core import Module

FIXDIR = os.path.join(os.path.dirname(os.path.abspath(__file__)), "fixtures")


class _NullCtx:
  """Collects verdicts without touching the real run's context."""

  def __init__(self, ix=None):
    self.bads = []
    self.oks = []
    self.ix = ix
    self.notes = []

  def unit(self, m):
    pass

  def where(self, m, n):
    return f"{m.rel}:{getattr(n, 'lineno', 0)}"

  def bad(self, rule, key, where="", detail=""):
    self.bads.append((rule, key))

  def ok(self, rule, key, where="", detail=""):
    self.oks.append((rule, key))

  def check(self, cond, rule, key, where="", detail="", bad_detail=""):
    (self.oks if cond else self.bads).append((rule, key))
    return cond

  def note(self, msg):
    self.notes.append(msg)


class _FakeIndex:
  def scope_name(self, m, node):
    return m.name + ":<fixture>"

  def enclosing_class(self, node):
    return None

  def enclosing_func(self, node):
    return None


def fixture_module(name: str) -> Module:
  path = os.path.join(FIXDIR, name)
  with open(path, encoding="utf-8") as f:
    return Module("fixture." + name[:-3], path, "ttverif/fixtures/" + name, f.read())


def lint_a_fixture_matches() -> bool:
  from .rules import lint
  c = _NullCtx(_FakeIndex())
  lint.lazy_discarded(c, [fixture_module("lint_a.py")])
  return len(c.bads) == 1
