"""Positive fixtures for rules whose expected count on the repository is zero: each must still
match its fixture on every run, so that a broken rule cannot pass vacuously."""
from __future__ import annotations

import os

from .core import Module

FIXDIR = os.path.join(os.path.dirname(os.path.abspath(__file__)), "fixtures")


class _NullCtx:
  """Collects verdicts without touching the real run's context."""

  def __init__(self, ix=None):
    self.bads = []
    self.oks = []
    self.ix = ix
    self.notes = []

  def unit(self, m):
    pass

  def where(self, m, n):
    return f"{m.rel}:{getattr(n, 'lineno', 0)}"

  def bad(self, rule, key, where="", detail=""):
    self.bads.append((rule, key))

  def ok(self, rule, key, where="", detail=""):
    self.oks.append((rule, key))

  def check(self, cond, rule, key, where="", detail="", bad_detail=""):
    (self.oks if cond else self.bads).append((rule, key))
    return cond

  def note(self, msg):
    self.notes.append(msg)


class _FakeIndex:
  def scope_name(self, m, node):
    return m.name + ":<fixture>"

  def enclosing_class(self, node):
    return None

  def enclosing_func(self, node):
    return None


def fixture_module(name: str) -> Module:
  path = os.path.join(FIXDIR, name)
  with open(path, encoding="utf-8") as f:
    return Module("fixture." + name[:-3], path, "ttverif/fixtures/" + name, f.read())


def lint_a_fixture_matches() -> bool:
  from .rules import lint
  c = _NullCtx(_FakeIndex())
  lint.lazy_discarded(c, [fixture_module("lint_a.py")])
  return len(c.bads) == 1


def lint_j_fixture_matches() -> bool:
  from .rules import lint
  c = _NullCtx(_FakeIndex())
  c.where = lambda mod, n: "fixture"
  return lint.handler_around_loop(c, [fixture_module("lint_j.py")]) == 1 and len(c.bads) == 1


def lint_l_fixture_matches() -> bool:
  from .rules import lint
  c = _NullCtx(_FakeIndex())
  c.where = lambda mod, n: "fixture"
  return lint.duplicate_components(c, [fixture_module("lint_l.py")]) == 1 and len(c.bads) == 1


def state_share_fixture_matches() -> bool:
  import ast
  from .core import FuncInfo
  from .rules import shape
  m = fixture_module("state_share.py")

  class _Ix(_FakeIndex):
    modules = {m.name: m}
  fs = [FuncInfo(n.name, f"{m.name}:{n.name}", m, n, None, None) for n in m.tree.body if isinstance(n, ast.FunctionDef)]
  c = _NullCtx(_Ix())
  c.where = lambda mod, n: "fixture"
  shape.check_no_shared_containers(c, fs)
  return len(c.bads) == 1 and "merge|" in c.bads[0][1]


def item_source_fixture_matches() -> bool:
  import ast
  from .core import FuncInfo
  from .rules import shape
  m = fixture_module("item_source.py")
  fs = [FuncInfo(n.name, f"{m.name}:{n.name}", m, n, None, None) for n in m.tree.body if isinstance(n, ast.FunctionDef)]
  c = _NullCtx(_FakeIndex())
  c.where = lambda mod, n: "fixture"
  shape.check_item_sources(c, fs)
  return len(c.bads) == 1 and "copy_lines|" in c.bads[0][1]


def nul_known_fixture_matches() -> bool:
  import ast
  from .core import FuncInfo
  from .rules import nul
  m = fixture_module("nul_known.py")
  fs = [FuncInfo(n.name, f"{m.name}:{n.name}", m, n, None, None) for n in m.tree.body if isinstance(n, ast.FunctionDef)]
  c = _NullCtx(_FakeIndex())
  c.where = lambda mod, n: "fixture"
  nul.check_known_none(c, fs)
  return len(c.bads) == 1 and "disassemble|" in c.bads[0][1]


def loop_break_fixture_matches() -> bool:
  import ast
  from .core import FuncInfo
  from .rules import lint
  m = fixture_module("loop_break.py")
  fs = [FuncInfo(n.name, f"{m.name}:{n.name}", m, n, None, None) for n in m.tree.body if isinstance(n, ast.FunctionDef)]
  c = _NullCtx(_FakeIndex())
  c.where = lambda mod, n: "fixture"
  lint.bare_break_in_item_loop(c, fs)
  return len(c.bads) == 1 and "apply_steps|" in c.bads[0][1]


def lint_k_fixture_matches() -> bool:
  import ast
  from .core import ClassInfo, FuncInfo
  from .rules import lint
  m = fixture_module("lint_k.py")
  cnode = [n for n in m.tree.body if isinstance(n, ast.ClassDef)][0]
  ci = ClassInfo(cnode.name, "fixture.lint_k:" + cnode.name, m, cnode, None)
  for fn_ in cnode.body:
    if isinstance(fn_, ast.FunctionDef):
      ci.methods[fn_.name] = FuncInfo(fn_.name, f"fixture.lint_k:{cnode.name}.{fn_.name}", m, fn_, ci, None)
  c = _NullCtx(_FakeIndex())
  c.where = lambda mod, n: "fixture"
  return lint.numeric_field_truthiness(c, [ci]) == 1 and len(c.bads) == 1


def lint_b_fixture_matches() -> bool:
  from .rules import lint

  class _Ix(_FakeIndex):
    def scope_name(self, m, node):
      import ast
      for f in ast.walk(m.tree):
        if isinstance(f, ast.FunctionDef) and any(x is node for x in ast.walk(f)):
          return m.name + ":Fixture." + f.name
      return m.name + ":<fixture>"
  c = _NullCtx(_Ix())
  n = lint.vacuous_quantifier(c, [fixture_module("lint_b.py")])
  return n == 3 and len(c.bads) == 2 and len(c.oks) == 1


def pur_fixture_matches(ix) -> bool:
  """PUR must flag both mutations of `doc`-derived values in fixtures/source_mutation.py."""
  import ast
  from .core import FuncInfo
  from .modelfacts import ModelFacts
  from .rules import live, pur
  from .typing_lite import Typer
  m = fixture_module("source_mutation.py")
  m.imports["model"] = "ttconv.model"
  fnode = [n for n in m.tree.body if isinstance(n, ast.FunctionDef)][0]
  fi = FuncInfo("snapshot", "fixture.source_mutation:snapshot", m, fnode, None, None)
  fnode._info = fi
  mf, ty = ModelFacts(ix), Typer(ix)
  prov = pur.Provenance(ix, [fi], {("fixture.source_mutation:snapshot", "doc"): pur.SOURCE}, mf=mf, ty=ty)

  class _PS:
    mut = {}
  c = _NullCtx(ix)
  c.where = lambda mod, n: "fixture"
  pur.check_purity(c, prov, [fi], _PS())
  return len(c.bads) == 2


def own_isd_fixture_matches(ix) -> bool:
  import ast
  from .core import FuncInfo
  from .modelfacts import ModelFacts
  from .rules import pur
  from .typing_lite import Typer
  m = fixture_module("isd_owned_timing.py")
  fnode = [n for n in m.tree.body if isinstance(n, ast.FunctionDef)][0]
  fi = FuncInfo("make", "fixture.isd_owned_timing:make", m, fnode, None, None)
  fnode._info = fi
  prov = pur.Provenance(ix, [fi], {("fixture.isd_owned_timing:make", "isd"): pur.ISDP, ("fixture.isd_owned_timing:make", "element"): pur.SOURCE},
                        mf=ModelFacts(ix), ty=Typer(ix))
  c = _NullCtx(ix)
  c.where = lambda mod, n: "fixture"
  pur.check_isd_ownership(c, prov, [fi])
  return len(c.bads) == 1


def set_iteration_fixture_matches() -> bool:
  from .rules import lint
  c = _NullCtx(_FakeIndex())
  c.where = lambda mod, n: "fixture"
  lint.set_iteration(c, [fixture_module("set_iteration.py")])
  return len(c.bads) == 1


def falsy_default_fixture_matches() -> bool:
  from .rules import lint
  c = _NullCtx(_FakeIndex())
  c.where = lambda mod, n: "fixture"
  lint.falsy_numeric_default(c, [fixture_module("falsy_default.py")])
  return len(c.bads) == 1
