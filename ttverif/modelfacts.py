"""Summaries derived from ttconv/model.py and ttconv/isd.py: storage groups, the methods that
mutate each group, and the methods that return a *live view* of a group (E3 wrappers)."""
from __future__ import annotations

import ast
import typing

from .core import AnalysisError, ClassInfo, FuncInfo, Index, own_nodes

CONTAINER_MUTATORS = {"append", "remove", "pop", "clear", "extend", "insert", "update", "setdefault",
                      "add", "discard", "popitem", "sort", "reverse"}


def self_field(expr, selfname="self") -> typing.Optional[str]:
  if isinstance(expr, ast.Attribute) and isinstance(expr.value, ast.Name) and expr.value.id == selfname:
    return expr.attr
  return None


class ModelFacts:
  def __init__(self, ix: Index):
    self.ix = ix
    self.element = ix.cls("ttconv.model:ContentElement")
    self.document = ix.cls("ttconv.model:Document")
    self.content_document = ix.cls("ttconv.model:ContentDocument")
    self.isd = ix.cls("ttconv.isd:ISD")
    self.classes: typing.List[ClassInfo] = []
    for root in (self.element, self.document):
      self.classes += ix.all_subclasses(root, include_self=True)

    # link fields = attribute names stored (on any receiver) by ContentElement.push_child
    push = self.element.methods.get("push_child")
    if push is None:
      raise AnalysisError("anchor vanished: ContentElement.push_child")
    self.link_fields = set()
    for n in own_nodes(push.node):
      if isinstance(n, ast.Assign):
        for t in n.targets:
          if isinstance(t, ast.Attribute):
            self.link_fields.add(t.attr)
    if len(self.link_fields) < 5:
      raise AnalysisError(f"expected >= 5 link fields written by ContentElement.push_child, found {sorted(self.link_fields)}")

    self.direct_writes: typing.Dict[str, typing.Set[str]] = {}
    self.writes: typing.Dict[str, typing.Set[str]] = {}
    for c in self.classes:
      for f in c.methods.values():
        self.direct_writes[f.qualname] = self._direct_writes(f)
    # closure over self.m() / super().m() / Base.m(self)
    self.writes = {k: set(v) for k, v in self.direct_writes.items()}
    changed = True
    while changed:
      changed = False
      for c in self.classes:
        for f in c.methods.values():
          for callee in self._self_calls(c, f):
            add = self.writes.get(callee.qualname, set()) - self.writes[f.qualname]
            if add:
              self.writes[f.qualname] |= add
              changed = True

    # group of a field
    def group(field):
      return "children" if field in self.link_fields else field

    # name-based tables over all model / document classes
    self.mutators: typing.Dict[str, typing.Set[str]] = {}
    self.views: typing.Dict[str, str] = {}
    for c in self.classes:
      for f in c.methods.values():
        gs = {group(x) for x in self.writes[f.qualname]}
        gs.discard("_doc")
        if gs and f.name != "__init__":
          self.mutators.setdefault(f.name, set()).update(gs)
        v = self._view_of(c, f)
        if v is not None:
          self.views[f.name] = group(v)

    # methods that unlink `self` from its parent:  self._parent.<children mutator>(self)
    self.parent_mutators: typing.Set[str] = set()
    for f in self.element.methods.values():
      for n in own_nodes(f.node):
        if isinstance(n, ast.Call) and isinstance(n.func, ast.Attribute) and \
            "children" in self.mutators.get(n.func.attr, ()) and \
            isinstance(n.func.value, ast.Attribute) and n.func.value.attr in self.link_fields and \
            self_field(n.func.value) is not None:
          self.parent_mutators.add(f.name)

  def _direct_writes(self, f: FuncInfo) -> typing.Set[str]:
    out = set()
    if f.is_static:
      return out
    selfname = f.params[0] if f.params else "self"
    for n in own_nodes(f.node):
      targets = []
      if isinstance(n, ast.Assign):
        targets = n.targets
      elif isinstance(n, (ast.AugAssign, ast.AnnAssign)):
        targets = [n.target]
      elif isinstance(n, ast.Delete):
        targets = n.targets
      for t in targets:
        if isinstance(t, ast.Attribute):
          if self_field(t, selfname) is not None:
            out.add(t.attr)
          elif t.attr in self.link_fields:
            out.add(t.attr)
        elif isinstance(t, ast.Subscript):
          fld = self_field(t.value, selfname)
          if fld is not None:
            out.add(fld)
      if isinstance(n, ast.Call) and isinstance(n.func, ast.Attribute) and n.func.attr in CONTAINER_MUTATORS:
        fld = self_field(n.func.value, selfname)
        if fld is not None:
          out.add(fld)
    return out

  def _self_calls(self, c: ClassInfo, f: FuncInfo):
    selfname = f.params[0] if f.params else "self"
    for n in own_nodes(f.node):
      if not (isinstance(n, ast.Call) and isinstance(n.func, ast.Attribute)):
        continue
      recv = n.func.value
      name = n.func.attr
      if isinstance(recv, ast.Name) and recv.id == selfname:
        # dynamic dispatch: the method as seen from c and all overriding subclasses of c
        m = self.ix.lookup_method(c, name)
        if m is not None:
          yield m
      elif isinstance(recv, ast.Call) and isinstance(recv.func, ast.Name) and recv.func.id == "super":
        for b in self.ix.mro(c)[1:]:
          if name in b.methods:
            yield b.methods[name]
            break
      else:
        r = self.ix.resolve(f.module, n.func, cls=c)
        if isinstance(r, FuncInfo) and n.args and isinstance(n.args[0], ast.Name) and n.args[0].id == selfname:
          yield r

  def _view_of(self, c: ClassInfo, f: FuncInfo) -> typing.Optional[str]:
    """Field whose live view the method returns, if any."""
    selfname = f.params[0] if f.params else "self"
    is_gen = any(isinstance(n, (ast.Yield, ast.YieldFrom)) for n in own_nodes(f.node))
    if is_gen:
      for n in own_nodes(f.node):
        if isinstance(n, ast.Attribute) and n.attr in self.link_fields:
          return n.attr
        if isinstance(n, ast.For) and isinstance(n.iter, ast.Name) and n.iter.id == selfname:
          return next(iter(sorted(self.link_fields)))
      return None
    for n in own_nodes(f.node):
      if isinstance(n, ast.Return) and n.value is not None:
        v = n.value
        if isinstance(v, ast.Call):
          if isinstance(v.func, ast.Name) and v.func.id == "iter" and v.args:
            fld = self_field(v.args[0], selfname)
            if fld is not None:
              return fld
          if isinstance(v.func, ast.Attribute) and v.func.attr in ("values", "items", "keys"):
            fld = self_field(v.func.value, selfname)
            if fld is not None:
              return fld
    return None

  def is_element_type(self, t) -> bool:
    return t is not None and t[0] == "inst" and self.ix.is_subclass(t[1], self.element)

  def is_document_type(self, t) -> bool:
    return t is not None and t[0] == "inst" and self.ix.is_subclass(t[1], self.document)
