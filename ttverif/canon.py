"""Canonicalisation of the analysed tree relative to the reference shape.

The rules were confirmed, instance by instance, on the reference tree (the repository at the
commit recorded in baseline.json).  Three kinds of behaviour-preserving refactoring change the
*shape* the rules look for without changing what the code does:

  A. renaming a private function / method (`_replace_regions` -> `_redirect_region_refs`),
  B. extracting statements into a new private helper (`ISD._is_outside_interval(...)`),
  C. renaming locals and private attributes (`s_times` -> `time_set`, `self._sets` -> `self._animation_steps`).

This pass undoes them on the syntax tree before the index is built, so that the rules see the
reference shape again:

  A. a function missing from the reference list and a new function in the same scope with the same
     *skeleton* (the syntax tree with local names and private attribute names abstracted) are the
     same function: the new name is mapped back, at the definition and at every reference;
  B. a private function that the reference does not know, and that has the form of an extracted
     helper (a single returned expression; a procedure; statements followed by returns in tail
     position), is inlined at its call sites;
  C. a function whose skeleton equals the reference skeleton has its locals and private attributes
     mapped back positionally.

Nothing else is touched: a function whose skeleton differs from the reference keeps its names, and
the rules then either still recognise it or report the step as UNDECIDED.  Everything is computed
from /repo's current source on every run; baseline.json holds only names and skeleton hashes of the
reference functions (no source).  Any failure inside this pass leaves the tree as it was.
"""
from __future__ import annotations

import ast
import builtins
import copy
import hashlib
import json
import os
import typing

from .core import clone as _clone

BASELINE_FILE = os.path.join(os.path.dirname(os.path.abspath(__file__)), "baseline.json")
_BUILTINS = set(dir(builtins))


# ---------------------------------------------------------------------------------------
# function table and skeletons
# ---------------------------------------------------------------------------------------

def functions_of(tree) -> typing.Dict[str, ast.AST]:
  """qualified name (relative to the module) -> FunctionDef, including methods and nested functions."""
  out = {}

  def walk(body, prefix, in_func):
    for st in body:
      if isinstance(st, (ast.FunctionDef, ast.AsyncFunctionDef)):
        q = prefix + st.name
        out[q] = st
        walk_stmts(st.body, q + ".<locals>.")
      elif isinstance(st, ast.ClassDef):
        walk(st.body, prefix + st.name + ".", False)
      elif in_func:
        walk_stmts([st], prefix)
      elif isinstance(st, (ast.If, ast.Try, ast.With)):
        for fld in ("body", "orelse", "finalbody"):
          walk(getattr(st, fld, []) or [], prefix, False)

  def walk_stmts(stmts, prefix):
    for st in stmts:
      if isinstance(st, (ast.FunctionDef, ast.AsyncFunctionDef)):
        q = prefix + st.name
        out[q] = st
        walk_stmts(st.body, q + ".<locals>.")
      elif isinstance(st, ast.ClassDef):
        walk(st.body, prefix + st.name + ".", False)
      else:
        for ch in ast.iter_child_nodes(st):
          if isinstance(ch, ast.stmt):
            walk_stmts([ch], prefix)
          elif isinstance(ch, (ast.ExceptHandler, ast.match_case)):
            walk_stmts(ch.body, prefix)
  walk(tree.body, "", False)
  return out


def module_names(tree) -> typing.Set[str]:
  """Names bound at module level (imports, defs, classes, assignments) - these are kept in skeletons."""
  names = set()
  for st in tree.body:
    if isinstance(st, (ast.FunctionDef, ast.AsyncFunctionDef, ast.ClassDef)):
      names.add(st.name)
    elif isinstance(st, ast.Import):
      for a in st.names:
        names.add((a.asname or a.name).split(".")[0])
    elif isinstance(st, ast.ImportFrom):
      for a in st.names:
        names.add(a.asname or a.name)
    elif isinstance(st, (ast.Assign, ast.AnnAssign, ast.AugAssign)):
      for t in (st.targets if isinstance(st, ast.Assign) else [st.target]):
        for n in ast.walk(t):
          if isinstance(n, ast.Name):
            names.add(n.id)
  return names


def _is_private(name: str) -> bool:
  return name.startswith("_") and not (name.startswith("__") and name.endswith("__"))


def skeleton(fnode, keep: typing.Set[str], private_funcs: typing.Set[str] = frozenset(), all_attrs_private: bool = False):
  """(hash, ordered local names, ordered private self/cls attribute names) of a function.
  Local names (everything that is not a module-level or builtin name) and private attributes read
  through self / cls are replaced by their order of first occurrence; the function's own name,
  docstrings and annotations are left out."""
  locs: typing.List[str] = []
  attrs: typing.List[str] = []
  parts: typing.List[str] = []

  def loc(name):
    if name in keep or name in _BUILTINS:
      return name
    if name not in locs:
      locs.append(name)
    return f"L{locs.index(name)}"

  def att(name):
    if name not in attrs:
      attrs.append(name)
    return f"A{attrs.index(name)}"

  def emit(node, top=False):
    if isinstance(node, (ast.FunctionDef, ast.AsyncFunctionDef)):
      parts.append("def(")
      if not top:
        parts.append(loc(node.name))
      for a in node.args.posonlyargs + node.args.args + node.args.kwonlyargs:
        parts.append(loc(a.arg))
      for a in (node.args.vararg, node.args.kwarg):
        if a is not None:
          parts.append("*" + loc(a.arg))
      for d in node.args.defaults + [k for k in node.args.kw_defaults if k is not None]:
        emit(d)
      parts.append("deco:")
      for d in node.decorator_list:
        emit(d)
      body = node.body
      if body and isinstance(body[0], ast.Expr) and isinstance(body[0].value, ast.Constant) and isinstance(body[0].value.value, str):
        body = body[1:]
      for st in body:
        emit(st)
      parts.append(")")
      return
    if isinstance(node, ast.Name):
      parts.append("N:" + loc(node.id))
      return
    if isinstance(node, ast.Attribute):
      if isinstance(node.value, ast.Name) and node.value.id in ("self", "cls") and (_is_private(node.attr) or all_attrs_private):
        parts.append("SA:" + att(node.attr))
        return
      emit(node.value)
      parts.append("." + (att(node.attr) if node.attr in private_funcs else node.attr))
      return
    if isinstance(node, ast.arg):
      parts.append("arg:" + loc(node.arg))
      return
    if isinstance(node, ast.Constant):
      parts.append("C:" + repr(node.value))
      return
    if isinstance(node, ast.AnnAssign):
      parts.append("Assign(")
      emit(node.target)
      if node.value is not None:
        emit(node.value)
      parts.append(")")
      return
    if isinstance(node, ast.ExceptHandler):
      parts.append("except(")
      if node.type is not None:
        emit(node.type)
      if node.name:
        parts.append(loc(node.name))
      for st in node.body:
        emit(st)
      parts.append(")")
      return
    if isinstance(node, ast.keyword):
      parts.append("kw:" + str(node.arg))
      emit(node.value)
      return
    if isinstance(node, (ast.Global, ast.Nonlocal)):
      parts.append(type(node).__name__ + ":" + ",".join(node.names))
      return
    parts.append(type(node).__name__ + "(")
    for fld, val in ast.iter_fields(node):
      if fld in ("ctx", "type_comment", "lineno", "col_offset", "end_lineno", "end_col_offset", "returns", "annotation", "kind"):
        continue
      if isinstance(val, list):
        parts.append(fld + "[")
        for x in val:
          if isinstance(x, ast.AST):
            emit(x)
          else:
            parts.append(repr(x))
        parts.append("]")
      elif isinstance(val, ast.AST):
        emit(val)
      elif val is not None:
        parts.append(fld + "=" + repr(val))
    parts.append(")")
  emit(fnode, top=True)
  h = hashlib.sha256("\x1f".join(parts).encode("utf-8")).hexdigest()[:20]
  return h, locs, attrs


def private_names(fs: typing.Dict[str, ast.AST]) -> typing.Set[str]:
  """Names of the functions that are not part of the public interface: `_x` and nested functions."""
  return {f.name for q, f in fs.items() if _is_private(f.name) or ".<locals>." in q}


def skeleton2(fnode, keep, priv, all_attrs_private=False):
  """Skeleton hash that also abstracts references to private functions (so that a renamed helper
  that is recursive, or that calls other renamed helpers, still matches)."""
  return skeleton(fnode, keep - priv, private_funcs=priv, all_attrs_private=all_attrs_private)[0]


def in_private_class(q: str) -> bool:
  """The function is a method of a class whose name is private: all its attributes are private."""
  parts = [p for p in q.split(".")[:-1] if p != "<locals>"]
  return any(_is_private(p) for p in parts)


def baseline_of(modules: typing.Dict[str, typing.Any]) -> dict:
  """The reference facts for a set of parsed modules (name -> object with .tree)."""
  out = {}
  for name, m in modules.items():
    keep = module_names(m.tree)
    fs = functions_of(m.tree)
    priv = private_names(fs)
    d = {}
    for q, f in fs.items():
      ap = in_private_class(q)
      h, locs, attrs = skeleton(f, keep, all_attrs_private=ap)
      d[q] = {"h": h, "h2": skeleton2(f, keep, priv, ap), "locals": locs, "attrs": attrs,
              "list_inits": sorted({st.targets[0].id for st in _own_walk(f) if isinstance(st, ast.Assign) and len(st.targets) == 1 and isinstance(st.targets[0], ast.Name)
                                    and isinstance(st.value, ast.List) and not st.value.elts})}
    out[name] = d
    out.setdefault("_module_names", {})[name] = sorted(keep)
    out.setdefault("_module_consts", {})[name] = module_const_hashes(m.tree)
  return out


def module_const_hashes(tree) -> typing.Dict[str, str]:
  """module-level `NAME = <value>` (one plain binding) -> hash of the value's text."""
  out, seen = {}, {}
  for st in tree.body:
    if isinstance(st, ast.Assign) and len(st.targets) == 1 and isinstance(st.targets[0], ast.Name):
      nm, val = st.targets[0].id, st.value
    elif isinstance(st, ast.AnnAssign) and isinstance(st.target, ast.Name) and st.value is not None:
      nm, val = st.target.id, st.value
    else:
      continue
    seen[nm] = seen.get(nm, 0) + 1
    out[nm] = hashlib.sha1(ast.unparse(val).encode()).hexdigest()[:16]
  return {k: v for k, v in out.items() if seen[k] == 1}


def load_baseline() -> typing.Optional[dict]:
  try:
    with open(BASELINE_FILE, encoding="utf-8") as f:
      return json.load(f)
  except (OSError, ValueError):
    return None


# ---------------------------------------------------------------------------------------
# tree utilities
# ---------------------------------------------------------------------------------------

def relink(tree):
  for node in ast.walk(tree):
    for child in ast.iter_child_nodes(node):
      child._parent = node
  tree._parent = None


def _scope_of(q: str) -> str:
  return q.rsplit(".", 1)[0] if "." in q else ""


class _Rename(ast.NodeTransformer):
  """Rename Name ids / arg names / nested def names (locals) and private self/cls attributes inside one function."""

  def __init__(self, names: typing.Dict[str, str], attrs: typing.Dict[str, str]):
    self.names, self.attrs = names, attrs

  def visit_Name(self, n):
    if n.id in self.names:
      n.id = self.names[n.id]
    return n

  def visit_arg(self, n):
    if n.arg in self.names:
      n.arg = self.names[n.arg]
    return n

  def visit_FunctionDef(self, n):
    if n.name in self.names:
      n.name = self.names[n.name]
    self.generic_visit(n)
    return n

  def visit_ExceptHandler(self, n):
    if n.name and n.name in self.names:
      n.name = self.names[n.name]
    self.generic_visit(n)
    return n

  def visit_Attribute(self, n):
    self.generic_visit(n)
    if isinstance(n.value, ast.Name) and n.value.id in ("self", "cls") and n.attr in self.attrs:
      n.attr = self.attrs[n.attr]
    return n

  def visit_keyword(self, n):
    self.generic_visit(n)
    return n


# ---------------------------------------------------------------------------------------
# B. inlining of new private helpers
# ---------------------------------------------------------------------------------------

def _strip_doc(body):
  if body and isinstance(body[0], ast.Expr) and isinstance(body[0].value, ast.Constant) and isinstance(body[0].value.value, str):
    return body[1:]
  return body


def _returns(stmts):
  return [n for st in stmts for n in _walk_same_func(st) if isinstance(n, ast.Return)]


def _walk_same_func(node):
  yield node
  for ch in ast.iter_child_nodes(node):
    if isinstance(ch, (ast.FunctionDef, ast.AsyncFunctionDef, ast.Lambda, ast.ClassDef)):
      continue
    yield from _walk_same_func(ch)


def _tail_returns(stmts) -> typing.Optional[typing.List[ast.Return]]:
  """The Return statements in tail position when *every* path through stmts ends in one; else None."""
  if not stmts:
    return None
  last = stmts[-1]
  if isinstance(last, ast.Return):
    return [last]
  if isinstance(last, ast.If) and last.orelse:
    a, b = _tail_returns(last.body), _tail_returns(last.orelse)
    if a is not None and b is not None:
      return a + b
  return None


def _is_const(e, v):
  return isinstance(e, ast.Constant) and e.value is v


def _ifexp(test, a, b):
  """`a if test else b`, written with and / or / not when a or b is a boolean constant."""
  neg = ast.UnaryOp(op=ast.Not(), operand=_clone(test))
  if _is_const(a, True):
    return b if _is_const(b, True) else (_clone(test) if _is_const(b, False) else ast.BoolOp(op=ast.Or(), values=[_clone(test), b]))
  if _is_const(a, False):
    return neg if _is_const(b, True) else (b if _is_const(b, False) else ast.BoolOp(op=ast.And(), values=[neg, b]))
  if _is_const(b, False):
    return ast.BoolOp(op=ast.And(), values=[_clone(test), a])
  if _is_const(b, True):
    return ast.BoolOp(op=ast.Or(), values=[neg, a])
  return ast.IfExp(test=_clone(test), body=a, orelse=b)


def body_as_expr(stmts) -> typing.Optional[ast.AST]:
  """The single expression a helper made only of `if` / `return <expr>` statements computes."""
  if not stmts:
    return None
  st = stmts[0]
  if isinstance(st, ast.Return):
    return _clone(st.value) if st.value is not None else None
  if isinstance(st, ast.If):
    a = body_as_expr(st.body)
    if a is None:
      return None
    b = body_as_expr(st.orelse) if st.orelse else body_as_expr(stmts[1:])
    if b is None:
      return None
    e = _ifexp(st.test, a, b)
    ast.copy_location(e, st)
    ast.fix_missing_locations(e)
    return e
  return None


def classify_helper(h) -> typing.Optional[str]:
  if h.args.vararg or h.args.kwarg or h.decorator_list and any(not (isinstance(d, ast.Name) and d.id in ("staticmethod", "classmethod")) for d in h.decorator_list):
    return None
  body = _strip_doc(h.body)
  if any(isinstance(n, (ast.Yield, ast.YieldFrom, ast.Await, ast.Global, ast.Nonlocal)) for st in body for n in _walk_same_func(st)):
    return None
  if any(isinstance(n, (ast.FunctionDef, ast.AsyncFunctionDef, ast.ClassDef)) for st in body for n in ast.walk(st)):
    return None
  rets = _returns(body)
  if len(body) == 1 and isinstance(body[0], ast.Return) and body[0].value is not None:
    return "expr"
  if body_as_expr(body) is not None:
    return "exprtree"
  if all(r.value is None for r in rets):
    if not rets or (len(rets) == 1 and body and body[-1] is rets[0]):
      return "proc"
    return None
  tails = _tail_returns(body)
  if tails is not None and len(tails) == len(rets) and all(r.value is not None for r in rets):
    return "value"
  # early `return <expr>` guards followed by a final return: `if c: return a` ... `return b`
  if rets and all(r.value is not None for r in rets) and isinstance(body[-1], ast.Return):
    ok = True
    for st in body[:-1]:
      inner = _returns([st])
      if inner and not (isinstance(st, ast.If) and not st.orelse and _tail_returns(st.body) is not None and len(_tail_returns(st.body)) == len(inner)):
        ok = False
    if ok:
      return "guarded"
  return None


class _Subst(ast.NodeTransformer):
  def __init__(self, mapping: typing.Dict[str, ast.AST]):
    self.mapping = mapping

  def visit_Name(self, n):
    if n.id in self.mapping and isinstance(n.ctx, ast.Load):
      return _clone(self.mapping[n.id])
    return n


def _bind(h, call, is_method_call: bool):
  """param name -> argument expression for one call of helper h, or None when it cannot be bound."""
  params = [a.arg for a in h.args.posonlyargs + h.args.args]
  static = any(isinstance(d, ast.Name) and d.id == "staticmethod" for d in h.decorator_list)
  if is_method_call and not static and params:
    params = params[1:]          # self / cls is the receiver
  if any(isinstance(a, ast.Starred) for a in call.args) or any(k.arg is None for k in call.keywords):
    return None
  if len(call.args) > len(params):
    return None
  m = dict(zip(params, call.args))
  kwonly = [a.arg for a in h.args.kwonlyargs]
  for k in call.keywords:
    if k.arg in m or (k.arg not in params and k.arg not in kwonly):
      return None
    m[k.arg] = k.value
  defaults = dict(zip(reversed([a.arg for a in h.args.posonlyargs + h.args.args]), reversed(h.args.defaults)))
  for a, d in zip(h.args.kwonlyargs, h.args.kw_defaults):
    if d is not None:
      defaults[a.arg] = d
  for p in params + kwonly:
    if p not in m:
      if p not in defaults:
        return None
      m[p] = defaults[p]
  return m


def _assigned_in(stmts, name):
  for st in stmts:
    for n in _walk_same_func(st):
      if isinstance(n, ast.Name) and n.id == name and isinstance(n.ctx, (ast.Store, ast.Del)):
        return True
  return False


def _instantiate(h, binding):
  """(prelude assignments, body copy with parameters substituted)."""
  body = _clone(_strip_doc(h.body))
  prelude, mapping = [], {}
  for p, arg in binding.items():
    simple = isinstance(arg, (ast.Name, ast.Constant)) or (isinstance(arg, ast.Attribute) and all(isinstance(x, (ast.Attribute, ast.Name)) for x in ast.walk(arg) if not isinstance(x, ast.expr_context)))
    if _assigned_in(body, p) or not simple:
      if isinstance(arg, ast.Name) and arg.id == p:
        continue
      a = ast.Assign(targets=[ast.Name(id=p, ctx=ast.Store())], value=_clone(arg))
      ast.copy_location(a, arg)
      ast.fix_missing_locations(a)
      prelude.append(a)
    else:
      mapping[p] = arg
  sub = _Subst(mapping)
  body = [sub.visit(st) for st in body]
  return prelude, body


def _holder(node):
  """(list, index) of the statement list that directly contains statement `node`."""
  p = getattr(node, "_parent", None)
  if p is None:
    return None
  for fld in ("body", "orelse", "finalbody"):
    lst = getattr(p, fld, None)
    if isinstance(lst, list):
      for i, x in enumerate(lst):
        if x is node:
          return lst, i
  return None


def _enclosing_stmt(node):
  cur = node
  while cur is not None and not isinstance(cur, ast.stmt):
    cur = getattr(cur, "_parent", None)
  return cur


def _replace_expr(old, new):
  p = getattr(old, "_parent", None)
  if p is None:
    return False
  for fld, val in ast.iter_fields(p):
    if val is old:
      setattr(p, fld, new)
      return True
    if isinstance(val, list):
      for i, x in enumerate(val):
        if x is old:
          val[i] = new
          return True
  return False


def _rewrite_returns(stmts, make):
  """Replace each tail `return E` by make(E)."""
  if not stmts:
    return
  last = stmts[-1]
  if isinstance(last, ast.Return):
    stmts[-1] = ast.copy_location(make(last.value), last)
  elif isinstance(last, ast.If):
    _rewrite_returns(last.body, make)
    _rewrite_returns(last.orelse, make)


def inline_call(h, kind, call, is_method_call) -> bool:
  binding = _bind(h, call, is_method_call)
  if binding is None:
    return False
  if kind == "exprtree":
    # only `if` / `return` statements: the helper is an expression
    e = body_as_expr(_strip_doc(h.body))
    h = copy.copy(h)
    h.body = [ast.copy_location(ast.Return(value=e), e)]
    ast.fix_missing_locations(h.body[0])
    kind = "expr"
  prelude, body = _instantiate(h, binding)
  stmt = _enclosing_stmt(call)
  if stmt is None:
    return False
  hold = _holder(stmt)
  if hold is None:
    return False
  lst, i = hold
  if kind == "expr":
    expr = body[0].value
    if prelude:
      lst[i:i] = prelude
    return _replace_expr(call, expr)
  if kind == "proc":
    if not (isinstance(stmt, ast.Expr) and stmt.value is call):
      return False
    if body and isinstance(body[-1], ast.Return):
      body = body[:-1]
    lst[i:i + 1] = prelude + (body or [ast.copy_location(ast.Pass(), stmt)])
    return True
  if kind in ("value", "guarded"):
    if kind == "guarded":
      # `if c: return a` ... `return b`  ==>  if c: <a> else: (rest)
      def nest(stmts):
        for j, st in enumerate(stmts):
          if isinstance(st, ast.If) and not st.orelse and _returns([st]):
            st.orelse = nest(stmts[j + 1:])
            return stmts[:j + 1]
        return stmts
      body = nest(body)
    if isinstance(stmt, ast.Return) and stmt.value is call:
      lst[i:i + 1] = prelude + body
      return True
    if isinstance(stmt, (ast.Assign, ast.AnnAssign)) and stmt.value is call:
      targets = stmt.targets if isinstance(stmt, ast.Assign) else [stmt.target]

      def make(e):
        a = ast.Assign(targets=[_clone(t) for t in targets], value=e)
        return a
      _rewrite_returns(body, make)
      for st in body:
        ast.fix_missing_locations(st)
      lst[i:i + 1] = prelude + body
      return True
    # nested in an expression: only a straight-line helper with one final return can be hoisted
    if isinstance(body[-1], ast.Return) and len(_returns(body)) == 1:
      lst[i:i] = prelude + body[:-1]
      return _replace_expr(call, body[-1].value)
    return False
  return False


def _calls_to(tree, name, cls_name):
  """Call nodes that refer to helper `name` (a method of class cls_name, or a module-level function when cls_name is None)."""
  out = []
  for n in ast.walk(tree):
    if not isinstance(n, ast.Call):
      continue
    f = n.func
    if cls_name is None:
      if isinstance(f, ast.Name) and f.id == name:
        out.append((n, False))
    elif isinstance(f, ast.Attribute) and f.attr == name:
      recv = f.value
      if isinstance(recv, ast.Name) and recv.id in ("self", "cls"):
        out.append((n, True))
      elif (isinstance(recv, ast.Name) and recv.id == cls_name) or (isinstance(recv, ast.Attribute) and recv.attr == cls_name):
        out.append((n, False))     # Class.helper(...): every argument is explicit
  return out


# ---------------------------------------------------------------------------------------
# E. locals the reference does not have ("introduce variable") are inlined again
# ---------------------------------------------------------------------------------------

_MUTATORS = {"append", "extend", "insert", "add", "update", "pop", "popitem", "remove", "discard", "clear", "setdefault", "sort", "reverse", "write", "push_child", "push_children",
             "set_style", "set_begin", "set_end", "set_region", "set_text", "set_id", "set_lang", "set_space", "add_animation_step", "remove_child", "remove_children", "set"}


def _own_walk(fnode):
  for st in fnode.body:
    yield from _walk_same_func(st)


_QUERY_BUILTINS = {"len", "isinstance", "min", "max", "abs", "round", "int", "float", "str", "bool", "tuple", "list", "set", "frozenset", "dict", "sorted", "reversed", "enumerate",
                   "zip", "range", "sum", "any", "all", "Fraction", "getattr", "hasattr", "type", "iter", "repr", "format", "ceil", "floor", "divmod"}


def _query_only(val) -> bool:
  """every call inside the expression is a query: a getter / predicate / view by its name, a container or numeric builtin, a method of a
  string or mapping that returns a value (an approximation by name, as everywhere in this pass)"""
  for x in ast.walk(val):
    if isinstance(x, ast.Call):
      if isinstance(x.func, ast.Name):
        if x.func.id in _QUERY_BUILTINS or x.func.id.startswith(("_make_", "make_", "is_", "has_", "get_", "_get_", "_is_", "parse_", "to_")):
          continue
        return False
      if isinstance(x.func, ast.Attribute):
        a = x.func.attr
        if a.startswith(("get", "is_", "has_", "iter_", "to_", "_get", "_is", "make_", "_make", "parse", "find", "from_seconds", "from_frames", "from_bytes", "from_value")) or a in (
            "items", "keys", "values", "copy", "lower", "upper", "strip", "lstrip", "rstrip", "split", "join", "startswith", "endswith", "replace", "format", "group", "groups",
            "match", "fullmatch", "search", "index", "count", "parent", "root", "first_child", "last_child", "next_sibling", "previous_sibling", "dfs_iterator", "name",
            "validate", "extract", "contains_value", "numerator", "denominator", "isspace", "isdigit", "encode", "decode", "union", "intersection", "difference", "zfill", "bit_length"):
          continue
        return False
      return False
  return True


_EFFECT_METHODS = {"pop", "popitem", "popleft", "read", "readline", "readlines", "recv", "send", "write", "append", "extend", "insert", "remove", "add", "discard",
                   "update", "setdefault", "clear", "sort", "reverse", "push_child", "push_children", "remove_child", "remove_children", "set_style", "set_region",
                   "put_region", "remove_region", "__next__", "get_nowait", "close", "feed"}


def inline_new_locals(q, fn, base_locals, log, name):
  known = set(base_locals)
  params = {a.arg for a in fn.args.posonlyargs + fn.args.args + fn.args.kwonlyargs}
  binds: typing.Dict[str, typing.List[ast.AST]] = {}
  other_stores = set()
  for n in _own_walk(fn):
    if isinstance(n, ast.Assign) and len(n.targets) == 1 and isinstance(n.targets[0], ast.Name):
      binds.setdefault(n.targets[0].id, []).append(n)
    elif isinstance(n, ast.AnnAssign) and isinstance(n.target, ast.Name) and n.value is not None:
      binds.setdefault(n.target.id, []).append(n)
    elif isinstance(n, ast.Name) and isinstance(n.ctx, (ast.Store, ast.Del)):
      pa = getattr(n, "_parent", None)
      if not (isinstance(pa, (ast.Assign, ast.AnnAssign)) and (getattr(pa, "targets", [None])[0] is n or getattr(pa, "target", None) is n)):
        other_stores.add(n.id)
  done = []
  for v, sts in binds.items():
    if v in known or v in params or v in other_stores or len(sts) != 1:
      continue
    st = sts[0]
    val = st.value
    if any(isinstance(x, (ast.Yield, ast.YieldFrom, ast.Await, ast.NamedExpr, ast.Lambda, ast.List, ast.Dict, ast.Set, ast.DictComp, ast.SetComp)) for x in ast.walk(val)):
      continue
    if any(isinstance(x, ast.ListComp) for x in ast.walk(val)) and sum(1 for n in _own_walk(fn) if isinstance(n, ast.Name) and n.id == v and isinstance(n.ctx, ast.Load)) != 1:
      continue
    # a value taken by an operation with an effect (pop from a stack, next item of an iterator, a read) is taken once
    if any(isinstance(x, ast.Call) and ((isinstance(x.func, ast.Attribute) and x.func.attr in _EFFECT_METHODS) or (isinstance(x.func, ast.Name) and x.func.id in ("next", "input")))
           for x in ast.walk(val)):
      continue
    # a value that reads an item of a container (`pending[-1]`, `stack[0]`, `table[k]`) is a snapshot of the container at that point:
    # when the function also changes that container (pop / append / item assignment / del), a later use must not re-read it
    bases = {ast.unparse(x.value) for x in ast.walk(val) if isinstance(x, ast.Subscript) and isinstance(x.ctx, ast.Load)}
    if bases:
      mutated = set()
      for x in _own_walk(fn):
        if isinstance(x, ast.Call) and isinstance(x.func, ast.Attribute) and x.func.attr in _EFFECT_METHODS | {"clear", "sort", "reverse", "update", "setdefault"}:
          mutated.add(ast.unparse(x.func.value))
        elif isinstance(x, ast.Subscript) and isinstance(x.ctx, (ast.Store, ast.Del)):
          mutated.add(ast.unparse(x.value))
        elif isinstance(x, ast.AugAssign):
          mutated.add(ast.unparse(x.target))
      if bases & mutated:
        continue
    # a value that reads a field (`self._last_child`, `child._next_sibling`) is a snapshot of that field: when the function also assigns
    # the field, a later use must not re-read it
    fields = {ast.unparse(x) for x in ast.walk(val) if isinstance(x, ast.Attribute) and isinstance(x.ctx, ast.Load)}
    if fields:
      store_nodes = [x for x in _own_walk(fn) if isinstance(x, ast.Attribute) and isinstance(x.ctx, (ast.Store, ast.Del))
                     and (ast.unparse(x) in fields or x.attr in {f_.split(".")[-1] for f_ in fields})]
      if store_nodes:
        # harmless only when every use of the local precedes every such assignment within one execution of the block that holds the
        # definition (same innermost loop for definition and uses; the assignments come later in the text)
        uses_ = [n for n in _own_walk(fn) if isinstance(n, ast.Name) and n.id == v and isinstance(n.ctx, ast.Load)]

        def _loop_of(n_):
          cur_ = getattr(n_, "_parent", None)
          while cur_ is not None and cur_ is not fn:
            if isinstance(cur_, (ast.For, ast.While)):
              return cur_
            cur_ = getattr(cur_, "_parent", None)
          return None
        pos_ = lambda n_: (getattr(n_, "lineno", 0), getattr(n_, "col_offset", 0))
        same_scope = all(_loop_of(u_) is _loop_of(st) for u_ in uses_)
        last_use = max((pos_(u_) for u_ in uses_), default=(0, 0))
        if not (same_scope and all(pos_(x_) > last_use for x_ in store_nodes)):
          continue
    # the statement must sit directly in a statement list (not under a condition that may be skipped: accepted, approximation)
    uses = [n for n in _own_walk(fn) if isinstance(n, ast.Name) and n.id == v and isinstance(n.ctx, ast.Load)]
    if not uses or any((u.lineno, u.col_offset) < (st.lineno, st.col_offset) for u in uses if hasattr(u, "lineno")):
      continue
    # a value produced by a call that is not a plain query (a reader / writer / filter run, a constructor) keeps its place in the
    # order of effects: it is moved only into the simple statement that follows it directly
    if not _query_only(val):
      hold0 = _holder(st)
      nxt = hold0[0][hold0[1] + 1] if hold0 is not None and hold0[1] + 1 < len(hold0[0]) else None
      if len(uses) != 1 or nxt is None or not isinstance(nxt, (ast.Assign, ast.AnnAssign, ast.AugAssign, ast.Expr, ast.Return)) or not any(x is uses[0] for x in ast.walk(nxt)):
        continue
    bad = False
    if len(uses) > 1 and any(isinstance(x, ast.Call) and isinstance(x.func, ast.Name) and x.func.id in ("round", "int", "floor", "ceil", "float", "Fraction", "sorted", "list", "tuple", "set", "dict")
                             for x in ast.walk(val)):
      continue      # a value computed once on purpose (rounding, conversion, snapshot of a container) stays a local
    for u in uses:
      pa = getattr(u, "_parent", None)
      if isinstance(pa, ast.Subscript) and isinstance(pa.ctx, (ast.Store, ast.Del)):
        bad = True
      if isinstance(pa, ast.AugAssign) and pa.target is u:
        bad = True
    # a local defined from a local that is re-bound later is not stable
    if bad:
      continue
    for u in uses:
      _replace_expr(u, _clone(val))
    hold = _holder(st)
    if hold is not None:
      lst, i = hold
      if len(lst) > 1:
        del lst[i]
      else:
        lst[i] = ast.copy_location(ast.Pass(), st)
    relink(fn)
    done.append(v)
  if done:
    log.append(f"{name}: locals of `{q}` that the reference does not have were inlined ({', '.join(done[:8])})")


class _RenameLoad(ast.NodeTransformer):
  def __init__(self, old, new):
    self.old, self.new = old, new

  def visit_Name(self, n):
    if n.id == self.old:
      return ast.copy_location(ast.Name(id=self.new, ctx=n.ctx), n)
    return n


def prefilter_loops(q, fn, log, name):
  """`for x in [y for y in it if c(y)]: body` in a function that differs from the reference is read
  as `for x in it: if c(x): body` (the pre-filtered list and the filtering loop visit the same items
  in the same order; they differ only if the body changes what c reads - accepted approximation,
  logged).  A snapshot `list(it)` is kept around the iterable, as the comprehension took one."""
  done = 0
  for node in list(_own_walk(fn)):
    if not (isinstance(node, ast.For) and not node.orelse and isinstance(node.target, ast.Name) and isinstance(node.iter, (ast.ListComp, ast.GeneratorExp))):
      continue
    comp = node.iter
    if len(comp.generators) != 1 or comp.generators[0].is_async:
      continue
    g = comp.generators[0]
    if not (isinstance(g.target, ast.Name) and isinstance(comp.elt, ast.Name) and comp.elt.id == g.target.id and g.ifs):
      continue
    x, y = node.target.id, g.target.id
    tests = [_RenameLoad(y, x).visit(_clone(t)) for t in g.ifs]
    test = tests[0] if len(tests) == 1 else ast.BoolOp(op=ast.And(), values=tests)
    it = g.iter
    if isinstance(comp, ast.ListComp) and not (isinstance(it, ast.Call) and isinstance(it.func, ast.Name) and it.func.id in ("list", "tuple", "sorted")):
      # a list comprehension is a snapshot of its iterable: the loop form keeps one
      it = ast.Call(func=ast.Name(id="list", ctx=ast.Load()), args=[it], keywords=[])
    node.iter = ast.copy_location(it, comp)
    node.body = [ast.copy_location(ast.If(test=test, body=node.body, orelse=[]), node.body[0])]
    ast.fix_missing_locations(node)
    done += 1
  if done:
    relink(fn)
    log.append(f"{name}: {done} loop(s) over a filtering comprehension in `{q}` read as loop + if")


def expand_comprehensions(q, fn, list_inits, log, name):
  """`xs = [e for t in it if c]` where the reference builds `xs` with `xs = []` and an append loop
  is written back as that loop (`xs = []; for t in it: if c: xs.append(e)`); an assignment
  expression in the condition becomes the assignment statement it abbreviates.  Same items, same order."""
  done = []
  for st in list(_own_walk(fn)):
    if not (isinstance(st, ast.Assign) and len(st.targets) == 1 and isinstance(st.targets[0], ast.Name) and st.targets[0].id in list_inits
            and isinstance(st.value, ast.ListComp) and len(st.value.generators) == 1 and not st.value.generators[0].is_async):
      continue
    hold = _holder(st)
    if hold is None:
      continue
    lst, i = hold
    x = st.targets[0].id
    comp = st.value
    g = comp.generators[0]
    pre, tests = [], []
    for t in g.ifs:
      t = _clone(t)
      for w in [n for n in ast.walk(t) if isinstance(n, ast.NamedExpr)]:
        pre.append(ast.Assign(targets=[ast.Name(id=w.target.id, ctx=ast.Store())], value=w.value))
        _replace_in(t, w, ast.Name(id=w.target.id, ctx=ast.Load()))
        if t is w:
          t = ast.Name(id=w.target.id, ctx=ast.Load())
      tests.append(t)
    app = ast.Expr(value=ast.Call(func=ast.Attribute(value=ast.Name(id=x, ctx=ast.Load()), attr="append", ctx=ast.Load()), args=[_clone(comp.elt)], keywords=[]))
    body = [app]
    if tests:
      body = [ast.If(test=tests[0] if len(tests) == 1 else ast.BoolOp(op=ast.And(), values=tests), body=[app], orelse=[])]
    loop = ast.For(target=_clone(g.target), iter=_clone(g.iter), body=pre + body, orelse=[])
    init = ast.Assign(targets=[ast.Name(id=x, ctx=ast.Store())], value=ast.List(elts=[], ctx=ast.Load()))
    for n_ in (init, loop):
      ast.copy_location(n_, st)
      for sub in ast.walk(n_):
        if not hasattr(sub, "lineno"):
          ast.copy_location(sub, st)
      ast.fix_missing_locations(n_)
    lst[i:i + 1] = [init, loop]
    done.append(x)
  if done:
    relink(fn)
    log.append(f"{name}: list comprehension(s) building {', '.join(done)} in `{q}` written back as the reference's append loop")


def _replace_in(root, old, new):
  for p in ast.walk(root):
    for fld, val in ast.iter_fields(p):
      if val is old:
        setattr(p, fld, new)
        return True
      if isinstance(val, list):
        for k, v in enumerate(val):
          if v is old:
            val[k] = new
            return True
  return False


def result_var_to_returns(q, fn, base_locals, log, name):
  """`if c: v = a  elif d: v = b  else: v = e ; return v` with a local v the reference does not
  have is the single-exit spelling of `if c: return a ...`: the early returns are restored."""
  body = fn.body
  if len(body) < 2 or not (isinstance(body[-1], ast.Return) and isinstance(body[-1].value, ast.Name) and isinstance(body[-2], ast.If)):
    return
  v = body[-1].value.id
  params = {a.arg for a in fn.args.posonlyargs + fn.args.args + fn.args.kwonlyargs}
  if v in base_locals or v in params:
    return
  finals = []

  def conv(block) -> bool:
    if not block:
      return False
    last = block[-1]
    if isinstance(last, (ast.Return, ast.Raise)):
      return True
    if isinstance(last, ast.Assign) and len(last.targets) == 1 and isinstance(last.targets[0], ast.Name) and last.targets[0].id == v:
      finals.append((block, last))
      return True
    if isinstance(last, ast.If) and last.orelse:
      return conv(last.body) and conv(last.orelse)
    return False
  if not conv([body[-2]]):
    return
  names = [n for n in _own_walk(fn) if isinstance(n, ast.Name) and n.id == v]
  stores = [n for n in names if isinstance(n.ctx, ast.Store)]
  loads = [n for n in names if isinstance(n.ctx, ast.Load)]
  if len(loads) != 1 or len(stores) != len(finals) or any(isinstance(x, ast.Name) and x.id == v for _, st in finals for x in ast.walk(st.value)):
    return
  for block, st in finals:
    block[-1] = ast.copy_location(ast.Return(value=st.value), st)
  del body[-1]
  relink(fn)
  log.append(f"{name}: result variable `{v}` of `{q}` (assigned in every branch, returned once) rewritten to the reference's early returns")


# ---------------------------------------------------------------------------------------
# D. idiom normalisation (independent of the reference)
# ---------------------------------------------------------------------------------------

class _AddK(ast.NodeTransformer):
  def __init__(self, name, k):
    self.name, self.k = name, k

  def visit_Name(self, n):
    if n.id == self.name and isinstance(n.ctx, ast.Load):
      e = ast.BinOp(left=ast.Name(id=n.id, ctx=ast.Load()), op=ast.Add(), right=ast.Constant(self.k))
      return ast.fix_missing_locations(ast.copy_location(e, n))
    return n


def _enumerate_start(it):
  if isinstance(it, ast.Call) and isinstance(it.func, ast.Name) and it.func.id == "enumerate" and it.args:
    k = None
    if len(it.args) == 2 and isinstance(it.args[1], ast.Constant) and isinstance(it.args[1].value, int):
      k = it.args[1].value
    for kw in it.keywords:
      if kw.arg == "start" and isinstance(kw.value, ast.Constant) and isinstance(kw.value.value, int):
        k = kw.value.value
    return k
  return None


def normalise_idioms(tree, log, name):
  """`for i, x in enumerate(seq, start=k)` (k != 0) becomes `for i, x in enumerate(seq)` with every read of i
  replaced by `i + k`: the same values, in the form the reference uses."""
  n_done = 0
  for node in ast.walk(tree):
    gens = []
    if isinstance(node, ast.For):
      gens = [(node, node.body + node.orelse)]
    elif isinstance(node, (ast.ListComp, ast.SetComp, ast.GeneratorExp)):
      gens = [(g, [node.elt] + g.ifs) for g in node.generators[:1] if len(node.generators) == 1]
    elif isinstance(node, ast.DictComp):
      gens = [(g, [node.key, node.value] + g.ifs) for g in node.generators[:1] if len(node.generators) == 1]
    for g, users in gens:
      k = _enumerate_start(g.iter)
      if not k or not (isinstance(g.target, ast.Tuple) and g.target.elts and isinstance(g.target.elts[0], ast.Name)):
        continue
      i = g.target.elts[0].id
      if any(isinstance(x, ast.Name) and x.id == i and isinstance(x.ctx, (ast.Store, ast.Del)) for u in users for x in ast.walk(u)):
        continue
      g.iter.args = g.iter.args[:1]
      g.iter.keywords = [kw for kw in g.iter.keywords if kw.arg != "start"]
      tr = _AddK(i, k)
      if isinstance(node, ast.For):
        node.body = [tr.visit(st) for st in node.body]
        node.orelse = [tr.visit(st) for st in node.orelse]
      elif isinstance(node, ast.DictComp):
        node.key, node.value = tr.visit(node.key), tr.visit(node.value)
        g.ifs = [tr.visit(x) for x in g.ifs]
      else:
        node.elt = tr.visit(node.elt)
        g.ifs = [tr.visit(x) for x in g.ifs]
      n_done += 1
  if n_done:
    log.append(f"{name}: {n_done} enumerate(..., start=k) loop(s) written as enumerate(...) with index + k")
    relink(tree)


# ---------------------------------------------------------------------------------------
# F. module-level constants the reference does not have ("hoist constant") are inlined again
# ---------------------------------------------------------------------------------------

_READERS = {"get", "items", "keys", "values", "index", "count", "copy", "match", "fullmatch", "search", "sub", "split", "findall", "finditer"}
_PURE_CALLS = {"len", "sorted", "tuple", "list", "set", "frozenset", "dict", "enumerate", "any", "all", "min", "max", "sum", "iter", "reversed", "zip", "map", "filter", "isinstance", "issubclass"}


def _readonly_use(u) -> bool:
  pa = getattr(u, "_parent", None)
  if isinstance(pa, ast.Compare):
    return any(c is u for c in pa.comparators) and all(isinstance(o, (ast.In, ast.NotIn)) for o in pa.ops)
  if isinstance(pa, ast.Subscript) and pa.value is u:
    return isinstance(pa.ctx, ast.Load)
  if isinstance(pa, ast.Attribute) and pa.value is u:
    return pa.attr in _READERS and isinstance(getattr(pa, "_parent", None), ast.Call)
  if isinstance(pa, (ast.For, ast.comprehension)) and pa.iter is u:
    return True
  if isinstance(pa, ast.Call) and isinstance(pa.func, ast.Name) and pa.func.id in _PURE_CALLS and any(a is u for a in pa.args):
    return True
  if isinstance(pa, ast.Starred):
    return True
  return False


def inline_new_constants(name, tree, ref_names, imported_elsewhere, log):
  done = []
  for st in list(tree.body):
    if isinstance(st, ast.Assign) and len(st.targets) == 1 and isinstance(st.targets[0], ast.Name):
      c, val = st.targets[0].id, st.value
    elif isinstance(st, ast.AnnAssign) and isinstance(st.target, ast.Name) and st.value is not None:
      c, val = st.target.id, st.value
    else:
      continue
    if c in ref_names or c in imported_elsewhere or not (_is_private(c) or c.isupper()) or c.startswith("__"):
      continue
    if any(isinstance(x, (ast.Lambda, ast.Yield, ast.YieldFrom, ast.Await, ast.NamedExpr)) for x in ast.walk(val)):
      continue
    names = [n for n in ast.walk(tree) if isinstance(n, ast.Name) and n.id == c]
    stores = [n for n in names if not isinstance(n.ctx, ast.Load)]
    loads = [n for n in names if isinstance(n.ctx, ast.Load)]
    if len(stores) != 1 or not loads:
      continue
    if any(isinstance(x, (ast.Global, ast.Nonlocal)) and c in x.names for x in ast.walk(tree)):
      continue
    if any(isinstance(a, ast.arg) and a.arg == c for a in ast.walk(tree)):
      continue
    bad = False
    for u in loads:
      pa = getattr(u, "_parent", None)
      if isinstance(pa, ast.Subscript) and pa.value is u and isinstance(pa.ctx, (ast.Store, ast.Del)):
        bad = True
      if isinstance(pa, ast.Attribute) and pa.attr in _MUTATORS and isinstance(getattr(pa, "_parent", None), ast.Call):
        bad = True
      if isinstance(pa, ast.AugAssign) and pa.target is u:
        bad = True
    # a mutable container may only be inlined where it is read in place: an alias (`x = _TABLE`, an argument, a
    # return value) could be mutated later, and that would change the shared object but not an inlined copy
    mutable = isinstance(val, (ast.List, ast.Dict, ast.Set, ast.ListComp, ast.DictComp, ast.SetComp)) or \
      (isinstance(val, ast.Call) and not (isinstance(val.func, ast.Name) and val.func.id in ("tuple", "frozenset", "range", "str", "int", "float", "Fraction", "len")) and
       not (isinstance(val.func, ast.Attribute) and val.func.attr == "compile"))
    if mutable and not all(_readonly_use(u) for u in loads):
      continue
    if bad:
      continue
    for u in loads:
      _replace_expr(u, _clone(val))
    tree.body.remove(st)
    relink(tree)
    done.append(c)
  if done:
    log.append(f"{name}: module-level constants that the reference does not have were inlined at their uses ({', '.join(done[:8])})")


# ---------------------------------------------------------------------------------------
# driver
# ---------------------------------------------------------------------------------------

DIFFERS = [False]     # set by canonicalise: the analysed tree is not the reference tree (some function's skeleton differs, or functions were added / removed)


def canonicalise(modules: typing.Dict[str, typing.Any], baseline: typing.Optional[dict] = None) -> typing.List[str]:
  """Mutates m.tree of the given modules; returns a log of what was mapped back."""
  log: typing.List[str] = []
  DIFFERS[0] = False
  baseline = baseline if baseline is not None else load_baseline()
  if not baseline:
    return log
  attr_renames: typing.Dict[str, str] = {}     # package-wide: new private name -> reference name (functions / methods)
  ref_names = baseline.get("_module_names", {})
  imported = {a.name for m in modules.values() for st in ast.walk(m.tree) if isinstance(st, ast.ImportFrom) for a in st.names}
  for name, m in modules.items():
    base = baseline.get(name)
    if base is None or name.startswith("_"):
      continue
    try:
      rename_private_globals(name, m.tree, set(ref_names.get(name, ())), baseline.get("_module_consts", {}).get(name, {}), base, log)
      if name in ref_names:
        inline_new_constants(name, m.tree, set(ref_names[name]), imported, log)
      _canon_module(name, m, base, log, attr_renames)
      normalise_idioms(m.tree, log, name)
    except Exception as e:   # the pass must never break the analysis
      log.append(f"{name}: canonicalisation skipped ({type(e).__name__}: {e})")
  if attr_renames:
    for name, m in modules.items():
      changed = False
      for n in ast.walk(m.tree):
        if isinstance(n, ast.Attribute) and n.attr in attr_renames:
          n.attr = attr_renames[n.attr]
          changed = True
      if changed:
        relink(m.tree)
  return log


def _rename_everywhere(tree, old, new):
  for n in ast.walk(tree):
    if isinstance(n, ast.Name) and n.id == old:
      n.id = new
    elif isinstance(n, ast.Attribute) and n.attr == old:
      n.attr = new
    elif isinstance(n, (ast.ClassDef, ast.FunctionDef)) and n.name == old:
      n.name = new


def rename_private_globals(name, tree, ref_names, ref_consts, base, log):
  """Renamed private module-level constants (a new private / upper-case name bound to the value a
  missing reference name had) and renamed private classes (a new private class with the methods of
  a missing reference class) are mapped back to the reference's names."""
  if not ref_names:
    return
  cur_names = module_names(tree)
  cur_consts = module_const_hashes(tree)
  missing = {r for r in ref_names - cur_names if r in ref_consts}
  for n_, h in sorted(cur_consts.items()):
    if n_ in ref_names or not (_is_private(n_) or n_.isupper()):
      continue
    cands = [r for r in missing if ref_consts[r] == h and (_is_private(r) or r.isupper())]
    if len(cands) == 1:
      _rename_everywhere(tree, n_, cands[0])
      missing.discard(cands[0])
      log.append(f"{name}: module-level constant `{n_}` is the reference's `{cands[0]}` (same value): mapped back")
  # classes: reference classes are the prefixes of the reference's method names
  def classes_of(qs):
    out = {}
    for q in qs:
      if "." in q and ".<locals>." not in q:
        c, meth = q.rsplit(".", 1)
        out.setdefault(c, set()).add(meth)
    return out
  ref_cls = classes_of(base)
  cur_cls = classes_of(functions_of(tree))
  gone = {c: ms for c, ms in ref_cls.items() if c not in cur_cls and "." not in c}
  for c_new, ms in sorted(cur_cls.items()):
    if c_new in ref_cls or "." in c_new or not _is_private(c_new):
      continue
    cands = [c for c, ms0 in gone.items() if _is_private(c) and (ms0 == ms or (len(ms0) == len(ms) and len(ms0 & ms) >= len(ms) - 1))]
    if len(cands) == 1:
      _rename_everywhere(tree, c_new, cands[0])
      del gone[cands[0]]
      log.append(f"{name}: private class `{c_new}` is the reference's `{cands[0]}` (same methods): mapped back")
  relink(tree)


def _canon_module(name, m, base, log, attr_renames):
  tree = m.tree
  keep = module_names(tree)
  cur = functions_of(tree)
  missing = [q for q in base if q not in cur]
  new = [q for q in cur if q not in base]
  if missing or new:
    DIFFERS[0] = True
  # --- A. renamed functions -----------------------------------------------------------
  if missing and new:
    priv = private_names(cur)
    for qn in list(new):
      fn = cur[qn]
      h, locs, attrs = skeleton(fn, keep, all_attrs_private=in_private_class(qn))
      cands = [qm for qm in missing if _scope_of(qm) == _scope_of(qn) and base[qm]["h"] == h]
      if len(cands) != 1:
        # the function may call itself (recursion) or other renamed helpers by their new names: abstract those too
        h2 = skeleton2(fn, keep, priv, in_private_class(qn))
        cands = [qm for qm in missing if _scope_of(qm) == _scope_of(qn) and base[qm].get("h2") == h2]
      if len(cands) == 1:
        old = cands[0].rsplit(".", 1)[-1]
        newname = fn.name
        nested = ".<locals>." in qn
        if not nested and not (_is_private(newname) and _is_private(old)):
          continue          # a public rename is an interface change, not a refactoring
        log.append(f"{name}: function `{newname}` is the reference's `{old}` (same skeleton): mapped back")
        fn.name = old
        for n in ast.walk(tree):
          if isinstance(n, ast.Name) and n.id == newname:
            n.id = old
          elif isinstance(n, ast.Attribute) and n.attr == newname:
            n.attr = old
        if _is_private(newname) and not nested:
          attr_renames[newname] = old
        missing.remove(cands[0])
        new.remove(qn)
    relink(tree)
    cur = functions_of(tree)
    keep = module_names(tree)
  # --- B. new private helpers are inlined ---------------------------------------------
  for _round in range(6):
    cur = functions_of(tree)
    # (a function nested in another one is never part of the interface, whatever its name)
    helpers = [(q, f) for q, f in cur.items() if q not in base and (_is_private(f.name) or ".<locals>." in q)]
    progressed = False
    for q, h in helpers:
      kind = classify_helper(h)
      if kind is None:
        continue
      if ".<locals>." in q:
        outer = cur.get(q.rsplit(".<locals>.", 1)[0])
        if outer is None or "." in q.rsplit(".<locals>.", 1)[1]:
          continue
        cls_name, scope = None, outer
      else:
        cls_name, scope = (q.rsplit(".", 2)[-2] if "." in q else None), tree
      sites = [(c, mc) for c, mc in _calls_to(scope, h.name, cls_name) if not any(x is c for x in ast.walk(h))]
      if not sites:
        continue
      done = 0
      for c, mc in sites:
        relink(tree)
        if inline_call(h, kind, c, bool(mc)):
          done += 1
          relink(tree)
      if done:
        progressed = True
        log.append(f"{name}: new private helper `{q}` ({kind}) inlined at {done} call site(s)")
        # `x = helper()` whose helper built its result in a local also called x leaves `x = x`: dropped
        for n in list(ast.walk(tree)):
          if isinstance(n, ast.Assign) and len(n.targets) == 1 and isinstance(n.targets[0], ast.Name) and isinstance(n.value, ast.Name) and n.value.id == n.targets[0].id:
            hold_ = _holder(n)
            if hold_ is not None and len(hold_[0]) > 1:
              del hold_[0][hold_[1]]
        relink(tree)
        if done == len(sites):
          hold = _holder(h)
          if hold is not None:
            lst, i = hold
            if len(lst) > 1:
              del lst[i]
            relink(tree)
    if not progressed:
      break
  # --- C. locals / private attributes of unchanged functions ---------------------------
  cur = functions_of(tree)
  keep = module_names(tree)
  class_attr_votes: typing.Dict[typing.Tuple[str, str], typing.Dict[str, int]] = {}
  for q, fn in cur.items():
    b = base.get(q)
    if b is None:
      continue
    h, locs, attrs = skeleton(fn, keep, all_attrs_private=in_private_class(q))
    if h != b["h"]:
      DIFFERS[0] = True
      try:
        result_var_to_returns(q, fn, b["locals"], log, name)
        expand_comprehensions(q, fn, set(b.get("list_inits", ())), log, name)
        prefilter_loops(q, fn, log, name)
        inline_new_locals(q, fn, b["locals"], log, name)
      except Exception as e:
        log.append(f"{name}: `{q}`: new locals left in place ({type(e).__name__}: {e})")
      continue
    if locs != b["locals"] and len(locs) == len(b["locals"]):
      mapping = {c: r for c, r in zip(locs, b["locals"]) if c != r}
      if mapping and len(set(mapping.values())) == len(mapping):
        # two-phase rename to survive swaps
        tmp = {c: f"__canon_{i}" for i, c in enumerate(mapping)}
        _Rename(tmp, {}).visit(fn)
        _Rename({tmp[c]: r for c, r in mapping.items()}, {}).visit(fn)
        log.append(f"{name}: locals of `{q}` mapped back ({', '.join(f'{c}->{r}' for c, r in list(mapping.items())[:6])}{'...' if len(mapping) > 6 else ''})")
    if attrs != b["attrs"] and len(attrs) == len(b["attrs"]):
      scope = _scope_of(q)
      for c, r in zip(attrs, b["attrs"]):
        if c != r:
          class_attr_votes.setdefault((scope, c), {}).setdefault(r, 0)
          class_attr_votes[(scope, c)][r] += 1
  for (scope, c), votes in class_attr_votes.items():
    if len(votes) != 1:
      continue
    r = next(iter(votes))
    log.append(f"{name}: private attribute `{c}` of `{scope}` is the reference's `{r}`: mapped back")
    for q, fn in cur.items():
      if _scope_of(q) == scope or q.startswith(scope + "."):
        _Rename({}, {c: r}).visit(fn)
    attr_renames.setdefault(c, r)
  relink(tree)
