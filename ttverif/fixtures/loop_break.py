# positive fixture for LOOP-break: an item that is to be skipped ends the whole loop
def apply_steps(steps, now, out):
  for step in steps:
    if step.begin is not None and step.begin > now:
      break
    out.append(step.value)


def apply_steps_ok(steps, now, out):
  for step in steps:
    if step.begin is not None and step.begin > now:
      continue
    out.append(step.value)


def read_ok(lines, out):
  for line in lines:
    if line is None:
      break
    out.append(line)


def indent_ok(text):
  for i, c in enumerate(text):
    if c != " ":
      break
  return i


def any_px_ok(elements):
  has_px = False
  for e in elements:
    for v in e.values():
      if v.px:
        has_px = True
        break
    if has_px:
      break
  return has_px
