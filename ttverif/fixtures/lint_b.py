# positive fixture for LINT-b: quantifiers whose element is always truthy, and a validator that accepts on one admissible item
def conforms(items):
  return all((isinstance(x, str), x) for x in items)


def validate(value):
  return any(isinstance(x, str) for x in value)


def genuine(items):
  return all(isinstance(x, str) for x in items)
