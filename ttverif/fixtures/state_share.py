# positive fixture for STATE-share: a container field adopted from another object without a copy
class Style:
  def __init__(self):
    self.styles = {}

  def put(self, k, v):
    self.styles[k] = v


def merge(style, table, ref):
  referenced = table[ref].styles
  if len(style.styles) == 0:
    style.styles = referenced
    return
  for k, v in referenced.items():
    style.styles.setdefault(k, v)


def merge_ok(style, table, ref):
  if len(style.styles) == 0:
    style.styles = dict(table[ref].styles)


def set_lines_ok(self, lines):
  self.styles = lines
