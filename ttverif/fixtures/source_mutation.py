# positive fixture for PUR: snapshot-like code that mutates the caller's document
import ttconv.model as model


def snapshot(doc: model.ContentDocument, offset):
  body = doc.get_body()
  for div in list(body):
    div.set_style(None, None)
  body.set_begin(offset)
  return body
