# positive fixture for LINT-l: a fingerprint that lists one component twice
def fingerprint(region):
  return (region.get_begin() or 0, region.get_begin(), region.get_id())


def fingerprint_ok(region):
  return (region.get_begin() or 0, region.get_end(), region.get_id())


def pair_ok(x) -> "typing.Tuple[types.Kind, types.Kind]":
  return (x.a, x.b)
