# positive fixture for NUL-known: the sibling branch's variable, known to be None here, is dereferenced
def disassemble(word, table_a, table_b):
  a = table_a.find(word)
  if a is not None:
    return a.name()
  b = table_b.find(word)
  if b is not None:
    return a.channel() + b.name()
  return ""


def disassemble_ok(word, table_a, table_b):
  a = table_a.find(word)
  if a is None:
    a = table_b.find(word)
    if a is None or a.name() == "":
      return ""
  return a.name()
