# positive fixture for LINT-j: a tolerant handler placed around the loop instead of around the item
def apply_classes(span, classes, table, log):
  c = None
  try:
    for c in classes:
      span.append(table[c])
  except KeyError:
    log.warning("Ignoring class %s", c)


def apply_classes_ok(span, classes, table, log):
  for c in classes:
    try:
      span.append(table[c])
    except KeyError:
      log.warning("Ignoring class %s", c)
