# positive fixture for LINT-a: a lazily evaluated iterator that is built and discarded
def clear_all(items):
  map(lambda e: e.clear(), items)
