# positive fixture for ITEM-source: every copied text gets the style of the line's current text
def copy_lines(lines, Line, Text):
  out = {}
  for row, line in lines.items():
    new_line = Line(row)
    line_props = line.current().props()
    for text in line.texts():
      new_text = Text(text.value())
      for k, v in line_props.items():
        new_text.add(k, v)
      new_line.add_text(new_text)
    out[row] = new_line
  return out


def copy_lines_ok(lines, Line, Text, default):
  out = {}
  for row, line in lines.items():
    new_line = Line(row)
    for text in line.texts():
      new_text = Text(text.value())
      new_text.add("x", default)
      for k, v in text.props().items():
        new_text.add(k, v)
      new_line.add_text(new_text)
    out[row] = new_line
  return out
