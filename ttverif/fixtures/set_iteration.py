# positive fixture for DET-set: iteration over a set reaches output
def emit(names):
  seen = set(names)
  out = []
  for n in seen:
    out.append(n)
  return out
