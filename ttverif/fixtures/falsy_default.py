# positive fixture for LINT-i: a numeric value defaulted with `or`
def alpha(m):
  return int(m.group(4) or "0", 16) or 255
