# positive fixture for OWN-isd: a timing mutator called on an ISD-owned element
def make(isd, element):
  isd_element = element.__class__(isd)
  isd_element.set_begin(element.get_begin())
  return isd_element
