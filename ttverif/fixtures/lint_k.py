# positive fixture for LINT-k: a numeric field tested by truthiness
class Cue:
  def __init__(self):
    self._line: int = None
    self._text: str = ""

  def settings(self):
    out = ""
    if self._line:
      out += f" line:{self._line}%"
    if self._text:
      out += self._text
    return out
