"""E11 self-test: checker validation in both directions.

Each variant is one textual edit of one file of /repo's source, applied to a scratch copy of
src/main/python (outside /repo and /verif, removed afterwards).  Breaking variants must make
the named property's check exit 1 with a VIOLATION of the named rule; benign variants must
leave it at exit 0.  A variant whose `old` text is not found (the tree was edited by someone
else) is reported as skipped, never as a failure of the property.
"""
from __future__ import annotations

import io
import json
import multiprocessing
import os
import shutil
import sys
import tempfile
import time
import contextlib

from .core import DEFAULT_ROOT

SUMMARY_FILE = os.path.join(os.path.dirname(os.path.dirname(os.path.abspath(__file__))), "out", "selftest_summary.json")


def _load_variants():
  from .variants import VARIANTS
  return VARIANTS


def _run_variant(v):
  from .__main__ import run_check
  t0 = time.time()
  base = tempfile.mkdtemp(prefix=f"ttverif-{os.getpid()}-")
  try:
    root = os.path.join(base, "python")
    shutil.copytree(DEFAULT_ROOT, root, ignore=shutil.ignore_patterns("__pycache__"))
    path = os.path.join(root, v["file"])
    with open(path, encoding="utf-8") as f:
      src = f.read()
    edits = v["edits"] if "edits" in v else [(v["old"], v["new"])]
    for old, new in edits:
      if v.get("all") and src.count(old) >= 1:
        src = src.replace(old, new)
        continue
      if src.count(old) != 1:
        return dict(id=v["id"], prop=v["prop"], kind=v["kind"], status="skipped", why=f"`old` text occurs {src.count(old)} times", wall=0)
      src = src.replace(old, new)
    try:
      compile(src, path, "exec")
    except SyntaxError as e:
      return dict(id=v["id"], prop=v["prop"], kind=v["kind"], status="bad-variant", why=f"does not compile: {e}", wall=0)
    with open(path, "w", encoding="utf-8") as f:
      f.write(src)
    buf = io.StringIO()
    with contextlib.redirect_stdout(buf):
      rc = run_check(v["prop"], "quick", root)
    out = buf.getvalue()
    if v["kind"] == "break":
      want_rule = v.get("rule")
      fired = [l for l in out.splitlines() if l.strip().startswith("violated:")]
      ok = rc == 1 and (want_rule is None or any(f"rule={want_rule}" in l for l in fired))
      why = "" if ok else f"rc={rc}; violations: {fired[:3]}; tail: {out.splitlines()[-2:]}"
    else:
      ok = rc == 0
      why = "" if ok else f"rc={rc}; " + "; ".join(l.strip() for l in out.splitlines() if "violated:" in l or "ANALYSIS-ERROR" in l)[:400]
    return dict(id=v["id"], prop=v["prop"], kind=v["kind"], status="ok" if ok else "FAILED", why=why, wall=round(time.time() - t0, 2))
  finally:
    shutil.rmtree(base, ignore_errors=True)


def main(props, jobs=16, list_only=False, only=None) -> int:
  variants = _load_variants()
  if props:
    variants = [v for v in variants if v["prop"] in {p.upper() for p in props}]
  if only:
    variants = [v for v in variants if only in v["id"]]
  if list_only:
    for v in variants:
      print(f"{v['prop']} {v['kind']:6} {v['id']}: {v.get('what', '')}")
    return 0
  t0 = time.time()
  with multiprocessing.Pool(min(jobs, max(1, len(variants)))) as pool:
    results = pool.map(_run_variant, variants, chunksize=1)
  bad = [r for r in results if r["status"] in ("FAILED", "bad-variant")]
  by_prop = {}
  for r in results:
    d = by_prop.setdefault(r["prop"], {"break_ok": 0, "benign_ok": 0, "failed": 0, "skipped": 0})
    if r["status"] == "ok":
      d["break_ok" if r["kind"] == "break" else "benign_ok"] += 1
    elif r["status"] == "skipped":
      d["skipped"] += 1
    else:
      d["failed"] += 1
  for r in results:
    if r["status"] != "ok":
      print(f"{r['status']:11} {r['prop']} {r['kind']:6} {r['id']}: {r['why']}")
  print(f"selftest: {len(results)} variants in {time.time() - t0:.1f}s; " + "; ".join(f"{p}: {d}" for p, d in sorted(by_prop.items())))
  os.makedirs(os.path.dirname(SUMMARY_FILE), exist_ok=True)
  with open(SUMMARY_FILE, "w", encoding="utf-8") as f:
    json.dump({"by_prop": by_prop, "results": results}, f, indent=1)
  return 1 if bad else 0


SEEDED_DIR = os.path.join(os.path.dirname(os.path.dirname(os.path.abspath(__file__))), "seeded")


def _run_seed(args):
  """Apply one stored seeded change (an independently produced breaking change, validated when it
  was stored) to a scratch copy of the tree and run the property's check on it."""
  import subprocess
  from .__main__ import run_check
  sid, prop = args
  d = os.path.join(SEEDED_DIR, sid)
  base = tempfile.mkdtemp(prefix=f"ttverif-seed-{os.getpid()}-")
  try:
    root = os.path.join(base, "src", "main", "python")
    shutil.copytree(DEFAULT_ROOT, root, ignore=shutil.ignore_patterns("__pycache__"))
    r = subprocess.run(["git", "apply", "--include=src/main/python/*", os.path.join(d, "patch.diff")], cwd=base, capture_output=True, text=True)
    if r.returncode != 0:
      return dict(id=sid, status="skipped", why="patch no longer applies to the current tree")
    buf = io.StringIO()
    with contextlib.redirect_stdout(buf):
      rc = run_check(prop, "quick", root, quiet=True)
    fired = sorted({l.split("rule=")[1].split(" ")[0] for l in buf.getvalue().splitlines() if l.strip().startswith("violated:")})
    return dict(id=sid, status={0: "missed", 1: "caught"}.get(rc, "analysis-error"), why=",".join(fired))
  finally:
    shutil.rmtree(base, ignore_errors=True)


def seeds_for(prop: str):
  out = []
  if os.path.isdir(SEEDED_DIR):
    for sid in sorted(os.listdir(SEEDED_DIR)):
      mp = os.path.join(SEEDED_DIR, sid, "meta.json")
      if os.path.exists(mp):
        try:
          with open(mp, encoding="utf-8") as f:
            meta = json.load(f)
        except ValueError:
          continue
        if meta.get("property", sid.split("-")[0]) == prop:
          out.append((sid, prop))
  return out


def summary_for(prop: str):
  """Thorough tier: run this property's variants and print the summary (informational)."""
  try:
    variants = [v for v in _load_variants() if v["prop"] == prop]
    if not variants:
      print(f"  selftest: no variants registered for {prop}")
      return
    with multiprocessing.Pool(min(16, len(variants))) as pool:
      results = pool.map(_run_variant, variants, chunksize=1)
    okb = sum(1 for r in results if r["status"] == "ok" and r["kind"] == "break")
    okn = sum(1 for r in results if r["status"] == "ok" and r["kind"] == "benign")
    other = [r for r in results if r["status"] != "ok"]
    print(f"  selftest {prop}: {okb} breaking variants detected, {okn} benign variants silent, {len(other)} skipped/failed")
    for r in other:
      print(f"    {r['status']} {r['id']}: {r['why']}")
    seeds = seeds_for(prop)
    if seeds:
      with multiprocessing.Pool(min(16, len(seeds))) as pool:
        sres = pool.map(_run_seed, seeds, chunksize=1)
      print(f"  seeded changes {prop}: " + ", ".join(f"{r['id']}={r['status']}" + (f"[{r['why']}]" if r['status'] == 'caught' else "") for r in sres))
  except Exception as e:  # the self-test never decides a property's exit code
    print(f"  selftest {prop}: could not run ({e})")
