"""E6 constant evaluator over the AST (no execution of repository code)."""
from __future__ import annotations

import ast
import operator
import typing
from fractions import Fraction

from .core import ClassInfo, FuncInfo, Index, Module, dotted


class NotConst(Exception):
  pass


class EnumMember:
  """Symbolic reference to an Enum member (class qualname, member name, constant value)."""
  __slots__ = ("cls", "name", "value")

  def __init__(self, cls: str, name: str, value):
    self.cls = cls
    self.name = name
    self.value = value

  def __eq__(self, other):
    return isinstance(other, EnumMember) and self.cls == other.cls and self.name == other.name

  def __hash__(self):
    return hash((self.cls, self.name))

  def __repr__(self):
    return f"{self.cls.split(':')[-1]}.{self.name}"


class Sym:
  """Opaque symbolic constant (class reference, constructor call...) compared by text."""
  __slots__ = ("text",)

  def __init__(self, text):
    self.text = text

  def __eq__(self, other):
    return isinstance(other, Sym) and self.text == other.text

  def __hash__(self):
    return hash(self.text)

  def __repr__(self):
    return self.text


_BIN = {
  ast.Add: operator.add, ast.Sub: operator.sub, ast.Mult: operator.mul, ast.Div: operator.truediv,
  ast.FloorDiv: operator.floordiv, ast.Mod: operator.mod, ast.Pow: operator.pow,
  ast.BitAnd: operator.and_, ast.BitOr: operator.or_, ast.BitXor: operator.xor,
  ast.LShift: operator.lshift, ast.RShift: operator.rshift,
}
_UN = {ast.USub: operator.neg, ast.UAdd: operator.pos, ast.Invert: operator.invert, ast.Not: operator.not_}


class ConstEval:
  def __init__(self, ix: Index, symbolic_ok: bool = True):
    self.ix = ix
    self.symbolic_ok = symbolic_ok
    self._depth = 0

  def ev(self, module: Module, expr, cls: typing.Optional[ClassInfo] = None, env: typing.Optional[dict] = None):
    self._depth += 1
    try:
      if self._depth > 60:
        raise NotConst("depth")
      return self._ev(module, expr, cls, env or {})
    finally:
      self._depth -= 1

  def try_ev(self, module, expr, cls=None, env=None, default=None):
    try:
      return self.ev(module, expr, cls, env)
    except NotConst:
      return default

  def _ev(self, m, e, cls, env):
    if isinstance(e, ast.Constant):
      return e.value
    if isinstance(e, ast.Tuple):
      return tuple(self._ev(m, x, cls, env) for x in e.elts)
    if isinstance(e, ast.List):
      return [self._ev(m, x, cls, env) for x in e.elts]
    if isinstance(e, ast.Set):
      return frozenset(self._ev(m, x, cls, env) for x in e.elts)
    if isinstance(e, ast.Dict):
      out = {}
      for k, v in zip(e.keys, e.values):
        if k is None:
          out.update(self._ev(m, v, cls, env))
        else:
          out[self._ev(m, k, cls, env)] = self._ev(m, v, cls, env)
      return out
    if isinstance(e, ast.UnaryOp) and type(e.op) in _UN:
      return _UN[type(e.op)](self._ev(m, e.operand, cls, env))
    if isinstance(e, ast.BinOp) and type(e.op) in _BIN:
      a, b = self._ev(m, e.left, cls, env), self._ev(m, e.right, cls, env)
      if isinstance(a, (Sym, EnumMember)) or isinstance(b, (Sym, EnumMember)):
        raise NotConst("symbolic arithmetic")
      try:
        return _BIN[type(e.op)](a, b)
      except Exception as ex:
        raise NotConst(str(ex))
    if isinstance(e, ast.JoinedStr):
      parts = []
      for v in e.values:
        if isinstance(v, ast.Constant):
          parts.append(str(v.value))
        elif isinstance(v, ast.FormattedValue) and v.format_spec is None and v.conversion == -1:
          parts.append(str(self._ev(m, v.value, cls, env)))
        else:
          raise NotConst("fstring")
      return "".join(parts)
    if isinstance(e, ast.Name):
      if e.id in env:
        return env[e.id]
      if e.id in ("True", "False", "None"):
        return {"True": True, "False": False, "None": None}[e.id]
      return self._resolved(m, e, cls, env)
    if isinstance(e, ast.Attribute):
      # Enum member .value
      if e.attr == "value":
        base = self.try_ev(m, e.value, cls, env, default=NotConst)
        if isinstance(base, EnumMember):
          return base.value
      return self._resolved(m, e, cls, env)
    if isinstance(e, ast.Call):
      fn = dotted(e.func)
      args = e.args
      if fn in ("tuple", "list", "frozenset", "set", "dict", "sorted") and len(args) <= 1 and not e.keywords:
        if not args:
          return {"tuple": (), "list": [], "frozenset": frozenset(), "set": frozenset(), "dict": {}, "sorted": []}[fn]
        v = self._ev(m, args[0], cls, env)
        if fn == "dict":
          return dict(v)
        if fn in ("frozenset", "set"):
          return frozenset(v)
        if fn == "tuple":
          return tuple(v)
        if fn == "sorted":
          return sorted(v)
        return list(v)
      if fn == "range":
        vals = [self._ev(m, a, cls, env) for a in args]
        if all(isinstance(v, int) for v in vals):
          return range(*vals)
      if fn == "ord" and len(args) == 1:
        v = self._ev(m, args[0], cls, env)
        if isinstance(v, str) and len(v) == 1:
          return ord(v)
      if fn == "chr" and len(args) == 1:
        v = self._ev(m, args[0], cls, env)
        if isinstance(v, int):
          return chr(v)
      if fn in ("Fraction", "fractions.Fraction"):
        vals = [self._ev(m, a, cls, env) for a in args]
        try:
          return Fraction(*vals)
        except Exception as ex:
          raise NotConst(str(ex))
      if fn in ("int", "float", "str", "len", "bytes", "bool", "abs", "min", "max") and not e.keywords:
        vals = [self._ev(m, a, cls, env) for a in args]
        if any(isinstance(v, (Sym, EnumMember)) for v in vals):
          raise NotConst("symbolic builtin")
        try:
          return {"int": int, "float": float, "str": str, "len": len, "bytes": bytes, "bool": bool,
                  "abs": abs, "min": min, "max": max}[fn](*vals)
        except Exception as ex:
          raise NotConst(str(ex))
      if isinstance(e.func, ast.Attribute) and e.func.attr in ("join", "lower", "upper", "strip", "get") and not e.keywords:
        try:
          recv = self._ev(m, e.func.value, cls, env)
          vals = [self._ev(m, a, cls, env) for a in args]
        except NotConst:
          recv = vals = None
        if isinstance(recv, str) and vals is not None and not any(isinstance(v, (Sym, EnumMember)) for v in vals):
          if e.func.attr == "join" and len(vals) == 1 and all(isinstance(x, str) for x in vals[0]):
            return recv.join(vals[0])
          if e.func.attr in ("lower", "upper", "strip") and not vals:
            return getattr(recv, e.func.attr)()
        if isinstance(recv, dict) and e.func.attr == "get" and vals is not None and 1 <= len(vals) <= 2:
          try:
            return recv.get(*vals)
          except TypeError as ex:
            raise NotConst(str(ex))
      if self.symbolic_ok:
        return Sym(ast.unparse(e))
      raise NotConst("call")
    if isinstance(e, ast.Subscript):
      base = self._ev(m, e.value, cls, env)
      idx = self._ev(m, e.slice, cls, env)
      try:
        return base[idx]
      except Exception as ex:
        raise NotConst(str(ex))
    if isinstance(e, ast.Slice):
      return slice(*(None if x is None else self._ev(m, x, cls, env) for x in (e.lower, e.upper, e.step)))
    if isinstance(e, ast.IfExp):
      t = self._ev(m, e.test, cls, env)
      return self._ev(m, e.body if t else e.orelse, cls, env)
    if isinstance(e, ast.Compare) and len(e.ops) >= 1:
      left = self._ev(m, e.left, cls, env)
      res = True
      for op, rhs in zip(e.ops, e.comparators):
        right = self._ev(m, rhs, cls, env)
        res = res and self._cmp(op, left, right)
        left = right
      return res
    if isinstance(e, ast.BoolOp):
      vals = None
      for v in e.values:
        vals = self._ev(m, v, cls, env)
        if isinstance(e.op, ast.And) and not vals:
          return vals
        if isinstance(e.op, ast.Or) and vals:
          return vals
      return vals
    raise NotConst(type(e).__name__)

  @staticmethod
  def _cmp(op, a, b):
    try:
      if isinstance(op, ast.Eq):
        return a == b
      if isinstance(op, ast.NotEq):
        return a != b
      if isinstance(op, ast.Lt):
        return a < b
      if isinstance(op, ast.LtE):
        return a <= b
      if isinstance(op, ast.Gt):
        return a > b
      if isinstance(op, ast.GtE):
        return a >= b
      if isinstance(op, ast.In):
        return a in b
      if isinstance(op, ast.NotIn):
        return a not in b
      if isinstance(op, ast.Is):
        return a is b or (isinstance(a, (EnumMember, Sym)) and a == b) or (a is None and b is None)
      if isinstance(op, ast.IsNot):
        return not (a is b or (isinstance(a, (EnumMember, Sym)) and a == b))
    except Exception as ex:
      raise NotConst(str(ex))
    raise NotConst("cmp")

  def _resolved(self, m, e, cls, env):
    r = self.ix.resolve(m, e, cls=cls)
    if r is None and isinstance(e, ast.Name) and cls is not None:
      # class-body scope: a bare name refers to an earlier class-level assignment
      c = cls
      if e.id in c.assigns:
        return self._ev(c.module, c.assigns[e.id], c, env)
    if r is None:
      raise NotConst(f"unresolved {dotted(e)}")
    if isinstance(r, tuple) and r[0] == "assign":
      owner = r[3] if len(r) > 3 else None
      if owner is not None and self.ix.is_enum(owner) and not (dotted(e) or "").split(".")[-1].startswith("_"):
        name = (dotted(e) or "").split(".")[-1]
        val = self.try_ev(r[1], r[2], owner, {}, default=Sym(ast.unparse(r[2])))
        return EnumMember(owner.qualname, name, val)
      return self._ev(r[1], r[2], owner if owner is not None else None, env)
    if isinstance(r, ClassInfo):
      return Sym("class:" + r.qualname)
    if isinstance(r, FuncInfo):
      return Sym("func:" + r.qualname)
    raise NotConst("module ref")
