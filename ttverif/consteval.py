"""E6 constant evaluator over the AST (no execution of repository code)."""
from __future__ import annotations

import ast
import operator
import typing
from fractions import Fraction

from .core import ClassInfo, FuncInfo, Index, Module, dotted


class NotConst(Exception):
  pass


class EnumMember:
  """Symbolic reference to an Enum member (class qualname, member name, constant value)."""
  __slots__ = ("cls", "name", "value")

  def __init__(self, cls: str, name: str, value):
    self.cls = cls
    self.name = name
    self.value = value

  def __eq__(self, other):
    return isinstance(other, EnumMember) and self.cls == other.cls and self.name == other.name

  def __hash__(self):
    return hash((self.cls, self.name))

  def __repr__(self):
    return f"{self.cls.split(':')[-1]}.{self.name}"


class Sym:
  """Opaque symbolic constant (class reference, constructor call...) compared by text."""
  __slots__ = ("text",)

  def __init__(self, text):
    self.text = text

  def __eq__(self, other):
    return isinstance(other, Sym) and self.text == other.text

  def __hash__(self):
    return hash(self.text)

  def __repr__(self):
    return self.text


_BIN = {
  ast.Add: operator.add, ast.Sub: operator.sub, ast.Mult: operator.mul, ast.Div: operator.truediv,
  ast.FloorDiv: operator.floordiv, ast.Mod: operator.mod, ast.Pow: operator.pow,
  ast.BitAnd: operator.and_, ast.BitOr: operator.or_, ast.BitXor: operator.xor,
  ast.LShift: operator.lshift, ast.RShift: operator.rshift,
}
_UN = {ast.USub: operator.neg, ast.UAdd: operator.pos, ast.Invert: operator.invert, ast.Not: operator.not_}


class ConstEval:
  def __init__(self, ix: Index, symbolic_ok: bool = True):
    self.ix = ix
    self.symbolic_ok = symbolic_ok
    self._depth = 0

  def ev(self, module: Module, expr, cls: typing.Optional[ClassInfo] = None, env: typing.Optional[dict] = None):
    self._depth += 1
    try:
      if self._depth > 60:
        raise NotConst("depth")
      return self._ev(module, expr, cls, env or {})
    finally:
      self._depth -= 1

  def try_ev(self, module, expr, cls=None, env=None, default=None):
    try:
      return self.ev(module, expr, cls, env)
    except NotConst:
      return default

  def _ev(self, m, e, cls, env):
    if isinstance(e, ast.Constant):
      return e.value
    if isinstance(e, ast.Tuple):
      return tuple(self._ev(m, x, cls, env) for x in e.elts)
    if isinstance(e, ast.List):
      return [self._ev(m, x, cls, env) for x in e.elts]
    if isinstance(e, ast.Set):
      return frozenset(self._ev(m, x, cls, env) for x in e.elts)
    if isinstance(e, ast.Dict):
      out = {}
      for k, v in zip(e.keys, e.values):
        if k is None:
          out.update(self._ev(m, v, cls, env))
        else:
          out[self._ev(m, k, cls, env)] = self._ev(m, v, cls, env)
      return out
    if isinstance(e, ast.UnaryOp) and type(e.op) in _UN:
      return _UN[type(e.op)](self._ev(m, e.operand, cls, env))
    if isinstance(e, ast.BinOp) and type(e.op) in _BIN:
      a, b = self._ev(m, e.left, cls, env), self._ev(m, e.right, cls, env)
      if isinstance(a, (Sym, EnumMember)) or isinstance(b, (Sym, EnumMember)):
        raise NotConst("symbolic arithmetic")
      try:
        return _BIN[type(e.op)](a, b)
      except Exception as ex:
        raise NotConst(str(ex))
    if isinstance(e, (ast.GeneratorExp, ast.ListComp, ast.SetComp)) and len(e.generators) == 1 and not e.generators[0].is_async:
      # a comprehension over a finite, evaluable iterable (a literal tuple, a table, a range): evaluated item by item
      g = e.generators[0]
      seq = self._ev(m, g.iter, cls, env)
      if isinstance(seq, (Sym, EnumMember)) or not isinstance(seq, (list, tuple, range, frozenset, set, dict, str, bytes)):
        raise NotConst("comprehension over a non-constant iterable")
      out = []
      for item in list(seq)[:4096]:
        env2 = dict(env or {})
        if isinstance(g.target, ast.Name):
          env2[g.target.id] = item
        elif isinstance(g.target, (ast.Tuple, ast.List)) and isinstance(item, (tuple, list)) and len(item) == len(g.target.elts) and all(isinstance(t, ast.Name) for t in g.target.elts):
          for t, x in zip(g.target.elts, item):
            env2[t.id] = x
        else:
          raise NotConst("comprehension target")
        if all(self._ev(m, t, cls, env2) for t in g.ifs):
          out.append(self._ev(m, e.elt, cls, env2))
      return frozenset(out) if isinstance(e, ast.SetComp) else out
    if isinstance(e, ast.JoinedStr):
      parts = []
      for v in e.values:
        if isinstance(v, ast.Constant):
          parts.append(str(v.value))
        elif isinstance(v, ast.FormattedValue) and v.format_spec is None and v.conversion in (-1, 115):
          parts.append(str(self._ev(m, v.value, cls, env)))
        elif isinstance(v, ast.FormattedValue) and v.conversion == -1 and isinstance(v.format_spec, ast.JoinedStr) \
            and all(isinstance(x, ast.Constant) for x in v.format_spec.values):
          val = self._ev(m, v.value, cls, env)
          if isinstance(val, (Sym, EnumMember)):
            raise NotConst("fstring of a symbolic value")
          try:
            parts.append(format(val, "".join(str(x.value) for x in v.format_spec.values)))
          except Exception as ex:
            raise NotConst(f"fstring: {ex}")
        else:
          raise NotConst("fstring")
      return "".join(parts)
    if isinstance(e, ast.Name):
      if e.id in env:
        return env[e.id]
      if e.id in ("True", "False", "None"):
        return {"True": True, "False": False, "None": None}[e.id]
      return self._resolved(m, e, cls, env)
    if isinstance(e, ast.Attribute):
      # Enum member .value
      if e.attr == "value":
        base = self.try_ev(m, e.value, cls, env, default=NotConst)
        if isinstance(base, EnumMember):
          return base.value
      if e.attr in ("numerator", "denominator"):
        base = self.try_ev(m, e.value, cls, env, default=NotConst)
        if isinstance(base, (int, Fraction)) and not isinstance(base, bool):
          return getattr(base, e.attr)
      return self._resolved(m, e, cls, env)
    if isinstance(e, ast.Call):
      fn = dotted(e.func)
      args = e.args
      if fn in ("tuple", "list", "frozenset", "set", "dict", "sorted") and len(args) <= 1 and not e.keywords:
        if not args:
          return {"tuple": (), "list": [], "frozenset": frozenset(), "set": frozenset(), "dict": {}, "sorted": []}[fn]
        v = self._ev(m, args[0], cls, env)
        if fn == "dict":
          return dict(v)
        if fn in ("frozenset", "set"):
          return frozenset(v)
        if fn == "tuple":
          return tuple(v)
        if fn == "sorted":
          return sorted(v)
        return list(v)
      if fn == "range":
        vals = [self._ev(m, a, cls, env) for a in args]
        if all(isinstance(v, int) for v in vals):
          return range(*vals)
      if fn in ("enumerate", "zip", "reversed") and args:
        vals = [self._ev(m, a, cls, env) for a in args]
        start = 0
        for kw in e.keywords:
          if kw.arg == "start":
            start = self._ev(m, kw.value, cls, env)
        if fn == "enumerate" and isinstance(vals[0], (list, tuple, str, range)) and len(vals) <= 2 and isinstance(vals[1] if len(vals) > 1 else start, int):
          return list(enumerate(vals[0], vals[1] if len(vals) > 1 else start))
        if fn == "zip" and all(isinstance(v, (list, tuple, str, range)) for v in vals):
          return list(zip(*vals))
        if fn == "reversed" and len(vals) == 1 and isinstance(vals[0], (list, tuple, str, range)):
          return list(reversed(vals[0]))
      if fn == "ord" and len(args) == 1:
        v = self._ev(m, args[0], cls, env)
        if isinstance(v, str) and len(v) == 1:
          return ord(v)
      if fn == "chr" and len(args) == 1:
        v = self._ev(m, args[0], cls, env)
        if isinstance(v, int):
          return chr(v)
      if fn in ("Fraction", "fractions.Fraction"):
        vals = [self._ev(m, a, cls, env) for a in args]
        if any(isinstance(v, (Sym, EnumMember)) for v in vals):
          raise NotConst("symbolic Fraction")
        try:
          return Fraction(*vals)
        except (ValueError, ZeroDivisionError):
          raise Raised()          # the evaluated code itself raises on this input
        except Exception as ex:
          raise NotConst(str(ex))
      if fn == "isinstance" and len(args) == 2 and not e.keywords:
        types = {"bool": bool, "int": int, "str": str, "float": float, "bytes": bytes, "list": list, "tuple": tuple, "dict": dict}
        spec = args[1].elts if isinstance(args[1], ast.Tuple) else [args[1]]
        if all((isinstance(t, ast.Name) and t.id in types) or ast.unparse(t) in ("numbers.Number", "numbers.Real", "numbers.Rational", "Fraction") for t in spec):
          v = self._ev(m, args[0], cls, env)
          if isinstance(v, EnumMember):
            return False          # a member of one of the package's (plain) Enum classes is not an instance of a builtin / numeric type
          if isinstance(v, Sym):
            raise NotConst("symbolic isinstance")
          if not all(isinstance(t, ast.Name) and t.id in types for t in spec):
            import numbers as _numbers
            extra = {"numbers.Number": _numbers.Number, "numbers.Real": _numbers.Real, "numbers.Rational": _numbers.Rational, "Fraction": Fraction}
            return isinstance(v, tuple(types[t.id] if isinstance(t, ast.Name) and t.id in types else extra[ast.unparse(t)] for t in spec))
          return isinstance(v, tuple(types[t.id] for t in spec))
        # classes of the package: decided for enum members (their class is known) and for plain constants (never an instance)
        rs = [self.ix.resolve(m, t, cls=cls) for t in spec]
        if all(isinstance(r_, ClassInfo) for r_ in rs):
          v = self._ev(m, args[0], cls, env)
          if isinstance(v, EnumMember):
            return any(r_.qualname == v.cls for r_ in rs)
          if v is None or isinstance(v, (bool, int, float, str, Fraction, tuple, list, dict)):
            return False
      if fn in ("floor", "ceil", "math.floor", "math.ceil") and len(args) == 1 and not e.keywords:
        import math
        v = self._ev(m, args[0], cls, env)
        if isinstance(v, (Sym, EnumMember)) or not isinstance(v, (int, float, Fraction)):
          raise NotConst("symbolic floor/ceil")
        return (math.floor if fn.endswith("floor") else math.ceil)(v)
      if fn in ("int", "float", "str", "len", "bytes", "bool", "abs", "min", "max", "round") and not e.keywords:
        vals = [self._ev(m, a, cls, env) for a in args]
        if any(isinstance(v, (Sym, EnumMember)) for v in vals):
          raise NotConst("symbolic builtin")
        try:
          return {"int": int, "float": float, "str": str, "len": len, "bytes": bytes, "bool": bool,
                  "abs": abs, "min": min, "max": max, "round": round}[fn](*vals)
        except ValueError:
          if fn in ("int", "float"):
            raise Raised()        # int("x") / float("x"): the evaluated code raises ValueError on this input
          raise NotConst("ValueError")
        except Exception as ex:
          raise NotConst(str(ex))
      if isinstance(e.func, ast.Attribute) and e.func.attr in ("join", "lower", "upper", "strip", "rstrip", "lstrip", "get", "split", "startswith", "endswith", "isdigit", "replace", "zfill", "index", "count", "__floor__", "__ceil__", "__trunc__", "__int__", "__round__") and not e.keywords:
        try:
          recv = self._ev(m, e.func.value, cls, env)
          vals = [self._ev(m, a, cls, env) for a in args]
        except NotConst:
          recv = vals = None
        if isinstance(recv, str) and vals is not None and not any(isinstance(v, (Sym, EnumMember)) for v in vals):
          if e.func.attr == "join" and len(vals) == 1 and all(isinstance(x, str) for x in vals[0]):
            return recv.join(vals[0])
          if e.func.attr in ("lower", "upper", "strip", "isdigit") and not vals:
            return getattr(recv, e.func.attr)()
          if e.func.attr in ("strip", "rstrip", "lstrip", "replace", "zfill") and len(vals) <= 2 and all(isinstance(x, (str, int)) for x in vals):
            return getattr(recv, e.func.attr)(*vals)
          if e.func.attr in ("split", "startswith", "endswith") and len(vals) <= 2 and all(isinstance(x, (str, int, tuple)) for x in vals):
            r_ = getattr(recv, e.func.attr)(*vals)
            return r_
        if isinstance(recv, (int, Fraction)) and not isinstance(recv, bool) and e.func.attr in ("__floor__", "__ceil__", "__trunc__", "__int__", "__round__") and vals is not None and len(vals) <= 1:
          return getattr(recv, e.func.attr)(*vals)
        if isinstance(recv, (list, tuple)) and e.func.attr in ("index", "count") and vals is not None and len(vals) == 1:
          try:
            return getattr(recv, e.func.attr)(vals[0])
          except ValueError:
            raise Raised()        # tuple.index of a missing value: the evaluated code raises
        if isinstance(recv, dict) and e.func.attr == "get" and vals is not None and 1 <= len(vals) <= 2:
          try:
            return recv.get(*vals)
          except TypeError as ex:
            raise NotConst(str(ex))
      if self.symbolic_ok:
        # the call itself is opaque, but its arguments are still evaluated: one that raises makes the call raise
        for a in e.args:
          try:
            self._ev(m, a, cls, env)
          except NotConst:
            pass
        return Sym(ast.unparse(e))
      raise NotConst("call")
    if isinstance(e, ast.Subscript):
      base = self._ev(m, e.value, cls, env)
      idx = self._ev(m, e.slice, cls, env)
      try:
        return base[idx]
      except (IndexError, KeyError) as ex:
        if isinstance(base, (list, tuple, str, bytes, dict)) and isinstance(idx, (int, str, bytes, tuple, EnumMember)):
          raise Raised()      # a constant container subscripted outside its range / keys: the evaluated code raises
        raise NotConst(str(ex))
      except Exception as ex:
        raise NotConst(str(ex))
    if isinstance(e, ast.Slice):
      return slice(*(None if x is None else self._ev(m, x, cls, env) for x in (e.lower, e.upper, e.step)))
    if isinstance(e, ast.IfExp):
      t = self._ev(m, e.test, cls, env)
      return self._ev(m, e.body if t else e.orelse, cls, env)
    if isinstance(e, ast.Compare) and len(e.ops) >= 1:
      left = self._ev(m, e.left, cls, env)
      res = True
      for op, rhs in zip(e.ops, e.comparators):
        right = self._ev(m, rhs, cls, env)
        res = res and self._cmp(op, left, right)
        left = right
      return res
    if isinstance(e, ast.BoolOp):
      vals = None
      for v in e.values:
        vals = self._ev(m, v, cls, env)
        if isinstance(e.op, ast.And) and not vals:
          return vals
        if isinstance(e.op, ast.Or) and vals:
          return vals
      return vals
    raise NotConst(type(e).__name__)

  @staticmethod
  def _cmp(op, a, b):
    try:
      if isinstance(op, ast.Eq):
        return a == b
      if isinstance(op, ast.NotEq):
        return a != b
      if isinstance(op, ast.Lt):
        return a < b
      if isinstance(op, ast.LtE):
        return a <= b
      if isinstance(op, ast.Gt):
        return a > b
      if isinstance(op, ast.GtE):
        return a >= b
      if isinstance(op, ast.In):
        return a in b
      if isinstance(op, ast.NotIn):
        return a not in b
      if isinstance(op, ast.Is):
        return a is b or (isinstance(a, (EnumMember, Sym)) and a == b) or (a is None and b is None)
      if isinstance(op, ast.IsNot):
        return not (a is b or (isinstance(a, (EnumMember, Sym)) and a == b))
    except Exception as ex:
      raise NotConst(str(ex))
    raise NotConst("cmp")

  def _resolved(self, m, e, cls, env):
    r = self.ix.resolve(m, e, cls=cls)
    if r is None and isinstance(e, ast.Name) and cls is not None:
      # class-body scope: a bare name refers to an earlier class-level assignment
      c = cls
      if e.id in c.assigns:
        return self._ev(c.module, c.assigns[e.id], c, env)
    if r is None:
      raise NotConst(f"unresolved {dotted(e)}")
    if isinstance(r, tuple) and r[0] == "assign":
      owner = r[3] if len(r) > 3 else None
      if owner is not None and self.ix.is_enum(owner) and not (dotted(e) or "").split(".")[-1].startswith("_"):
        name = (dotted(e) or "").split(".")[-1]
        val = self.try_ev(r[1], r[2], owner, {}, default=Sym(ast.unparse(r[2])))
        return EnumMember(owner.qualname, name, val)
      return self._ev(r[1], r[2], owner if owner is not None else None, env)
    if isinstance(r, ClassInfo):
      return Sym("class:" + r.qualname)
    if isinstance(r, FuncInfo):
      return Sym("func:" + r.qualname)
    raise NotConst("module ref")


class Raised(Exception):
  """The evaluated function raises (modelled as a value by FuncEval.call)."""


class FuncEval:
  """E6 restricted finite-domain evaluator for *pure integer predicates / table lookups*:
  straight-line code with If / Return / Assign over the ConstEval expression subset, plus calls
  to other such repo functions (bounded depth).  Anything else raises NotConst, which callers
  turn into ANALYSIS-ERROR (never into a verdict)."""

  def __init__(self, ix: Index, max_depth: int = 4):
    self.ix = ix
    self.max_depth = max_depth

  def call(self, f: FuncInfo, env: dict, depth: int = 0, self_cls=None):
    """self_cls: dynamic class of `self` (methods called on self are looked up from it, so that
    overrides in subclasses are honoured)."""
    if depth > self.max_depth:
      raise NotConst("call depth")
    ce = _CallingConstEval(self.ix, self, f, depth, self_cls)
    try:
      return self._block(ce, f, f.node.body, dict(env))
    except _Return as r:
      return r.value

  def _block(self, ce, f, stmts, env):
    for st in stmts:
      if isinstance(st, ast.Expr):
        if isinstance(st.value, ast.Constant):
          continue
        ce.ev(f.module, st.value, f.cls, env)
      elif isinstance(st, ast.Pass):
        continue
      elif isinstance(st, ast.Assert):
        try:
          if not ce.ev(f.module, st.test, f.cls, env):
            raise Raised()
        except NotConst:
          continue          # an assertion about something outside the evaluated domain: assumed to hold
      elif isinstance(st, ast.Return):
        raise _Return(ce.ev(f.module, st.value, f.cls, env) if st.value is not None else None)
      elif isinstance(st, ast.Raise):
        raise Raised()
      elif isinstance(st, ast.Assign) and len(st.targets) == 1:
        v = ce.ev(f.module, st.value, f.cls, env)
        self._bind(st.targets[0], v, env)
      elif isinstance(st, ast.AnnAssign) and st.value is not None:
        self._bind(st.target, ce.ev(f.module, st.value, f.cls, env), env)
      elif isinstance(st, ast.AugAssign) and isinstance(st.target, (ast.Name, ast.Attribute)):
        cur = ast.copy_location(ast.BinOp(left=ast.fix_missing_locations(ast.parse(ast.unparse(st.target), mode="eval").body), op=st.op, right=st.value), st)
        self._bind(st.target, ce.ev(f.module, ast.fix_missing_locations(cur), f.cls, env), env)
      elif isinstance(st, ast.If):
        t = ce.ev(f.module, st.test, f.cls, env)
        self._block(ce, f, st.body if t else st.orelse, env)
      elif isinstance(st, ast.For) and not st.orelse:
        seq = ce.ev(f.module, st.iter, f.cls, env)
        if not isinstance(seq, (list, tuple, str, range, dict, frozenset)):
          raise NotConst(f"for loop over a non-constant at line {st.lineno}")
        seq = list(seq)
        if len(seq) > self.MAX_LOOP:
          raise NotConst(f"for loop at line {st.lineno} exceeds {self.MAX_LOOP} rounds")
        for item in seq:
          self._bind(st.target, item, env)
          try:
            self._block(ce, f, st.body, env)
          except _BreakLoop:
            break
          except _ContinueLoop:
            continue
      elif isinstance(st, ast.Break):
        raise _BreakLoop()
      elif isinstance(st, ast.Continue):
        raise _ContinueLoop()
      elif isinstance(st, ast.While) and not st.orelse and not any(isinstance(x, (ast.Break, ast.Continue)) for x in ast.walk(st)):
        # bounded: a loop that does not end within MAX_LOOP rounds leaves the evaluable subset
        rounds = 0
        while ce.ev(f.module, st.test, f.cls, env):
          rounds += 1
          if rounds > self.MAX_LOOP:
            raise NotConst(f"while loop at line {st.lineno} exceeds {self.MAX_LOOP} rounds")
          self._block(ce, f, st.body, env)
      else:
        raise NotConst(f"statement {type(st).__name__} at line {st.lineno}")
    return None

  MAX_LOOP = 64

  @staticmethod
  def _bind(target, v, env):
    if isinstance(target, ast.Name):
      env[target.id] = v
    elif isinstance(target, ast.Attribute) and isinstance(target.value, ast.Name):
      env[f"{target.value.id}.{target.attr}"] = v
    elif isinstance(target, (ast.Tuple, ast.List)) and isinstance(v, (tuple, list)) and len(v) == len(target.elts):
      for t, x in zip(target.elts, v):
        FuncEval._bind(t, x, env)
    elif isinstance(target, (ast.Tuple, ast.List)) and isinstance(v, (tuple, list)):
      raise Raised()        # unpacking a sequence of the wrong length raises ValueError
    else:
      raise NotConst("assignment target")


class _Return(Exception):
  def __init__(self, value):
    self.value = value


class _BreakLoop(Exception):
  pass


class _ContinueLoop(Exception):
  pass


class _CallingConstEval(ConstEval):
  """ConstEval whose names may come from an env that also holds 'self.attr' entries, and which
  may call other pure repo functions through FuncEval."""

  def __init__(self, ix, fe: FuncEval, f: FuncInfo, depth: int, self_cls=None):
    super().__init__(ix, symbolic_ok=True)
    self.fe, self.f, self.depth = fe, f, depth
    self.self_cls = self_cls

  def _ev(self, m, e, cls, env):
    if isinstance(e, ast.Attribute) and isinstance(e.value, ast.Name):
      k = f"{e.value.id}.{e.attr}"
      if k in env:
        return env[k]
    if isinstance(e, ast.Attribute) and isinstance(e.value, ast.Attribute):
      k = dotted(e)
      if k is not None and k in env:
        return env[k]          # a deeper field of an abstract argument: 'value.x.units'
    if isinstance(e, ast.Call):
      fn = e.func
      target = None
      if isinstance(fn, (ast.Name, ast.Attribute)) and dotted(fn) is not None:
        head = dotted(fn).split(".")[0]
        if head not in env and head not in ("self", "cls"):
          target = self.ix.resolve(m, fn, cls=cls, func=self.f if isinstance(self.f, FuncInfo) else None)
        elif head in ("self", "cls") and (cls is not None or self.self_cls is not None) and isinstance(fn, ast.Attribute) and isinstance(fn.value, ast.Name):
          target = self.ix.lookup_method(self.self_cls or cls, fn.attr)
      if isinstance(target, FuncInfo) and not e.keywords:
        args = [self._ev(m, a, cls, env) for a in e.args]
        params = list(target.params)
        call_env = {}
        if target.cls is not None and not target.is_static and params:
          # bound call on self: share the self.* entries
          for k, v in env.items():
            if k.startswith("self."):
              call_env[k] = v
          params = params[1:]
        for p, a in zip(params, args):
          call_env[p] = a
        # defaults
        d = target.node.args.defaults
        if d:
          names = [x.arg for x in target.node.args.args]
          for name, dv in zip(names[len(names) - len(d):], d):
            if name not in call_env and name not in ("self", "cls"):
              call_env[name] = ConstEval(self.ix).ev(target.module, dv, target.cls)
        bound = target.cls is not None and not target.is_static
        return self.fe.call(target, call_env, self.depth + 1, self_cls=self.self_cls if bound else None)
    return super()._ev(m, e, cls, env)
