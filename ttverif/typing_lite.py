"""Light-weight local type inference (receivers typed from annotations, constructor calls,
return annotations of resolved repo methods, and iteration over typed views).

Types are:  ("inst", ClassInfo)  an instance of a repo class
            ("iter", T)          an iterable / iterator / list / tuple of T
            ("opt", T)           Optional[T]  (only produced from annotations; stripped on use)
            ("cls", ClassInfo)   the class object itself
Anything else is None (unknown).
"""
from __future__ import annotations

import ast
import typing

from .core import ClassInfo, FuncInfo, Index, Module, dotted, own_nodes


def strip_opt(t):
  while t is not None and t[0] == "opt":
    t = t[1]
  return t


class Typer:
  def __init__(self, ix: Index):
    self.ix = ix
    self._env_cache: typing.Dict[str, dict] = {}
    self._field_cache: typing.Dict[typing.Tuple[str, str], typing.Any] = {}
    self._field_busy: typing.Set[typing.Tuple[str, str]] = set()

  # -- annotations ----------------------------------------------------------------------
  def ann_type(self, module: Module, ann, cls=None):
    if ann is None:
      return None
    if isinstance(ann, ast.Constant) and isinstance(ann.value, str):
      try:
        ann = ast.parse(ann.value, mode="eval").body
      except SyntaxError:
        return None
    if isinstance(ann, ast.Subscript):
      head = (dotted(ann.value) or "").split(".")[-1]
      sl = ann.slice
      if head == "Optional":
        t = self.ann_type(module, sl, cls)
        return ("opt", t) if t else None
      if head in ("Iterator", "Iterable", "List", "Sequence", "Set", "FrozenSet", "Generator", "Collection", "list", "set"):
        first = sl.elts[0] if isinstance(sl, ast.Tuple) and sl.elts else sl
        t = self.ann_type(module, first, cls)
        return ("iter", strip_opt(t)) if t else None
      if head in ("Tuple", "tuple"):
        first = sl.elts[0] if isinstance(sl, ast.Tuple) and sl.elts else sl
        t = self.ann_type(module, first, cls)
        return ("iter", strip_opt(t)) if t else None
      if head == "Type":
        t = strip_opt(self.ann_type(module, sl, cls))
        return ("cls", t[1]) if t and t[0] == "inst" else None
      if head == "Union":
        return None
      return None
    r = self.ix.resolve(module, ann, cls=cls)
    if isinstance(r, ClassInfo):
      return ("inst", r)
    return None

  # -- per-function environment ---------------------------------------------------------
  def env(self, fi: FuncInfo) -> dict:
    if fi.qualname in self._env_cache:
      return self._env_cache[fi.qualname]
    env: typing.Dict[str, typing.Any] = {}
    self._env_cache[fi.qualname] = env
    m = fi.module
    cls = fi.cls
    # enclosing function's environment is visible (closures)
    if fi.outer_func is not None:
      env.update(self.env(fi.outer_func))
    a = fi.node.args
    allargs = a.posonlyargs + a.args + a.kwonlyargs
    for i, arg in enumerate(allargs):
      t = self.ann_type(m, arg.annotation, cls)
      if t is not None:
        env[arg.arg] = t
      elif i == 0 and cls is not None and not fi.is_static:
        env[arg.arg] = ("cls", cls) if (fi.is_classmethod or fi.name == "__init_subclass__") else ("inst", cls)
    conflicts = set()
    for _ in range(3):
      for n in own_nodes(fi.node):
        if isinstance(n, ast.Assign) and len(n.targets) == 1:
          self._bind(env, conflicts, n.targets[0], self.expr_type(m, n.value, env, cls, fi), m)
        elif isinstance(n, ast.AnnAssign) and isinstance(n.target, ast.Name):
          t = self.ann_type(m, n.annotation, cls)
          if t is None and n.value is not None:
            t = self.expr_type(m, n.value, env, cls, fi)
          self._bind(env, conflicts, n.target, t, m)
        elif isinstance(n, (ast.For, ast.comprehension)):
          it = strip_opt(self.expr_type(m, n.iter, env, cls, fi))
          elt = self.elem_type(it)
          self._bind(env, conflicts, n.target, elt, m)
        elif isinstance(n, ast.NamedExpr):
          self._bind(env, conflicts, n.target, self.expr_type(m, n.value, env, cls, fi), m)
    return env

  def _bind(self, env, conflicts, target, t, m):
    if isinstance(target, ast.Name):
      if t is None:
        return
      name = target.id
      if name in conflicts:
        return
      old = env.get(name)
      if old is None:
        env[name] = t
      elif old != t:
        j = self.join(old, t)
        if j is None:
          conflicts.add(name)
          env.pop(name, None)
        else:
          env[name] = j
    elif isinstance(target, (ast.Tuple, ast.List)):
      # tuple unpacking of an iterable of T gives no per-component types; enumerate() handled in expr
      if t is not None and t[0] == "tuple":
        for el, ct in zip(target.elts, t[1]):
          self._bind(env, conflicts, el, ct, m)

  def join(self, a, b):
    a, b = strip_opt(a), strip_opt(b)
    if a is None or b is None:
      return None
    if a == b:
      return a
    if a[0] == b[0] == "inst":
      # least common ancestor within the repo hierarchy
      for c in self.ix.mro(a[1]):
        if self.ix.is_subclass(b[1], c):
          return ("inst", c)
      return None
    if a[0] == b[0] == "iter":
      j = self.join(a[1], b[1]) if a[1] and b[1] else None
      return ("iter", j) if j else None
    return None

  def elem_type(self, it):
    it = strip_opt(it)
    if it is None:
      return None
    if it[0] == "iter":
      return it[1]
    if it[0] == "inst":
      f = self.ix.lookup_method(it[1], "__iter__")
      if f is not None:
        rt = strip_opt(self.ann_type(f.module, f.node.returns, f.cls))
        if rt and rt[0] == "iter":
          return rt[1]
    return None

  # -- expressions ----------------------------------------------------------------------
  def expr_type(self, m: Module, e, env, cls=None, fi: typing.Optional[FuncInfo] = None):
    if isinstance(e, ast.Name):
      if e.id in env:
        return env[e.id]
      r = self.ix.resolve(m, e, cls=cls, func=fi)
      if isinstance(r, ClassInfo):
        return ("cls", r)
      return None
    if isinstance(e, ast.Attribute):
      base = strip_opt(self.expr_type(m, e.value, env, cls, fi))
      if base is not None and base[0] == "inst":
        t = self.field_type(base[1], e.attr)
        if t is not None:
          return t
      if base is not None and base[0] == "cls":
        sub = self.ix.member(base[1], e.attr)
        if isinstance(sub, ClassInfo):
          return ("cls", sub)
      r = self.ix.resolve(m, e, cls=cls, func=fi)
      if isinstance(r, ClassInfo):
        return ("cls", r)
      return None
    if isinstance(e, ast.IfExp):
      a = self.expr_type(m, e.body, env, cls, fi)
      b = self.expr_type(m, e.orelse, env, cls, fi)
      if a is None or b is None:
        return a or b if (self._is_none(e.body) or self._is_none(e.orelse)) else None
      return self.join(a, b)
    if isinstance(e, ast.BoolOp):
      ts = [self.expr_type(m, v, env, cls, fi) for v in e.values]
      ts = [t for t in ts if t is not None]
      if not ts:
        return None
      out = ts[0]
      for t in ts[1:]:
        out = self.join(out, t)
        if out is None:
          return None
      return out
    if isinstance(e, (ast.List, ast.Tuple, ast.Set)):
      ts = [self.expr_type(m, x, env, cls, fi) for x in e.elts]
      if ts and all(t is not None for t in ts):
        out = ts[0]
        for t in ts[1:]:
          out = self.join(out, t) if out else None
        return ("iter", strip_opt(out)) if out else None
      return None
    if isinstance(e, (ast.ListComp, ast.GeneratorExp, ast.SetComp)):
      env2 = dict(env)
      for g in e.generators:
        it = strip_opt(self.expr_type(m, g.iter, env2, cls, fi))
        el = self.elem_type(it)
        if isinstance(g.target, ast.Name) and el is not None:
          env2[g.target.id] = el
      t = strip_opt(self.expr_type(m, e.elt, env2, cls, fi))
      return ("iter", t) if t else None
    if isinstance(e, ast.Subscript):
      base = strip_opt(self.expr_type(m, e.value, env, cls, fi))
      if base is not None and not isinstance(e.slice, ast.Slice):
        return self.elem_type(base)
      return base if base and base[0] == "iter" else None
    if isinstance(e, ast.Call):
      return self.call_type(m, e, env, cls, fi)
    return None

  @staticmethod
  def _is_none(e):
    return isinstance(e, ast.Constant) and e.value is None

  def field_type(self, ci: ClassInfo, attr: str):
    """Type of instance attribute from class-level annotations or `self.attr = Ctor()` /
    annotated assignment in __init__."""
    key = (ci.qualname, attr)
    if key in self._field_cache:
      return self._field_cache[key]
    if key in self._field_busy:
      return None
    self._field_busy.add(key)
    try:
      t = self._field_type(ci, attr)
    finally:
      self._field_busy.discard(key)
    self._field_cache[key] = t
    return t

  def _field_type(self, ci: ClassInfo, attr: str):
    for c in self.ix.mro(ci):
      if attr in c.ann:
        t = self.ann_type(c.module, c.ann[attr], c)
        if t is not None:
          return t
      init = c.methods.get("__init__")
      if init is not None:
        for n in own_nodes(init.node):
          tgt = None
          if isinstance(n, ast.Assign) and len(n.targets) == 1:
            tgt, val, ann = n.targets[0], n.value, None
          elif isinstance(n, ast.AnnAssign):
            tgt, val, ann = n.target, n.value, n.annotation
          if tgt is not None and isinstance(tgt, ast.Attribute) and isinstance(tgt.value, ast.Name) \
              and tgt.value.id == "self" and tgt.attr == attr:
            t = self.ann_type(c.module, ann, c) if ann is not None else None
            if t is None and val is not None:
              t = self.expr_type(c.module, val, self.env(init), c, init)
            if t is not None:
              return t
    return None

  def callee(self, m: Module, call: ast.Call, env, cls=None, fi=None):
    """Resolve the callee of a call to FuncInfo / ClassInfo where possible (precise part of E3)."""
    f = call.func
    if isinstance(f, ast.Name):
      if f.id in env:
        return None
      r = self.ix.resolve(m, f, cls=cls, func=fi)
      if isinstance(r, (FuncInfo, ClassInfo)):
        return r
      return None
    if isinstance(f, ast.Attribute):
      # super().m()
      if isinstance(f.value, ast.Call) and isinstance(f.value.func, ast.Name) and f.value.func.id == "super" and cls is not None:
        for c in self.ix.mro(cls)[1:]:
          if f.attr in c.methods:
            return c.methods[f.attr]
        return None
      base = strip_opt(self.expr_type(m, f.value, env, cls, fi))
      if base is not None and base[0] in ("inst", "cls"):
        r = self.ix.member(base[1], f.attr)
        if isinstance(r, (FuncInfo, ClassInfo)):
          return r
        return None
      r = self.ix.resolve(m, f, cls=cls, func=fi)
      if isinstance(r, (FuncInfo, ClassInfo)):
        return r
    return None

  def call_type(self, m, e: ast.Call, env, cls, fi):
    fn = dotted(e.func)
    if fn in ("list", "tuple", "sorted", "iter", "reversed", "set", "frozenset") and e.args:
      it = strip_opt(self.expr_type(m, e.args[0], env, cls, fi))
      el = self.elem_type(it)
      return ("iter", el) if el is not None else None
    if fn == "enumerate" and e.args:
      it = strip_opt(self.expr_type(m, e.args[0], env, cls, fi))
      el = self.elem_type(it)
      return ("iter", ("tuple", (None, el))) if el is not None else None
    if fn == "type" and len(e.args) == 1:
      t = strip_opt(self.expr_type(m, e.args[0], env, cls, fi))
      return ("cls", t[1]) if t and t[0] == "inst" else None
    # x.__class__(...) / type(x)(...)
    if isinstance(e.func, ast.Attribute) and e.func.attr == "__class__":
      return strip_opt(self.expr_type(m, e.func.value, env, cls, fi))
    if isinstance(e.func, ast.Call):
      t = self.call_type(m, e.func, env, cls, fi)
      if t and t[0] == "cls":
        return ("inst", t[1])
    r = self.callee(m, e, env, cls, fi)
    if isinstance(r, ClassInfo):
      return ("inst", r)
    if isinstance(r, FuncInfo):
      t = self.ann_type(r.module, r.node.returns, r.cls)
      return t
    return None
