"""C09 - the EBU STL reader reproduces every subtitle's time, text and attributes (tables and
structural conditions)."""
from __future__ import annotations

import ast
import struct
import unicodedata
from fractions import Fraction

from ..cfg import CFG, fact_holds_at
from ..consteval import ConstEval, EnumMember, FuncEval, NotConst, Sym
from ..core import AnalysisError, own_nodes, short, unparse
from ..rules import nul, defs, exa, lint, shape
from . import common

EXPLANATION = (
  "Decides these clauses for every STL file: (TAB) the DFC->frame-rate, CCT->decoder, JC->alignment and teletext colour / style "
  "control-code tables equal EBU Tech 3264; the GSI/TTI struct formats have sizes 1024/128 and one value per namedtuple field; every "
  "two-byte ISO 6937 entry (diacritic byte 0xC1-0xCF + letter) equals the Unicode composition of the letter with that diacritic's "
  "combining mark (oracle: unicodedata); (FIN) the text-field byte classifiers, evaluated over all 256 bytes, are disjoint where the "
  "state machine's branch order relies on it and agree with the code ranges of the standard, every control code accepted has a "
  "branch or a tabled reason, and the block filter skips exactly EBN 0xF0-0xFE and comment blocks (CF=1) before any model write; "
  "(DEP) begin/end are the block's TCI/TCO offsets minus the programme start, negative begins return before any write; (EXA) those "
  "offsets are exact rationals at the GSI frame rate; (LINT-g/LINT-e/DEF-init) no mistyped GSI/TTI field, no identity comparison of "
  "subtitle numbers, no DataFile attribute left unassigned on an error path."
  " (STATE-alias / STATE-global) no function of the anchored modules mutates a module- or class-level container, rebinds module / class state or mutates a mutable default argument, so a result never depends on earlier calls;"
  " (FIN-span) a span opened while underline and / or italics are active carries each of them independently (4 combinations);"
  " (TAB-tcp) the GSI TCP field is read as HHMMSSFF;"
  " (NUL-field) the paragraph under construction is tested before use (a cumulative block without a first block);"
  " (TAB-tf-codes / TAB-jc) control codes and justification codes are read by finite evaluation of the dispatch, whether it is an if-chain or lookup tables;"
  ' (DEF-local) no local of the STL reader is read on a path where it was not assigned;'
  ' (DEP-times) begin is the TCI offset minus the programme start offset (subtitles before the start are dropped), end the TCO offset minus the same; (FIN-blocks) the returning guards on EBN and CF, evaluated on every value of the field, skip exactly user-data / reserved and comment blocks before any model write;'
  ' (FIN-tf / TAB-tf-codes / TAB-jc) the effect of every text-field control code and justification code, evaluated one code at a time, equals EBU Tech 3264; (ORD-reset) on every path on which a TTI block is final (EBN = FFh) the extension flag is False at every exit, so the state of a finished subtitle never leaks into the next block;'
  ' (TAB-cct / TAB-dfc / TAB-struct / TAB-iso6937 / FIN-iso6937) code-page, frame-rate, GSI / TTI field layout and the ISO 6937 diacritic table agree with the oracle tables, and the decoder consumes two bytes exactly for 0xC1-0xCF;'
  ' (TAB-region-key / TAB-reset) regions are shared only between blocks with equal vertical position, line count and alignment; at a new row the styles are reset in teletext subtitles only (in open subtitles they persist);'
  ' (FIN-parse) a parsed SMPTE label counts at the rate it was given (`:`), or at the matching drop-frame rate (`;`): see C12;'
  ' (FIN-dropcount) the number of labels dropped per minute at each 1001-denominator rate keeps labels aligned with real time (two known findings at 24000/1001, the rate of STL23.01): see C12;'
  ' (LINT-l) no tuple / list / set display of the anchored modules lists the same computed component twice and no dict display repeats a key (a key or fingerprint built that way cannot tell apart what the missing component would have);'
  ' (STATE-share) no assignment stores a container field of one object (a field the package updates in place) into a field of another object without copying it, so an in-place update of one object never changes another;'
  " (ITEM-source) an object built once per item of an inner loop is filled only with values that derive from that item or do not vary with the loops, never with a value of the enclosing container standing where the item's own belongs;"
  ' (FIND-key) every parameter of _get_region_from_model that shapes a newly created region is compared by the search for a reusable one, so a region is reused only when origin, extent and displayAlign all agree;'
  ' (FIN-resume) the registered codec error handler resumes decoding exactly at the end of the undecodable range, so an unassigned byte costs one replacement character and nothing else;'
  ' (DIV-parsed) no count that the STL reader parses from the file or takes from its caller (number of TTI blocks, maximum number of rows) is used as a divisor unless it has been made positive after it was set, so a count of 0 cannot raise ZeroDivisionError;'
  ' (LOOP-break) no loop over the items of a collection is left by a branch that does nothing but `break` on a test about the item (end-of-input sentinels, flags set in the loop body and searches whose variable is read afterwards excepted): an item that is to be skipped does not end the processing of the items after it;'
  ' (ACC-raw) the text field of a TTI block is read only to extend the text accumulated over extension blocks; everything computed from the text (line count, region height, spans) reads the accumulated field;'
  + common.SHARED_CLAUSES['text']
)
RULE_TEXT = "per table entry / byte value (aggregated per classifier) / struct format / call site"
UNDECIDED = ["region geometry from VP/JC and row counts", "cumulative-set accumulation behaviour", "the text-field state machine as a whole (span boundaries, space insertion)",
             "single-byte ISO 6937 assignments (no independent machine-readable oracle in the sandbox)"]
TRUSTED = ["EBU Tech 3264 tables transcribed in this module", "unicodedata (stdlib) for ISO 6937 compositions", "struct.calcsize on extracted format literals"]

DFC = {b"STL23.01": Fraction(24000, 1001), b"STL24.01": Fraction(24), b"STL25.01": Fraction(25), b"STL30.01": Fraction(30000, 1001), b"STL50.01": Fraction(50)}
CCT = {b"00": "iso6937.decode", b"01": "iso8859_5", b"02": "iso8859_6", b"03": "iso8859_7", b"04": "iso8859_8"}
FG = {0x00: "black", 0x01: "red", 0x02: "lime", 0x03: "yellow", 0x04: "blue", 0x05: "magenta", 0x06: "cyan", 0x07: "white"}
STYLE_CODES = {0x80: ("set_italic", True), 0x81: ("set_italic", False), 0x82: ("set_underline", True), 0x83: ("set_underline", False)}
BG_CODES = {0x1C: "black", 0x85: "transparent"}
# ISO 6937 non-spacing diacritical marks 0xC1..0xCF -> Unicode combining mark
DIACRITICS = {0xC1: "̀", 0xC2: "́", 0xC3: "̂", 0xC4: "̃", 0xC5: "̄", 0xC6: "̆", 0xC7: "̇",
              0xC8: "̈", 0xCA: "̊", 0xCB: "̧", 0xCD: "̋", 0xCE: "̨", 0xCF: "̌"}
# spacing forms when the diacritic is followed by a space
SPACING = {0xC1: "`", 0xC2: "´", 0xC3: "^", 0xC4: "~", 0xC5: "¯", 0xC6: "˘", 0xC7: "˙", 0xC8: "¨",
           0xCA: "˚", 0xCB: "¸", 0xCD: "˝", 0xCE: "˛", 0xCF: "ˇ"}
# ISO 6937 codes LATIN SMALL LETTER G WITH CEDILLA with the *acute* byte (its cedilla is drawn above the letter)
ISO6937_SPECIAL = {(0xC2, "g"): "ģ"}
CONTROL_NO_BRANCH = {
  0x0A: "end box: boxing is not represented in the model", 0x0B: "start box: boxing is not represented in the model",
  0x0C: "normal height: height is handled per subtitle by has_double_height_char", 0x0D: "double height: handled per subtitle by has_double_height_char",
  0x84: "boxing on (open subtitles): boxing is not represented in the model",
}


def check_tables(ctx):
  ix = ctx.ix
  ce = ConstEval(ix)
  m = ix.mod("ttconv.stl.datafile")
  ctx.unit(m)
  try:
    dfc = ce.ev(m, ix.toplevel[m.name]["_DFC_FRACTION_MAP"][2])
  except (KeyError, NotConst) as e:
    raise AnalysisError(f"_DFC_FRACTION_MAP is not a constant table ({e})")
  for k in sorted(set(dfc) | set(DFC)):
    ctx.check(dfc.get(k) == DFC.get(k), "TAB-dfc", f"_DFC_FRACTION_MAP[{k!r}]", m.rel, f"{k!r} -> {dfc.get(k)}",
              f"DFC {k!r} maps to {dfc.get(k)} fps; expected {DFC.get(k)}")
  # default rate for unknown DFC
  t = ix.mod("ttconv.stl.tf")
  ctx.unit(t)
  cct_node = ix.toplevel[t.name]["_CHAR_DECODER_MAP"][2]
  if not isinstance(cct_node, ast.Dict):
    raise AnalysisError("_CHAR_DECODER_MAP is not a dict literal")
  got = {}
  for k, v in zip(cct_node.keys, cct_node.values):
    key = ce.ev(t, k)
    if isinstance(v, ast.Call) and unparse(v.func) == "codecs.getdecoder" and isinstance(v.args[0], ast.Constant):
      got[key] = v.args[0].value
    else:
      got[key] = unparse(v)
  for k in sorted(set(got) | set(CCT)):
    ctx.check(got.get(k) == CCT.get(k), "TAB-cct", f"_CHAR_DECODER_MAP[{k!r}]", t.rel, f"{k!r} -> {got.get(k)}",
              f"CCT {k!r} selects decoder {got.get(k)}; EBU Tech 3264 gives {CCT.get(k)}")
  # JC -> text alignment (process_tti_block), read by finite evaluation over the justification code
  from ..rules import fineval
  f = ix.func("ttconv.stl.datafile:DataFile.process_tti_block")
  sites = [c for c in own_nodes(f.node) if isinstance(c, ast.Call) and isinstance(c.func, ast.Attribute) and c.func.attr == "set_style" and c.args and unparse(c.args[0]).endswith("StyleProperties.TextAlign")]
  if not sites:
    raise AnalysisError("process_tti_block: no set_style(StyleProperties.TextAlign, ...) call found")
  recv = unparse(sites[0].func.value)
  jcs = {unparse(n) for c in [f.node] for n in own_nodes(c) if isinstance(n, ast.Attribute) and n.attr == "JC" and isinstance(n.value, ast.Name)}
  if len(jcs) != 1:
    raise AnalysisError(f"process_tti_block: the justification code is read as {sorted(jcs)}")
  jcpath = jcs.pop()
  # the smallest statement list that contains every TextAlign site
  from ..core import parent as _par
  def top_stmt(n):
    cur = n
    while _par(cur) is not f.node:
      cur = _par(cur)
    return cur
  def block_of(n):
    cur = n
    while not isinstance(cur, ast.stmt):
      cur = _par(cur)
    # climb while the parent is an if whose test reads the justification code
    while isinstance(_par(cur), ast.If) and jcpath in unparse(_par(cur).test):
      cur = _par(cur)
    return cur
  blocks = []
  for c in sites:
    blk = block_of(c)
    if not any(blk is x for x in blocks):
      blocks.append(blk)
  want = {0x00: "center", 0x01: "start", 0x02: "center", 0x03: "end"}
  label = {0x01: "JC 1", 0x03: "JC 3"}
  got = {}
  for v in want:
    eff = fineval.collect(ix, f, blocks, {jcpath: v}, recv)
    al = [a[1] for n_, a, _ in eff.calls if n_ == "set_style" and len(a) == 2 and "TextAlign" in str(a[0])]
    got[v] = [str(x).split(".")[-1].split(":")[0] if x is not None else None for x in al]
  def name_of(lst):
    return lst[0] if len(lst) == 1 else lst
  for k, lab in ((0x01, "JC 1"), (0x03, "JC 3")):
    ctx.check(len(got[k]) == 1 and want[k] in got[k][0], "TAB-jc", f"process_tti_block|{lab}", ctx.where(f.module, sites[0]), f"{lab} -> {name_of(got[k])}",
              f"justification code {k} maps to textAlign {name_of(got[k])}; expected {want[k]} (01h left, 02h centred, 03h right, 00h unchanged)")
  ok_else = all(len(got[k]) == 1 and "center" in got[k][0] for k in (0x00, 0x02))
  ctx.check(ok_else, "TAB-jc", "process_tti_block|JC else", ctx.where(f.module, sites[0]), f"JC 0, 2 -> {name_of(got[0])}, {name_of(got[2])}",
            f"justification codes 0 and 2 map to textAlign {name_of(got[0])} / {name_of(got[2])}; expected center (01h left, 02h centred, 03h right, 00h unchanged)")
  # struct formats
  for q, ntname, size in (("ttconv.stl.datafile:DataFile.__init__", "_GSIBlock", 1024), ("ttconv.stl.datafile:DataFile.process_tti_block", "_TTIBlock", 128)):
    g = ix.func(q)
    fmt = None
    for n in own_nodes(g.node):
      if isinstance(n, ast.Call) and unparse(n.func) == "struct.unpack" and isinstance(n.args[0], ast.Constant):
        fmt = n.args[0].value
    if fmt is None:
      raise AnalysisError(f"{q}: struct.unpack format literal not found")
    try:
      sz = struct.calcsize(fmt)
    except struct.error as e:
      sz = f"invalid ({e})"
    ctx.check(sz == size, "TAB-struct", f"{q}|size of {ntname} format", ctx.where(g.module, g.node), f"format size {sz}",
              f"the struct format for {ntname} describes {sz} bytes; an STL {'GSI' if size == 1024 else 'TTI'} block is {size} bytes")
    kinds = lint.struct_field_kinds(fmt)
    fields = lint.NamedTuples(ix).defs.get((m.name, ntname), [])
    ctx.check(len(kinds) == len(fields), "TAB-struct", f"{q}|arity of {ntname}", ctx.where(g.module, g.node), f"{len(kinds)} values for {len(fields)} fields",
              f"the struct format yields {len(kinds)} values but {ntname} has {len(fields)} fields")
    if ntname == "_TTIBlock" and len(kinds) == len(fields):
      want_kinds = {"SN": "int", "EBN": "int", "CS": "int", "VP": "int", "JC": "int", "CF": "int", "TF": "bytes"}
      for fld, k in zip(fields, kinds):
        if fld in want_kinds:
          ctx.check(k == want_kinds[fld], "TAB-struct", f"_TTIBlock.{fld}|kind", ctx.where(g.module, g.node), f"{fld}: {k}", f"TTI field {fld} is unpacked as {k}, expected {want_kinds[fld]}")
      ctx.check(fmt.startswith("<"), "TAB-struct", "_TTIBlock|little-endian SN", ctx.where(g.module, g.node), "little-endian", "the TTI format must be little-endian ('<'): SN is a little-endian 16-bit number")


def check_iso6937(ctx):
  ix = ctx.ix
  ce = ConstEval(ix)
  m = ix.mod("ttconv.stl.iso6937")
  ctx.unit(m)
  try:
    table = ce.ev(m, ix.toplevel[m.name]["_CCT0_DECODE_MAP"][2])
  except (KeyError, NotConst) as e:
    raise AnalysisError(f"_CCT0_DECODE_MAP is not a constant table ({e})")
  two = {k: v for k, v in table.items() if isinstance(k, bytes) and len(k) == 2}
  ctx.floor("TAB-iso6937", "two-byte ISO 6937 entries", len(two), 160)
  for k in sorted(two):
    d, letter = k[0], chr(k[1])
    got = two[k]
    if d not in DIACRITICS:
      ctx.bad("TAB-iso6937", f"_CCT0_DECODE_MAP[{k!r}]", m.rel, f"0x{d:02X} is not an ISO 6937 non-spacing diacritic (valid: 0xC1-0xCF except 0xC9, 0xCC)")
      continue
    if letter == " ":
      want = {SPACING[d]}
    else:
      comp = unicodedata.normalize("NFC", letter + DIACRITICS[d])
      want = {comp} if len(comp) == 1 else set()
      if (d, letter) in ISO6937_SPECIAL:
        want = {ISO6937_SPECIAL[(d, letter)]}
      # cedilla on g/G... are rendered with comma below in Unicode names but compose through U+0327
    ok = got in want if want else True
    if not want:
      ctx.note(f"ISO 6937 {k!r}: {letter!r} + U+{ord(DIACRITICS[d]):04X} has no precomposed Unicode character; entry {got!r} not checked")
    ctx.check(ok, "TAB-iso6937", f"_CCT0_DECODE_MAP[{k!r}]->U+{ord(got):04X}" if isinstance(got, str) and len(got) == 1 else f"_CCT0_DECODE_MAP[{k!r}]", m.rel,
              f"{k!r} -> {got!r}", f"ISO 6937 sequence {k!r} ({letter!r} with diacritic 0x{d:02X}) decodes to {got!r}; the composition is {sorted(want)}")
  # the decoder consumes two bytes exactly for 0xC1..0xCF lead bytes
  f = ix.func("ttconv.stl.iso6937:decode")
  rng = [n for n in own_nodes(f.node) if isinstance(n, ast.Compare) and len(n.ops) == 2 and ce.try_ev(m, n.left) == 0xC1 and ce.try_ev(m, n.comparators[1]) == 0xCF]
  ctx.check(bool(rng), "TAB-iso6937", "decode|two-byte lead range 0xC1..0xCF", ctx.where(m, f.node), "diacritic lead bytes 0xC1..0xCF start a two-byte sequence",
            "iso6937.decode no longer treats 0xC1..0xCF as the lead byte of a two-byte sequence")


def check_classifiers(ctx):
  ix = ctx.ix
  fe = FuncEval(ix)
  m = ix.mod("ttconv.stl.tf")
  names = ["_is_character_code", "_is_printable_code", "_is_control_code", "_is_newline_code", "_is_unused_space_code", "_is_space_code"]
  sets = {}
  for n in names:
    f = ix.func(f"ttconv.stl.tf:{n}")
    try:
      sets[n] = {c for c in range(256) if fe.call(f, {f.params[0]: c})}
    except NotConst as e:
      raise AnalysisError(f"{n} leaves the evaluable subset: {e}")
  ctx.extra["finite_domain_evaluations"] = 256 * len(names)
  w = m.rel
  want_char = set(range(0x20, 0x80)) | set(range(0xA0, 0x100))
  ctx.check(sets["_is_character_code"] == want_char, "FIN-tf", "_is_character_code|0x20-0x7F, 0xA0-0xFF", w, "character codes agree with EBU Tech 3264",
            f"_is_character_code differs from 0x20-0x7F + 0xA0-0xFF at {[hex(c) for c in sorted(sets['_is_character_code'] ^ want_char)[:6]]}")
  ctx.check(sets["_is_printable_code"] == want_char - {0x20}, "FIN-tf", "_is_printable_code|character codes except space", w, "printable = character codes minus 0x20",
            f"_is_printable_code differs at {[hex(c) for c in sorted(sets['_is_printable_code'] ^ (want_char - {0x20}))[:6]]}")
  ctx.check(sets["_is_newline_code"] == {0x8A}, "FIN-tf", "_is_newline_code|0x8A", w, "newline is 0x8A (CR/LF)", f"_is_newline_code accepts {[hex(c) for c in sorted(sets['_is_newline_code'])]}")
  ctx.check(sets["_is_unused_space_code"] == {0x8F}, "FIN-tf", "_is_unused_space_code|0x8F", w, "unused space is 0x8F", f"_is_unused_space_code accepts {[hex(c) for c in sorted(sets['_is_unused_space_code'])]}")
  ctx.check(sets["_is_space_code"] == {0x20}, "FIN-tf", "_is_space_code|0x20", w, "space is 0x20", f"_is_space_code accepts {[hex(c) for c in sorted(sets['_is_space_code'])]}")
  ctrl = sets["_is_control_code"]
  allowed_ctrl = set(range(0x00, 0x20)) | set(range(0x80, 0x86))
  required = set(FG) | set(STYLE_CODES) | set(BG_CODES) | {0x1D}
  ctx.check(ctrl <= allowed_ctrl and required <= ctrl, "FIN-tf", "_is_control_code|within teletext/open control ranges", w,
            "control codes lie in 0x00-0x1F + 0x80-0x85 and include every colour / style code",
            f"_is_control_code: outside the control ranges {[hex(c) for c in sorted(ctrl - allowed_ctrl)]}; missing required {[hex(c) for c in sorted(required - ctrl)]}")
  # disjointness: the branch order of to_model is unused -> character -> newline -> control
  for a, b in (("_is_character_code", "_is_control_code"), ("_is_character_code", "_is_newline_code"), ("_is_newline_code", "_is_control_code"),
               ("_is_unused_space_code", "_is_character_code"), ("_is_unused_space_code", "_is_control_code"), ("_is_unused_space_code", "_is_newline_code")):
    inter = sets[a] & sets[b]
    ctx.check(not inter, "FIN-tf", f"{a}/{b}|disjoint", w, "disjoint", f"{a} and {b} both accept {[hex(c) for c in sorted(inter)[:6]]}: the class of such a byte depends on branch order")
  # control-code dispatch in to_model, read by finite evaluation (if/elif chain or lookup tables alike)
  from ..rules import fineval
  f = ix.func("ttconv.stl.tf:to_model")
  ce = ConstEval(ix)
  ctl = [n for n in own_nodes(f.node) if isinstance(n, ast.If) and isinstance(n.test, ast.Call) and unparse(n.test.func) == "_is_control_code" and len(n.test.args) == 1 and isinstance(n.test.args[0], ast.Name)]
  if len(ctl) != 1:
    raise AnalysisError(f"to_model: the `_is_control_code(<byte>)` branch was not found ({len(ctl)})")
  var = ctl[0].test.args[0].id
  recvs = [unparse(c.func.value) for st in ctl[0].body for c in ast.walk(st) if isinstance(c, ast.Call) and isinstance(c.func, ast.Attribute) and c.func.attr in ("set_fg_color", "set_bg_color", "set_italic", "set_underline")]
  if not recvs:
    raise AnalysisError("to_model: no style setter is called in the control-code branch")
  recv = max(set(recvs), key=recvs.count)

  def named(colour):
    return ce.try_ev(m, ast.parse(f"styles.NamedColors.{colour}.value", mode="eval").body)
  for c in sorted(ctrl):
    key = f"to_model|control code 0x{c:02X}"
    eff = fineval.collect(ix, f, ctl[0].body, {var: c}, recv)
    setters = [(name, args, node) for name, args, node in eff.calls if name in ("set_fg_color", "set_bg_color", "set_italic", "set_underline")]
    where = ctx.where(m, setters[0][2]) if setters else ctx.where(m, ctl[0])
    found = ", ".join(f"{n}({', '.join(str(a) for a in args)})" for n, args, _ in setters) or "no style setter"
    if c in FG:
      ok = len(setters) == 1 and setters[0][0] == "set_fg_color" and setters[0][1] == [named(FG[c])]
      ctx.check(ok, "TAB-tf-codes", key, where, f"foreground {FG[c]}", f"control code 0x{c:02X} must select foreground {FG[c]}; found {found}")
    elif c in STYLE_CODES:
      meth, val = STYLE_CODES[c]
      ok = len(setters) == 1 and setters[0][0] == meth and setters[0][1] == [val]
      ctx.check(ok, "TAB-tf-codes", key, where, f"{meth}({val})", f"control code 0x{c:02X} must call {meth}({val}); found {found}")
    elif c in BG_CODES:
      ok = len(setters) == 1 and setters[0][0] == "set_bg_color" and setters[0][1] == [named(BG_CODES[c])]
      ctx.check(ok, "TAB-tf-codes", key, where, f"background {BG_CODES[c]}", f"control code 0x{c:02X} must select background {BG_CODES[c]}; found {found}")
    elif c == 0x1D:
      ok = len(setters) == 1 and setters[0][0] == "set_bg_color" and len(setters[0][2].args) == 1 and unparse(setters[0][2].args[0]) == f"{recv}.get_fg_color()"
      ctx.check(ok, "TAB-tf-codes", key, where, "new background = current foreground", f"control code 0x1D (new background) must copy the foreground colour; found {found}")
    elif setters:
      ctx.ok("TAB-tf-codes", key, where, f"has a branch: {found}")
    else:
      ctx.check(c in CONTROL_NO_BRANCH, "TAB-tf-codes", key, ctx.where(m, f.node), "tabled: " + CONTROL_NO_BRANCH.get(c, ""),
                f"control code 0x{c:02X} is accepted by _is_control_code but to_model has neither a branch nor a tabled reason for ignoring it")
  ctx.floor("TAB-tf-codes", "control codes", len(ctrl), 12)
  # branch order in the main loop: unused (break) first
  tests = []
  loop = [n for n in own_nodes(f.node) if isinstance(n, ast.While)][0]
  for st in loop.body:
    if isinstance(st, ast.If):
      cur = st
      while True:
        tests.append(unparse(cur.test))
        if len(cur.orelse) == 1 and isinstance(cur.orelse[0], ast.If):
          cur = cur.orelse[0]
        else:
          break
  ctx.check(tests and tests[0].startswith("_is_unused_space_code") , "FIN-tf", "to_model|text ends at the first unused-space byte", ctx.where(m, loop),
            "the loop breaks on the first 0x8F before any other test", f"to_model no longer stops at the first unused-space byte (tests in order: {tests[:4]})")


def check_block_filter(ctx):
  ix = ctx.ix
  f = ix.func("ttconv.stl.datafile:DataFile.process_tti_block")
  ce = ConstEval(ix, symbolic_ok=False)
  cfg = CFG(f.node)
  dom = cfg.dominators()
  # model writes
  writes = [cfg.stmt_node_containing(n) for n in own_nodes(f.node) if isinstance(n, ast.Call) and isinstance(n.func, ast.Attribute)
            and n.func.attr in ("push_child", "set_begin", "set_end", "set_style", "set_region", "to_model")]
  writes = [w for w in writes if w is not None]
  if len(writes) < 5:
    raise AnalysisError("process_tti_block: fewer than 5 model writes found (anchor changed shape)")
  for field, dom_vals, want_skip, what in (("EBN", range(256), set(range(0xF0, 0xFF)), "user-data / reserved blocks (EBN F0h-FEh)"),
                                           ("CF", range(2), {1}, "comment blocks (CF = 01h)")):
    guards = [n for n in own_nodes(f.node) if isinstance(n, ast.If) and n.body and isinstance(n.body[-1], ast.Return) and not n.orelse
              and all(isinstance(b, ast.Return) or (isinstance(b, ast.Expr) and isinstance(b.value, (ast.Constant, ast.Call)) and "LOGGER" in unparse(b)) for b in n.body)
              and f"tti.{field}" in unparse(n.test) and all(unparse(a) == f"tti.{field}" for a in ast.walk(n.test) if isinstance(a, ast.Attribute))]
    key = f"{f.qualname}|skip {what}"
    if not guards:
      ctx.bad("FIN-blocks", key, ctx.where(f.module, f.node), f"no returning guard on tti.{field}: {what} are processed as subtitles")
      continue
    skipped = set()
    for v in dom_vals:
      for g in guards:
        class _T:  # substitute tti.<field> by a name
          pass
        test = ast.parse(unparse(g.test).replace(f"tti.{field}", "__v"), mode="eval").body
        try:
          if ce.ev(f.module, test, None, {"__v": v}):
            skipped.add(v)
        except NotConst as e:
          raise AnalysisError(f"guard `{short(g.test)}` leaves the evaluable subset ({e})")
    dominated = all(any(cfg.node_of(g) in dom.get(w, ()) for g in guards) for w in writes)
    ctx.check(skipped == want_skip and dominated, "FIN-blocks", key, ctx.where(f.module, guards[0]),
              f"returns before any model write exactly for {field} in {sorted(hex(x) for x in want_skip)[:3]}...",
              f"{what}: the guard on tti.{field} skips {sorted(hex(x) for x in skipped)[:8]} (expected {sorted(hex(x) for x in want_skip)[:8]}...), "
              f"dominates all model writes: {dominated}")
  ctx.extra["finite_domain_evaluations"] = ctx.extra.get("finite_domain_evaluations", 0) + 258


def check_times(ctx):
  """DEP-times: begin = TCI offset - start offset (negative -> return), end = TCO offset - start offset."""
  ix = ctx.ix
  f = ix.func("ttconv.stl.datafile:DataFile.process_tti_block")
  cfg = CFG(f.node)
  dom = cfg.dominators()
  defs_ = {}
  for st in own_nodes(f.node):
    if isinstance(st, ast.Assign) and isinstance(st.targets[0], ast.Name):
      defs_.setdefault(st.targets[0].id, []).append(st)
  for sink, code in (("set_begin", "TCI"), ("set_end", "TCO")):
    calls = [n for n in own_nodes(f.node) if isinstance(n, ast.Call) and isinstance(n.func, ast.Attribute) and n.func.attr == sink]
    if len(calls) != 1 or not isinstance(calls[0].args[0], ast.Name):
      raise AnalysisError(f"process_tti_block: expected one {sink}(<name>) call")
    var = calls[0].args[0].id
    ds = defs_.get(var, [])
    ok = False
    why = "no unique definition"
    if len(ds) == 1 and isinstance(ds[0].value, ast.BinOp) and isinstance(ds[0].value.op, ast.Sub):
      left, right = ds[0].value.left, ds[0].value.right
      tcvar = left.func.value.id if isinstance(left, ast.Call) and isinstance(left.func, ast.Attribute) and left.func.attr == "to_temporal_offset" and isinstance(left.func.value, ast.Name) else None
      tcdef = defs_.get(tcvar, [None])[0] if tcvar else None
      fields_ok = tcdef is not None and [unparse(a) for a in tcdef.value.args[:4]] == [f"tti.{code}{x}" for x in "hmsf"] and "get_fps()" in unparse(tcdef.value.args[4])
      ok = fields_ok and unparse(right) == "self.start_offset"
      why = f"`{short(ds[0].value)}` with {tcvar} = `{short(tcdef.value) if tcdef else None}`"
    ctx.check(ok, "DEP-times", f"{f.qualname}|{sink} <- {code} - start_offset", ctx.where(f.module, calls[0]), why,
              f"{sink} must receive SmpteTimeCode(tti.{code}h..f, fps).to_temporal_offset() - self.start_offset; found {why}")
  # negative begin returns before writes
  guards = [n for n in own_nodes(f.node) if isinstance(n, ast.If) and unparse(n.test).replace(" ", "") in ("begin_time<0", "0>begin_time") and isinstance(n.body[-1], ast.Return)]
  sb = [n for n in own_nodes(f.node) if isinstance(n, ast.Call) and isinstance(n.func, ast.Attribute) and n.func.attr in ("set_begin", "push_child")]
  ok = bool(guards) and all(cfg.node_of(guards[0]) in dom.get(cfg.stmt_node_containing(c), ()) for c in sb)
  ctx.check(ok, "DEP-times", f"{f.qualname}|subtitles before the programme start are dropped", ctx.where(f.module, f.node),
            "`begin_time < 0` returns before any element is created or timed", "subtitles that begin before the programme start are no longer dropped before the model is written")


def check_span_styles(ctx):
  """FIN-span: a span opened while underline and / or italics are active carries each of them,
  independently of the other (all four combinations are evaluated)."""
  from ..rules import fineval, match
  ix = ctx.ix
  f = ix.func("ttconv.stl.tf:_Context.start_span")
  ctx.unit(f.module)
  body = match.replace_exprs(f.node.body, {"self.get_underline()": "__u", "self.get_italic()": "__i", "self.span is None": "__new", "self.span": "__span"})
  wrong, n = [], 0
  for u in (False, True):
    for i in (False, True):
      eff = fineval.collect(ix, f, body, {"__u": u, "__i": i, "__new": True}, "__span")
      props = {str(a[0]).split(".")[-1].split(":")[0] for name, a, _ in eff.calls if name == "set_style" and a}
      n += 1
      got = ("TextDecoration" in props, "FontStyle" in props)
      if got != (u, i):
        wrong.append(f"underline={u}, italics={i}: span gets TextDecoration={got[0]}, FontStyle={got[1]}")
      if not {"Color", "BackgroundColor"} <= props:
        wrong.append(f"underline={u}, italics={i}: colours not applied ({sorted(props)})")
  ctx.check(not wrong, "FIN-span", f"{f.qualname}|underline and italics are applied independently", ctx.where(f.module, f.node), f"{n} combinations", "; ".join(wrong[:4]))


def check_iso6937_dispatch(ctx):
  """FIN-iso6937: the decoder consumes two bytes exactly for the ISO 6937 non-spacing diacritical
  marks C1h-CFh and copies 20h-7Eh unchanged; every other byte goes through the one-byte table."""
  from ..rules.isdrules import substitute
  from ..consteval import NotConst
  ix = ctx.ix
  f = ix.func("ttconv.stl.iso6937:decode")
  ctx.unit(f.module)
  ce = ConstEval(ix, symbolic_ok=False)
  from ..rules import fineval
  loops = [n for n in own_nodes(f.node) if isinstance(n, ast.While)]
  if len(loops) != 1:
    raise AnalysisError("iso6937.decode: the byte loop was not found")
  buf = f.params[0]
  idx = next((n.id for n in ast.walk(loops[0].test) if isinstance(n, ast.Name) and n.id != buf and n.id != "len"), None)
  if idx is None:
    raise AnalysisError("iso6937.decode: the index of the byte loop was not found")
  # one iteration of the loop body, evaluated for every value of the byte at the index: how far does the index move?
  wrong = []
  for b in range(256):
    eff = fineval.collect(ix, f, loops[0].body, {buf: bytes([b, 0x41, 0x41]), idx: 0}, receiver="__none__")
    taken = eff.env.get(idx)
    if not isinstance(taken, int):
      raise AnalysisError(f"iso6937.decode: the index after one iteration on byte {b:02X}h could not be evaluated (skipped: {eff.skipped[:3]})")
    want = 2 if 0xC1 <= b <= 0xCF else 1
    if taken != want:
      wrong.append(f"{b:02X}h consumes {taken} byte(s), expected {want}")
  ctx.check(not wrong, "FIN-iso6937", f"{f.qualname}|two bytes exactly for C1h-CFh", ctx.where(f.module, loops[0]), "256 byte values",
            "ISO 6937 decoding: " + "; ".join(wrong[:4]) + " - composed characters (e.g. caron + letter) are decoded wrongly")


def check_codec_error_handlers(ctx):
  """FIN-resume: a function registered with codecs.register_error returns (replacement, position); decoding
  resumes at that position, so it must be the end of the undecodable range (`error.end`, exclusive) - one more
  swallows the next character, one less decodes the bad byte again (endlessly).  Evaluated for a one-byte and a
  two-byte range."""
  from ..consteval import FuncEval, NotConst as _NC, Raised as _R
  ix = ctx.ix
  n = 0
  for mname in ("ttconv.stl.tf", "ttconv.stl.iso6937.codec", "ttconv.stl.datafile"):
    m = ix.modules.get(mname)
    if m is None:
      continue
    for c in ast.walk(m.tree):
      if not (isinstance(c, ast.Call) and unparse(c.func).endswith("register_error") and len(c.args) == 2):
        continue
      h = ix.resolve(m, c.args[1])
      from ..core import FuncInfo as _FI
      if not isinstance(h, _FI) or not h.params:
        raise AnalysisError(f"{mname}: the handler registered by `{short(c)}` is not a function of the package")
      ctx.unit(m)
      n += 1
      p = h.params[0]
      got = []
      # ranges the package's own decoders report: UnicodeDecodeError(enc, buffer, i, i + w, ..) is raised for any i < len(buffer),
      # so the widest w also occurs at the last byte (the range then ends past the buffer)
      widths = set()
      for m2 in ix.modules.values():
        if not m2.name.startswith("ttconv.stl"):
          continue
        for r_ in ast.walk(m2.tree):
          if isinstance(r_, ast.Call) and unparse(r_.func).endswith("UnicodeDecodeError") and len(r_.args) >= 4:
            try:
              ce_ = ConstEval(ix, symbolic_ok=False)
              names_ = {x.id for a_ in r_.args[2:4] for x in ast.walk(a_) if isinstance(x, ast.Name)}
              env_ = {k: 0 for k in names_}
              widths.add(ce_.ev(m2, r_.args[3], None, env_) - ce_.ev(m2, r_.args[2], None, env_))
            except (_NC, TypeError):
              raise AnalysisError(f"{m2.name}: the range reported by `{short(r_, 70)}` leaves the evaluable subset")
      scenarios = [(3, 4, 8), (3, 5, 8)] + [(7, 7 + w, 8) for w in sorted(widths) if w > 1]
      for (start, end, size) in scenarios:
        env = {f"{p}.start": start, f"{p}.end": end, f"{p}.object": bytes(range(0xC1, 0xC1 + size)), p: None}
        try:
          v = FuncEval(ix).call(h, env)
        except _R:
          v = "raises"
        except IndexError:
          v = "IndexError"
        except _NC as e:
          raise AnalysisError(f"{h.qualname}: leaves the evaluable subset ({e})")
        got.append((start, end, v))
      ok = all(isinstance(v, tuple) and len(v) == 2 and isinstance(v[0], str) and v[1] == end for (_s, end, v) in got)
      ctx.check(ok, "FIN-resume", f"{h.qualname}|decoding resumes at the end of the undecodable range", ctx.where(h.module, h.node),
                f"returns (replacement, error.end) for the ranges {[(a, b) for (a, b, _v) in got]} of an 8-byte buffer",
                f"the codec error handler registered as {unparse(c.args[0])} gives {[v for (_a, _b, v) in got]} for the undecodable ranges {[(a, b) for (a, b, _v) in got]} of an 8-byte buffer "
                "(the last range is what the ISO 6937 decoder reports for a diacritic at the end of a buffer): decoding must resume at error.end and the handler must not fail; "
                "resuming later swallows the valid character that follows, an IndexError aborts the whole file")
  ctx.floor("FIN-resume", "registered codec error handlers", n, 1)


def check_newline_reset(ctx):
  """TAB-reset: at a new row, the styles are reset only in teletext subtitles (EBU Tech 3264: in open subtitles colour and emphasis persist across rows)."""
  ix = ctx.ix
  f = ix.func("ttconv.stl.tf:to_model")
  ctx.unit(f.module)
  tparam = f.params[1]
  cfg = CFG(f.node)
  resets = [c for c in own_nodes(f.node) if isinstance(c, ast.Call) and isinstance(c.func, ast.Attribute) and c.func.attr == "reset_styles"]
  if not resets:
    raise AnalysisError("tf.to_model: no reset_styles call found")
  for c in resets:
    nid = cfg.stmt_node_containing(c)
    ok = fact_holds_at(cfg, nid, lambda test, pol: pol and any(isinstance(x, ast.Name) and x.id == tparam for x in ast.walk(test)) and not isinstance(test, ast.UnaryOp))
    ctx.check(ok, "TAB-reset", f"{f.qualname}|{short(c, 40)} only in teletext", ctx.where(f.module, c), f"under `if {tparam}`",
              f"`{short(c, 50)}` runs at every new row whether or not the subtitle is teletext: open subtitles lose colour, italics and underline after a line break")


def check_tcp_fields(ctx):
  """TAB-tcp: the GSI Time Code: Start-of-Programme field is HHMMSSFF - four two-character fields, in that order."""
  ix = ctx.ix
  f = ix.func("ttconv.stl.datafile:DataFile.__init__")
  ctx.unit(f.module)
  ce = ConstEval(ix)
  sl = []
  for n in own_nodes(f.node):
    if isinstance(n, ast.Subscript) and unparse(n.value).endswith(".TCP") and isinstance(n.slice, ast.Slice):
      sl.append((ce.try_ev(f.module, n.slice.lower) if n.slice.lower is not None else 0, ce.try_ev(f.module, n.slice.upper) if n.slice.upper is not None else None, n))
  if not sl:
    raise AnalysisError("DataFile.__init__: no slices of the TCP field found")
  got = [(a, b) for a, b, _ in sorted(sl, key=lambda t: (t[2].lineno, t[2].col_offset))]
  ctx.check(got == [(0, 2), (2, 4), (4, 6), (6, 8)], "TAB-tcp", f"{f.qualname}|TCP = HH MM SS FF", ctx.where(f.module, sl[0][2]), f"slices {got}",
            f"the TCP field is read with the slices {got}; EBU Tech 3264 defines HHMMSSFF = [0:2], [2:4], [4:6], [6:8]")


def run(ctx):
  common.check_shared_helpers(ctx, text=True)
  ix = ctx.ix
  check_tables(ctx)
  check_iso6937(ctx)
  check_classifiers(ctx)
  check_block_filter(ctx)
  check_times(ctx)
  ptb = ix.func("ttconv.stl.datafile:DataFile.process_tti_block")
  def _is_model_write(n):
    return n.kind == "stmt" and any(isinstance(c, ast.Call) and isinstance(c.func, ast.Attribute) and c.func.attr in ("push_child", "set_begin", "set_end", "set_region", "to_model")
                                    for c in ast.walk(n.ast))
  shape.check_flag_reset(ctx, ptb, "is_in_extension", {"tti.EBN != 255"}, "the extension-block accumulation state of a finished subtitle",
                         final_only=_is_model_write, final_only_what="extension blocks (EBN != FFh) only extend the text field; the model is written once, for the final block")
  shape.check_region_key(ctx, ix.func("ttconv.stl.datafile:_get_region_from_model"))
  nfk = shape.check_find_or_create(ctx, [ix.func("ttconv.stl.datafile:_get_region_from_model")])
  if nfk < 5:
    raise AnalysisError(f"_get_region_from_model: the search-then-create shape was recognised for {nfk} parameters only (expected the 5 that shape a region)")
  fs = common.funcs(ctx, ["ttconv.stl.datafile", "ttconv.stl.reader", "ttconv.stl.tf"])
  n = exa.check_exactness(ctx, fs, rule="EXA", exempt=common.EXA_EXEMPT, trunc_scope=common.time_trunc_scope(ctx))
  ctx.floor("EXA", "model time sinks in the STL reader", n, 2)
  ms = common.mods(ctx, ["ttconv.stl.datafile", "ttconv.stl.reader", "ttconv.stl.tf", "ttconv.stl.iso6937", "ttconv.stl.config"])
  ng = lint.namedtuple_attrs(ctx, ms, rule="LINT-g")
  ctx.floor("LINT-g", "namedtuple attribute accesses", ng, 30)
  lint.identity_on_ints(ctx, ms, rule="LINT-e")
  nd = defs.check_def_init(ctx, [ix.cls("ttconv.stl.datafile:DataFile"), ix.cls("ttconv.stl.tf:_Context"), ix.cls("ttconv.stl.tf:_TextFieldIterator")], rule="DEF-init")
  ctx.floor("DEF-init", "instance attributes of the STL classes", nd, 8)
  defs.check_def_local(ctx, fs, rule="DEF-local", exempt=common.DEF_EXEMPT)
  check_span_styles(ctx)
  # the paragraph under construction does not exist before the first block that opens a subtitle
  ncp = nul.check_sources(ctx, [m_ for m_ in ctx.ix.cls("ttconv.stl.datafile:DataFile").methods.values() if m_.name != "__init__"], nul.NullSources(fields={"cur_p_element"}), rule="NUL-field")
  ctx.floor("NUL-field", "dereferences of DataFile.cur_p_element", ncp, 3)
  check_tcp_fields(ctx)
  check_iso6937_dispatch(ctx)
  check_newline_reset(ctx)
  check_codec_error_handlers(ctx)
  nar = shape.check_raw_part_reads(ctx, [m_ for m_ in ix.cls("ttconv.stl.datafile:DataFile").methods.values()])
  ctx.floor("ACC-raw", "accumulators fed from a block field", nar, 1)
  common.check_item_handlers(ctx, ["ttconv.stl.reader", "ttconv.stl.datafile", "ttconv.stl.tf", "ttconv.stl.iso6937"])
  from . import c12 as _c12
  _c12.check_parse_rate(ctx)
  _c12.check_drop_count(ctx)
  common.check_parsed_divisors(ctx, ["ttconv.stl.reader", "ttconv.stl.datafile", "ttconv.stl.tf"], floor=3)
  common.check_history_independence(ctx, [n for n in ctx.ix.modules if n.startswith("ttconv.stl")] + ["ttconv.time_code"])
