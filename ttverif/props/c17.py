"""C17 - every 16-bit CEA-608 word is decoded totally, unambiguously and per the standard."""
from __future__ import annotations

import ast

from ..consteval import ConstEval, EnumMember, FuncEval, NotConst, Raised, Sym
from ..core import AnalysisError, own_nodes, short, unparse
from ..oracles import cea608 as oracle
from ..rules import dsp, match
from . import common

EXPLANATION = (
  "Decides C17 almost completely, from the literal tables and the pure bit-field helpers of scc/word.py and scc/codes/*: (TAB) the "
  "control (19x4), attribute (19x2), mid-row (16x2), special (16x2 + characters) and extended (64x2 + characters) tables, the ten "
  "non-ASCII standard characters, _ROW_MAPPING and SCC_COLOR_MAPPING equal an oracle generated from the CEA-608 bit layout; (FIN) "
  "_get_row, _get_description_bits, get_underline/italic/color/indent, the PAC channel bit, is_code, the parity mask, "
  "SccCode.get_channel and the mid-row style helpers are evaluated over their whole domains and compared with the standard; "
  "(CLS) all 65,536 words are classified from the extracted tables in the lookup order of SccWord._find_code and compared with the "
  "oracle classification (class and channel; parity ignored), and the class value sets are pairwise disjoint and disjoint from the "
  "PAC domain, so lookup order can never matter (the disassembler uses another order); (SHAPE) every find() is 'first member whose "
  "value tuple contains the word', both bytes pass through the parity mask before any classification and every constructor path "
  "goes through from_bytes; (DSP) the disassembler has a branch for every code class and every path returns a string."
  " (STATE-alias / STATE-global) no function of the anchored modules mutates a module- or class-level container, rebinds module / class state or mutates a mutable default argument, so a result never depends on earlier calls;"
  ' (CLS-disjoint) no 16-bit word is claimed by two code classes; (FIN-is-code / FIN-channel / FIN-parity / FIN-midrow / FIN-pac-bits / FIN-pac-row) the predicates and bit-field decoders, evaluated on every word of their domain, equal the CEA-608 bit layout oracle;'
  ' (TAB-standard / TAB-special / TAB-extended / TAB-control / TAB-attribute / TAB-midrow / TAB-colors / TAB-rows) the value tables equal the oracle tables; (DSP-disasm / DSP-disasm-colors) the disassembler names every code class and colour;'
  ' (LINT-l) no tuple / list / set display of the anchored modules lists the same computed component twice and no dict display repeats a key (a key or fingerprint built that way cannot tell apart what the missing component would have);'
  ' (STATE-share) no assignment stores a container field of one object (a field the package updates in place) into a field of another object without copying it, so an in-place update of one object never changes another;'
  " (ITEM-source) an object built once per item of an inner loop is filled only with values that derive from that item or do not vary with the loops, never with a value of the enclosing container standing where the item's own belongs;"
  ' (NUL-known) no local is dereferenced at a point where a dominating test has established that it is None and nothing has assigned it since (the test and the dereference would contradict each other);'
  ' (LINT-m) the SCC line pattern lists no literal separators beside an unescaped `.`;'
  ' (LOOP-break) no loop over the items of a collection is left by a branch that does nothing but `break` on a test about the item (end-of-input sentinels, flags set in the loop body and searches whose variable is read afterwards excepted): an item that is to be skipped does not end the processing of the items after it;'
  + "  (ORD-channel, shared with C08) every call into the decoder state in SccLine.process is dominated by the test that skips words whose channel is not channel 1 (None, the field-2 forms, included);"
)
RULE_TEXT = "per table entry, per helper x domain point (aggregated per helper), per word (aggregated), per structural shape"
UNDECIDED = ["nothing of substance; the glyph choice for six line-drawing/dash extended characters admits light or heavy Unicode forms",
             "RGB values of the seven caption colours (CEA-608 names colours, not RGB): matched by colour name"]
TRUSTED = ["my transcription of the CEA-608 bit layout (oracles/cea608.py)", "restricted finite-domain evaluator (consteval.FuncEval)"]

CODES = "ttconv.scc.codes"
ENUMS = {
  "control": f"{CODES}.control_codes:SccControlCode",
  "attribute": f"{CODES}.attribute_codes:SccAttributeCode",
  "midrow": f"{CODES}.mid_row_codes:SccMidRowCode",
  "special": f"{CODES}.special_characters:SccSpecialCharacter",
  "extended": f"{CODES}.extended_characters:SccExtendedCharacter",
}
PAC = f"{CODES}.preambles_address_codes:SccPreambleAddressCode"
BITS = f"{CODES}.preambles_address_codes:_SccPacDescriptionBits"


def ints_of(t):
  return [x for x in t if isinstance(x, int) and not isinstance(x, bool)]


def extract_tables(ctx):
  ix = ctx.ix
  ce = ConstEval(ix)
  tables = {}
  for kind, q in ENUMS.items():
    c = ix.cls(q)
    ctx.unit(c.module)
    tab = {}
    for name, vexpr in ix.enum_members(c):
      try:
        tab[name] = ce.ev(c.module, vexpr, c)
      except NotConst as e:
        raise AnalysisError(f"{q}.{name}: value is not a constant tuple ({e})")
    tables[kind] = tab
  return tables


def check_tables(ctx, tables):
  ix = ctx.ix
  # control
  c = ix.cls(ENUMS["control"])
  w = ctx.where(c.module, c.node)
  got = {k: tuple(ints_of(v)) for k, v in tables["control"].items()}
  for name in sorted(set(got) | set(oracle.CONTROL_CODES)):
    ctx.check(got.get(name) == oracle.CONTROL_CODES.get(name), "TAB-control", f"SccControlCode.{name}", w,
              f"{name} = {tuple(hex(x) for x in got.get(name, ()))}",
              f"SccControlCode.{name} is {tuple(hex(x) for x in got.get(name, ()))} but CEA-608 gives "
              f"{tuple(hex(x) for x in oracle.CONTROL_CODES.get(name, ()))} (ch1 f1, ch2 f1, ch1 f2, ch2 f2)")
  ctx.floor("TAB-control", "control codes", len(got), 19)
  # mid-row
  c = ix.cls(ENUMS["midrow"])
  w = ctx.where(c.module, c.node)
  got = {k: tuple(ints_of(v)) for k, v in tables["midrow"].items()}
  for name in sorted(set(got) | set(oracle.MID_ROW_CODES)):
    ctx.check(got.get(name) == oracle.MID_ROW_CODES.get(name), "TAB-midrow", f"SccMidRowCode.{name}", w,
              f"{name} = {tuple(hex(x) for x in got.get(name, ()))}",
              f"SccMidRowCode.{name} is {tuple(hex(x) for x in got.get(name, ()))} but CEA-608 gives {tuple(hex(x) for x in oracle.MID_ROW_CODES.get(name, ()))}")
  ctx.floor("TAB-midrow", "mid-row codes", len(got), 16)
  # attribute codes
  c = ix.cls(ENUMS["attribute"])
  w = ctx.where(c.module, c.node)
  fau_u = attribute_underline_members(ctx)
  for name in sorted(set(tables["attribute"]) | set(oracle.ATTRIBUTE_CODES)):
    v = tables["attribute"].get(name)
    want = oracle.ATTRIBUTE_CODES.get(name)
    if v is None or want is None:
      ctx.bad("TAB-attribute", f"SccAttributeCode.{name}", w, f"attribute code {name}: code has {v}, CEA-608 has {want}")
      continue
    vals = tuple(ints_of(v))
    color = next((x for x in v if isinstance(x, Sym)), None)
    cname, alpha = oracle.color_name_alpha(color.text) if color is not None else (None, None)
    bg = True
    bools = [x for x in v if isinstance(x, bool)]
    if bools:
      bg = bools[0]
    gotv = (vals[0] if vals else None, vals[1] if len(vals) > 1 else None, cname, alpha, bg, name in fau_u)
    ctx.check(gotv == want, "TAB-attribute", f"SccAttributeCode.{name}", w, f"{name} = {gotv}",
              f"SccAttributeCode.{name} decodes to {gotv} (ch1, ch2, colour, alpha, background, underline) but CEA-608 gives {want}")
  ctx.floor("TAB-attribute", "attribute codes", len(tables["attribute"]), 19)
  # special / extended characters
  for kind, orc, rule in (("special", oracle.SPECIAL, "TAB-special"), ("extended", oracle.EXTENDED, "TAB-extended")):
    c = ix.cls(ENUMS[kind])
    w = ctx.where(c.module, c.node)
    seen = set()
    for name, v in tables[kind].items():
      vals = ints_of(v)
      ch = next((x for x in v if isinstance(x, str)), None)
      ok = len(vals) == 2 and vals[1] == vals[0] + oracle.CH2 and vals[0] in orc
      want = orc.get(vals[0]) if vals else None
      if ok:
        seen.add(vals[0])
        ok = (ch in want) if isinstance(want, tuple) else (ch == want)
      wm = ctx.where(c.module, c.assign_nodes[name]) if name in c.assign_nodes else w
      ctx.check(ok, rule, f"{c.name}.{name}|{hex(vals[0]) if vals else None}->U+{ord(ch):04X}" if isinstance(ch, str) and len(ch) == 1 else f"{c.name}.{name}", wm,
                f"{hex(vals[0]) if vals else None} -> {ch!r}",
                f"{c.name}.{name} maps {[hex(x) for x in vals]} to {ch!r}; CEA-608: {hex(vals[0]) if vals else None} is {want!r} "
                f"(channel 2 = channel 1 | 0x0800)")
    for missing in sorted(set(orc) - seen):
      ctx.bad(rule, f"{c.name}|missing {hex(missing)}", w, f"no member decodes {hex(missing)} ({orc[missing]!r})")
    ctx.floor(rule, f"{kind} characters", len(tables[kind]), len(orc))
  # standard characters
  m = ix.mod(f"{CODES}.standard_characters")
  ctx.unit(m)
  ce = ConstEval(ix)
  try:
    std = ce.ev(m, ix.toplevel[m.name]["SCC_STANDARD_CHARACTERS_MAPPING"][2])
  except (KeyError, NotConst) as e:
    raise AnalysisError(f"SCC_STANDARD_CHARACTERS_MAPPING is not a constant table ({e})")
  # what SccWord.to_text makes of one byte: the comprehension(s) over (byte_1, byte_2) are evaluated for every byte value -
  # the filter must drop the null byte only, the element must be the standard character of the byte
  to_text = ix.func("ttconv.scc.word:SccWord.to_text")
  comps = sorted([c for c in own_nodes(to_text.node) if isinstance(c, (ast.GeneratorExp, ast.ListComp)) and len(c.generators) == 1 and isinstance(c.generators[0].target, ast.Name)],
                 key=lambda c: (c.lineno, c.col_offset))
  ldefs = match.local_defs(to_text.node)

  def source_of(comp):
    it = comp.generators[0].iter
    if isinstance(it, ast.Name) and len(ldefs.get(it.id, [])) == 1:
      it = ldefs[it.id][0]
    return it
  first = [c for c in comps if isinstance(source_of(c), (ast.List, ast.Tuple)) and "byte_1" in unparse(source_of(c)) and "byte_2" in unparse(source_of(c))]
  if len(first) != 1:
    raise AnalysisError("SccWord.to_text: the comprehension over (byte_1, byte_2) was not found")
  chain = [first[0]]
  while True:
    nxt = [c for c in comps if c not in chain and source_of(c) is chain[-1]]
    if not nxt:
      break
    chain.append(nxt[0])
  tm = to_text.module
  wrong_filter, wrong_char = [], []
  for b in range(0x00, 0x80):
    v, alive = b, True
    try:
      for c in chain:
        var = c.generators[0].target.id
        if not all(ce.ev(tm, t, to_text.cls, {var: v}) for t in c.generators[0].ifs):
          alive = False
          break
        v = ce.ev(tm, c.elt, to_text.cls, {var: v})
    except NotConst as e:
      raise AnalysisError(f"SccWord.to_text: the per-byte expression leaves the evaluable subset ({e})")
    if alive != (b != 0):
      wrong_filter.append(hex(b))
    if b >= 0x20 and alive and v != oracle.standard_char(b):
      wrong_char.append((hex(b), v, oracle.standard_char(b)))
  ctx.check(not wrong_filter, "TAB-standard", "SccWord.to_text|only the null byte is filler", ctx.where(tm, to_text.node), "bytes 01h-7Fh are all rendered, 00h is skipped",
            f"SccWord.to_text drops / keeps the wrong bytes: {wrong_filter[:6]} (every byte but 00h is a character; 7Fh is the solid block)")
  for b in range(0x20, 0x80):
    got = next((g for hb, g, _ in wrong_char if hb == hex(b)), oracle.standard_char(b))
    ctx.check(got == oracle.standard_char(b), "TAB-standard", f"SCC_STANDARD_CHARACTERS_MAPPING[{hex(b)}]", m.rel,
              f"{hex(b)} -> {got!r}", f"standard character {hex(b)} decodes to {got!r}; CEA-608 gives {oracle.standard_char(b)!r}")
  # ... and the whole function on sample words (a path that never reaches the comprehension is not seen by the per-byte evaluation)
  from ..consteval import NotConst as _NC2, Raised as _R2
  from ..rules.minieval import MiniEval as _ME
  wcls = ix.cls("ttconv.scc.word:SccWord")
  pairs = [(b1, 0x00) for b1 in range(0x20, 0x80)] + [(b1, 0x2A) for b1 in range(0x20, 0x80)] + [(0x41, b2) for b2 in range(0x20, 0x80)] + [(0x00, 0x00), (0x00, 0x7E), (0x7F, 0x7F)]
  bad_words, und_w = [], None
  for b1, b2 in pairs:
    rec = {"__record__": "SccWord", "__class__": wcls, "byte_1": b1, "byte_2": b2, "value": b1 * 256 + b2}
    try:
      got = _ME(ix).call(to_text, [rec])
    except _R2:
      bad_words.append(f"{b1:02x}{b2:02x}: raises")
      continue
    except _NC2 as ex_:
      und_w = str(ex_)
      break
    want = "".join(oracle.standard_char(b) if b >= 0x20 else chr(b) for b in (b1, b2) if b != 0)
    if got != want:
      bad_words.append(f"{b1:02x}{b2:02x}: {got!a} instead of {want!a}")
  if und_w is not None:
    ctx.undecide("TAB-standard", f"SccWord.to_text: not in the interpreted subset ({und_w})")
  else:
    ctx.check(not bad_words, "TAB-standard", "SccWord.to_text|sample words decode to the standard characters of their non-null bytes", ctx.where(tm, to_text.node),
              f"interpreted on {len(pairs)} words (every byte as first byte with a null or a non-ASCII second byte, every byte as second byte)",
              "SccWord.to_text, interpreted on sample words: " + "; ".join(bad_words[:5]) + (f" (+{len(bad_words) - 5} more)" if len(bad_words) > 5 else "") +
              " - each non-null byte must decode through the standard character table (2Ah is á, 7Eh is ñ, 7Fh the solid block), also when the other byte is the null filler")
  # row mapping and colour mapping
  pm = ix.mod(f"{CODES}.preambles_address_codes")
  rowmap = ce.ev(pm, ix.toplevel[pm.name]["_ROW_MAPPING"][2])
  want_rows = {(k[0], 0x60 if k[1] else 0x40): v for k, v in oracle.PAC_ROWS.items()}
  for k in sorted(set(rowmap) | set(want_rows)):
    ctx.check(rowmap.get(k) == want_rows.get(k), "TAB-rows", f"_ROW_MAPPING[{k}]", pm.rel, f"{k} -> row {rowmap.get(k)}",
              f"_ROW_MAPPING[{tuple(hex(x) for x in k)}] is {rowmap.get(k)}; CEA-608 gives row {want_rows.get(k)}")
  cm = ix.mod(CODES)
  colmap = ce.ev(cm, ix.toplevel[cm.name]["SCC_COLOR_MAPPING"][2])
  for bits in range(0x0E):
    got = colmap.get(bits)
    name = oracle.color_name_alpha(got.text)[0] if isinstance(got, Sym) else None
    ctx.check(name == oracle.PAC_COLORS[bits >> 1], "TAB-colors", f"SCC_COLOR_MAPPING[{hex(bits)}]", cm.rel, f"{hex(bits)} -> {name}",
              f"SCC_COLOR_MAPPING[{hex(bits)}] is {name}; CEA-608 style bits {hex(bits)} select {oracle.PAC_COLORS[bits >> 1]}")
  ctx.check(not any(k >= 0x0E for k in colmap), "TAB-colors", "SCC_COLOR_MAPPING|no colour for italics bits", cm.rel,
            "style bits 0xE/0xF (italics) carry no colour entry", "SCC_COLOR_MAPPING has entries for the italics style bits 0xE/0xF")
  return std


def attribute_underline_members(ctx):
  """Members for which SccAttributeCode.get_text_decoration returns an underline."""
  f = ctx.ix.func(f"{ENUMS['attribute']}.get_text_decoration")
  out = set()
  for n in own_nodes(f.node):
    if isinstance(n, ast.If) and any(isinstance(x, ast.Return) and "underline=True" in unparse(x) for x in n.body):
      for a in ast.walk(n.test):
        if isinstance(a, ast.Attribute) and unparse(a.value).endswith("SccAttributeCode"):
          out.add(a.attr)
  return out


def check_shapes(ctx):
  """SHAPE: find() = first member whose values contain the word; contains_value = membership in
  get_values(); parity mask on both bytes; constructors go through from_bytes."""
  ix = ctx.ix
  base = ix.cls(f"{CODES}:SccCode")
  cv = base.methods.get("contains_value")
  ok = cv is not None and any(isinstance(n, ast.Compare) and isinstance(n.ops[0], ast.In) and "get_values()" in unparse(n.comparators[0])
                             for n in own_nodes(cv.node))
  ctx.check(ok, "SHAPE", "SccCode.contains_value|value in self.get_values()", ctx.where(base.module, base.node),
            "membership in the member's value tuple", "SccCode.contains_value is no longer `value in self.get_values()`")
  from ..consteval import NotConst as _NC, Raised as _R
  from ..rules.minieval import MiniEval
  for kind, q in ENUMS.items():
    c = ix.cls(q)
    f = c.methods.get("find")
    if f is None:
      ctx.bad("SHAPE", f"{c.name}.find|first member containing the value", ctx.where(c.module, c.node), f"{c.name}.find vanished")
      continue
    # by interpretation, against the member table of the enumeration itself: for every code value any member lists (and some that
    # none lists), find() gives the first member, in definition order, whose value tuple contains it, and get_channel() of that member
    # gives channel 1 / 2 for the first / second value and no channel for any other (the field-2 forms of the control codes)
    probe = MiniEval(ix)
    members = [m_ for m_ in probe._enum_table(c, f).values()]
    rows = []
    for m_ in members:
      v_ = m_.value
      if not isinstance(v_, tuple):
        try:
          v_ = probe.ev(dict(ix.enum_members(c))[m_.name], {}, f, 1)
        except (_NC, _R):
          v_ = None
      codes = tuple(x_ for x_ in (v_ or ()) if isinstance(x_, int) and not isinstance(x_, bool))[: (4 if kind == "control" else 2)]
      rows.append((m_, codes))
    if not rows or any(len(codes) < 2 for _m, codes in rows):
      ctx.undecide("SHAPE", f"{c.name}: member values are not tuples of code values the rule can read")
      continue
    values = sorted({x_ for _m, codes in rows for x_ in codes}) + [0x0000, 0x1000, 0x9999, 0x7F7F]
    gc = ix.lookup_method(c, "get_channel")
    bad_, und_ = [], None
    for v_ in values:
      want = next((m_ for m_, codes in rows if v_ in codes), None)
      try:
        me = MiniEval(ix)
        got = me.call(f, [v_])
        ch = me.call(gc, [got, v_]) if (got is not None and gc is not None) else None
      except _R:
        bad_.append(f"find({v_:#06x}) raises")
        continue
      except _NC as ex_:
        und_ = str(ex_)
        break
      if got != want:
        bad_.append(f"find({v_:#06x}) is {got!r} instead of {want!r}")
      elif want is not None:
        codes = next(codes for m_, codes in rows if m_ == want)
        want_ch = "CHANNEL_1" if v_ == codes[0] else ("CHANNEL_2" if v_ == codes[1] else None)
        got_ch = getattr(ch, "name", None)
        if got_ch != want_ch:
          bad_.append(f"{want!r}.get_channel({v_:#06x}) is {got_ch} instead of {want_ch}")
    if und_ is not None:
      ctx.undecide("SHAPE", f"{c.name}.find: not in the interpreted subset ({und_})")
    else:
      ctx.check(not bad_, "SHAPE", f"{c.name}.find|first member containing the value", ctx.where(c.module, c.node),
                f"interpreted on {len(values)} code values: first member listing the value; channel 1 / 2 for its first / second value, none otherwise",
                f"{c.name}, interpreted on the code values of its own members: " + "; ".join(bad_[:4]) + (f" (+{len(bad_) - 4} more)" if len(bad_) > 4 else "") +
                ": a word is classified as another code, or data of the other channel / field is taken for this channel's")
    gv = ix.lookup_method(c, "get_values")
    fields = [unparse(e) for e in gv.node.body[-1].value.elts] if gv and isinstance(gv.node.body[-1], ast.Return) and isinstance(gv.node.body[-1].value, ast.Tuple) else []
    want = 4 if kind == "control" else 2
    ctx.check(len(fields) == want, "SHAPE", f"{c.name}.get_values|{want} code values", ctx.where(c.module, c.node),
              f"get_values returns {fields}", f"{c.name}.get_values returns {fields}; expected the {want} code values of a member")
  # parity
  w = ix.cls("ttconv.scc.word:SccWord")
  ctx.unit(w.module)
  ce = ConstEval(ix)
  mask = ce.try_ev(w.module, ast.parse("PARITY_BIT_MASK", mode="eval").body)
  ctx.check(mask == 0x7F, "SHAPE", "PARITY_BIT_MASK|0x7F", w.module.rel, "mask = 0x7F", f"PARITY_BIT_MASK is {mask!r}; parity is bit 7, the mask must be 0x7F")
  fe = FuncEval(ix)
  dp = w.methods["_decipher_parity_bit"]
  bad = [b for b in range(256) if fe.call(dp, {dp.params[0]: b}) != (b & 0x7F)]
  ctx.check(not bad, "FIN-parity", "SccWord._decipher_parity_bit|all 256 bytes", ctx.where(w.module, dp.node),
            "strips exactly bit 7 for all 256 byte values", f"_decipher_parity_bit is wrong for bytes {[hex(b) for b in bad[:6]]}")
  fb = w.methods["from_bytes"]
  # the value returned on the path that does not raise, with the locals substituted: SccWord(mask(p1), mask(p2))
  ctor_ok = False
  try:
    kind, rexpr = match.path_result(fb.node, lambda test: False)
    if kind == "return" and isinstance(rexpr, ast.Call) and unparse(rexpr.func) == "SccWord" and len(rexpr.args) == 2 and not rexpr.keywords:
      ctor_ok = all(isinstance(a, ast.Call) and "_decipher_parity_bit" in unparse(a.func) and len(a.args) == 1 and unparse(a.args[0]) == p
                    for a, p in zip(rexpr.args, fb.params[:2]))
  except match.PathUndecided as e:
    raise AnalysisError(f"SccWord.from_bytes: {e}")
  ctx.check(ctor_ok, "SHAPE", "SccWord.from_bytes|both bytes masked before construction", ctx.where(w.module, fb.node),
            "both bytes pass through the parity mask before SccWord(...)",
            "SccWord.from_bytes no longer strips the parity bit of both bytes before classification")
  # every other constructor path goes through from_bytes
  n_ctor = 0
  for m in ix.modules.values():
    for n in ast.walk(m.tree):
      if isinstance(n, ast.Call) and unparse(n.func) in ("SccWord", "word.SccWord"):
        r = ix.resolve(m, n.func)
        if r is w:
          n_ctor += 1
          scope = ix.scope_name(m, n)
          ctx.check(scope == fb.qualname, "SHAPE", f"{scope}|direct SccWord(...) construction", ctx.where(m, n),
                    "constructed inside from_bytes", f"{scope} constructs SccWord directly, by-passing the parity mask of from_bytes")
  for name in ("from_value", "from_str"):
    f = w.methods[name]
    ctx.check(any(isinstance(n, ast.Return) and "SccWord.from_bytes(" in unparse(n) for n in own_nodes(f.node)), "SHAPE",
              f"SccWord.{name}|delegates to from_bytes", ctx.where(w.module, f.node), "delegates to from_bytes",
              f"SccWord.{name} no longer delegates to from_bytes (parity would not be stripped)")
  # lookup order of _find_code
  fc = w.methods["_find_code"]
  # the classes are consulted in source order, the first hit wins (an `or` chain, or one lookup after the other with a return on a hit)
  finds = [v for v in own_nodes(fc.node) if isinstance(v, ast.Call) and isinstance(v.func, ast.Attribute) and v.func.attr == "find"]
  finds.sort(key=lambda v: (v.lineno, v.col_offset))
  order = [unparse(v.func.value) for v in finds]
  guarded = any(isinstance(n, ast.If) and "is_code()" in unparse(n.test) for n in own_nodes(fc.node))
  return order, guarded


def check_fin(ctx):
  """FIN: pure helpers over their whole domains."""
  ix = ctx.ix
  fe = FuncEval(ix)
  pac = ix.cls(PAC)
  bits_c = ix.cls(BITS)
  ctx.unit(pac.module)
  evals = 0
  # _get_row + _get_description_bits -> "is a PAC" and row, for all 128 x 128 byte pairs (and out-of-range byte 1)
  gr, gd = pac.methods["_get_row"], pac.methods["_get_description_bits"]
  wrong = []
  for b1 in range(0x00, 0x80):
    for b2 in range(0x00, 0x80):
      try:
        row = fe.call(gr, {gr.params[0]: b1, gr.params[1]: b2})
        desc = fe.call(gd, {gd.params[0]: b2})
      except NotConst as e:
        raise AnalysisError(f"PAC helpers leave the evaluable subset: {e}")
      evals += 1
      is_pac = row is not None and desc is not None
      want = oracle.pac(b1, b2)
      if is_pac != (want is not None) or (want is not None and row != want["row"]):
        wrong.append((b1, b2, row, want))
  ctx.check(not wrong, "FIN-pac-row", "SccPreambleAddressCode._get_row/_get_description_bits|128x128 byte pairs", ctx.where(pac.module, gr.node),
            "PAC domain and row number agree with CEA-608 for all 16,384 byte pairs",
            "PAC row decoding differs from CEA-608, e.g. " + "; ".join(f"{hex(a)} {hex(b)}: got row {r}, want {w['row'] if w else None}" for a, b, r, w in wrong[:4]))
  # description bits
  for meth, field in (("get_underline", "underline"), ("get_italic", "italic"), ("get_indent", "indent"), ("get_color", "color")):
    f = bits_c.methods[meth]
    wrong = []
    for bits in range(0x20):
      got = fe.call(f, {"self._bits": bits})
      evals += 1
      want = oracle.pac(0x11, 0x40 | bits)[field]
      if field == "color":
        got = oracle.color_name_alpha(got.text)[0] if isinstance(got, Sym) else None
        okv = got == want or (want is None and got in (None, "white"))
      else:
        okv = got == want
      if not okv:
        wrong.append((bits, got, want))
    ctx.check(not wrong, "FIN-pac-bits", f"_SccPacDescriptionBits.{meth}|32 description values", ctx.where(bits_c.module, f.node),
              f"{field} agrees with CEA-608 for all 32 description-bit values",
              f"_SccPacDescriptionBits.{meth} differs from CEA-608: " + "; ".join(f"bits {hex(b)}: got {g}, want {w}" for b, g, w in wrong[:4]))
  # description bits are byte_2 & 0x1F
  ok = any(isinstance(n, ast.BinOp) and isinstance(n.op, ast.BitAnd) and ConstEval(ix).try_ev(pac.module, n.right) == 0x1F for n in own_nodes(gd.node))
  ctx.check(ok, "FIN-pac-bits", "_get_description_bits|byte_2 & 0x1F", ctx.where(pac.module, gd.node), "description bits are the low five bits",
            "_get_description_bits no longer extracts byte_2 & 0x1F")
  # channel bit in __init__
  init = pac.methods["__init__"]
  from ..consteval import _CallingConstEval as _CCE, Raised as _Raised
  ch_stmts = [st for st in init.node.body if any(isinstance(x, ast.Assign) and unparse(x.targets[0]) == "self._channel" for x in ast.walk(st))]
  if len(ch_stmts) != 1:
    raise AnalysisError(f"SccPreambleAddressCode.__init__: expected one statement assigning self._channel, found {len(ch_stmts)}")
  fe = FuncEval(ix)
  wrong = []
  for b1 in range(0x10, 0x20):
    env = {init.params[1]: b1}
    try:
      fe._block(_CCE(ix, fe, init, 0, None), init, ch_stmts, env)
    except (NotConst, _Raised) as e:
      raise AnalysisError(f"SccPreambleAddressCode.__init__: the channel assignment leaves the evaluable subset ({e})")
    v = env.get("self._channel")
    evals += 1
    want = "CHANNEL_2" if b1 & 0x08 else "CHANNEL_1"
    if not (isinstance(v, EnumMember) and v.name == want):
      wrong.append((b1, v))
  ctx.check(not wrong, "FIN-channel", "SccPreambleAddressCode.__init__|channel bit 0x08", ctx.where(pac.module, init.node),
            "PAC channel = bit 3 of byte 1 for all 16 first bytes", f"PAC channel attribution is wrong for first bytes {[(hex(b), str(v)) for b, v in wrong[:4]]}")
  # is_code
  w = ix.cls("ttconv.scc.word:SccWord")
  ic = w.methods["is_code"]
  wrong = [b for b in range(0x80) if bool(fe.call(ic, {"self.byte_1": b})) != (0x10 <= b <= 0x1F)]
  evals += 0x80
  ctx.check(not wrong, "FIN-is-code", "SccWord.is_code|128 first bytes", ctx.where(w.module, ic.node), "is_code <=> 0x10 <= byte_1 <= 0x1F",
            f"SccWord.is_code is wrong for first bytes {[hex(b) for b in wrong[:6]]}")
  # SccCode.get_channel
  base = ix.cls(f"{CODES}:SccCode")
  gc = base.methods["get_channel"]
  wrong = []
  for (c1, c2, v) in ((0x1420, 0x1C20, 0x1420), (0x1420, 0x1C20, 0x1C20), (0x1420, 0x1C20, 0x1520), (0x1420, 0x1C20, 0x1D20), (0x1130, 0x1930, 0x1930)):
    r = fe.call(gc, {"self._channel_1": c1, "self._channel_2": c2, gc.params[1]: v})
    evals += 1
    want = "CHANNEL_1" if v == c1 else ("CHANNEL_2" if v == c2 else None)
    if (r.name if isinstance(r, EnumMember) else r) != want:
      wrong.append((hex(v), r))
  ctx.check(not wrong, "FIN-channel", "SccCode.get_channel|channel-1 / channel-2 / field-2 values", ctx.where(base.module, gc.node),
            "value == first code -> channel 1, == second -> channel 2, otherwise (field 2) neither", f"SccCode.get_channel is wrong: {wrong}")
  # get_channel through each code class (dynamic dispatch: SccControlCode overrides get_values):
  # first value -> channel 1, second -> channel 2, field-2 values -> neither
  ce2 = ConstEval(ix)
  for kind, q in ENUMS.items():
    c = ix.cls(q)
    init = ix.lookup_method(c, "__init__")
    gch = ix.lookup_method(c, "get_channel")
    wrong = []
    for name, vexpr in ix.enum_members(c):
      vals = ce2.ev(c.module, vexpr, c)
      env = {}
      # simulate the member's __init__ chain (assignments of parameters to self fields)
      def run_init(fi, args):
        e = dict(zip(fi.params[1:], args))
        for st in fi.node.body:
          if isinstance(st, ast.Assign) and isinstance(st.targets[0], ast.Attribute) and isinstance(st.value, ast.Name) and st.value.id in e:
            env[f"self.{st.targets[0].attr}"] = e[st.value.id]
          elif isinstance(st, ast.Expr) and isinstance(st.value, ast.Call) and "super().__init__" in unparse(st.value.func):
            sup = None
            for b in ix.mro(fi.cls)[1:]:
              if "__init__" in b.methods:
                sup = b.methods["__init__"]
                break
            if sup is not None:
              run_init(sup, [e.get(unparse(a)) for a in st.value.args])
      run_init(init, list(vals))
      ints = ints_of(vals)
      for i, v in enumerate(ints):
        try:
          r = fe.call(gch, dict(env, **{gch.params[1]: v}), self_cls=c)
        except NotConst as ex:
          raise AnalysisError(f"{c.name}.get_channel leaves the evaluable subset: {ex}")
        evals += 1
        want = "CHANNEL_1" if v == ints[0] else ("CHANNEL_2" if v == ints[1] else None)
        got = r.name if isinstance(r, EnumMember) else r
        if got != want:
          wrong.append((name, hex(v), got, want))
    ctx.check(not wrong, "FIN-channel", f"{c.name}.get_channel|every value of every member", ctx.where(c.module, c.node),
              "channel 1 / channel 2 for the field-1 values, neither for field-2 values",
              f"{c.name}.get_channel attributes values to the wrong channel: " + "; ".join(f"{n} {v}: got {g}, want {w}" for n, v, g, w in wrong[:4]))
  # mid-row style helpers
  mr = ix.cls(ENUMS["midrow"])
  for meth in ("get_color", "get_font_style", "get_text_decoration"):
    f = mr.methods[meth]
    wrong = []
    for bits in range(0x10):
      r = fe.call(f, {"self._channel_1": 0x1120 + bits})
      evals += 1
      color, italic, underline = oracle.MID_ROW_STYLE[bits]
      if meth == "get_color":
        got = oracle.color_name_alpha(r.text)[0] if isinstance(r, Sym) else None
        okv = got == color
      elif meth == "get_font_style":
        got = r.name if isinstance(r, EnumMember) else r
        okv = (got == "italic") == italic
      else:
        got = None if r is None else "underline=True" in str(r)
        okv = bool(got) == underline
      if not okv:
        wrong.append((hex(bits), got))
    ctx.check(not wrong, "FIN-midrow", f"SccMidRowCode.{meth}|16 style values", ctx.where(mr.module, f.node),
              "agrees with CEA-608 for all 16 style-bit values", f"SccMidRowCode.{meth} differs from CEA-608 for style bits {wrong[:4]}")
  return evals


def check_classification(ctx, tables, order, guarded):
  """CLS: classify all 65,536 words from the extracted tables in the code's lookup order."""
  ix = ctx.ix
  fe = FuncEval(ix)
  w = ix.cls("ttconv.scc.word:SccWord")
  name_to_kind = {ix.cls(q).name: k for k, q in ENUMS.items()}
  name_to_kind[ix.cls(PAC).name] = "pac"
  kinds_order = [name_to_kind.get(n) for n in order]
  # (which classes _find_code consults, and in which order, is decided below by interpreting it on every code word)
  value_sets = {k: {} for k in ENUMS}
  for kind, tab in tables.items():
    for name, v in tab.items():
      vals = ints_of(v)
      for i, x in enumerate(vals):
        value_sets[kind].setdefault(x, (name, i))
  # disjointness
  kinds = list(ENUMS)
  for i, a in enumerate(kinds):
    for b in kinds[i + 1:]:
      common_vals = set(value_sets[a]) & set(value_sets[b])
      ctx.check(not common_vals, "CLS-disjoint", f"{a}/{b}", w.module.rel, "value sets are disjoint",
                f"the {a} and {b} tables share values {[hex(x) for x in sorted(common_vals)[:4]]}: the class of such a word depends on lookup order")
    in_pac = [x for x in value_sets[a] if oracle.pac(x >> 8, x & 0xFF) is not None]
    ctx.check(not in_pac, "CLS-disjoint", f"{a}/pac", w.module.rel, "disjoint from the PAC domain",
              f"{a} values {[hex(x) for x in in_pac[:4]]} lie inside the PAC domain")
  # PAC predicate per (b1, b2) via the evaluated helpers
  pac = ix.cls(PAC)
  gr, gd = pac.methods["_get_row"], pac.methods["_get_description_bits"]
  pac_cache = {}

  def is_pac(b1, b2):
    k = (b1, b2)
    if k not in pac_cache:
      pac_cache[k] = fe.call(gr, {gr.params[0]: b1, gr.params[1]: b2}) is not None and fe.call(gd, {gd.params[0]: b2}) is not None
    return pac_cache[k]

  from ..consteval import NotConst as _NC, Raised as _Rs
  from ..rules.minieval import MiniEval, Node
  fcode = w.methods["_find_code"]
  # `<CodeClass>.find(...)` is answered from the extracted tables (and the evaluated PAC helpers); everything else of _find_code -
  # guards, dispatch on bytes, `or` chains, a table of look-up functions - is interpreted as written
  hooks = {}
  for cname, k in name_to_kind.items():
    cq = next((q for q in list(ENUMS.values()) + [PAC] if ix.cls(q).name == cname), None)
    fm_ = ix.cls(cq).methods.get("find") if cq else None
    if fm_ is None:
      continue
    if k == "pac":
      hooks[fm_.qualname] = lambda b1_, b2_: (("pac", 2 if b1_ & 0x08 else 1) if is_pac(b1_, b2_) else None)
    else:
      hooks[fm_.qualname] = (lambda v_, k_=k: ((k_, 1 if value_sets[k_][v_][1] == 0 else (2 if value_sets[k_][v_][1] == 1 else None)) if v_ in value_sets[k_] else None))
  me = MiniEval(ix, func_hooks=hooks, node_classes={"SccWord": w})

  def code_class(b1, b2):
    value = b1 * 0x100 + b2
    if value == 0:
      return ("padding", None)
    if b1 >= 0x20:
      return ("text", None)
    if not (0x10 <= b1 <= 0x1F):
      return ("unknown", None)
    word = Node("SccWord", "word", (), value=value, byte_1=b1, byte_2=b2)
    me.steps = 0
    try:
      r = me.call(fcode, [word])
    except (_NC, _Rs) as ex:
      raise AnalysisError(f"SccWord._find_code leaves the interpreted subset for word {hex(value)} ({ex})")
    return r if isinstance(r, tuple) else ("unknown", None)

  wrong = []
  seen_classes = {}
  n = 0
  for word in range(0x10000):
    b1, b2 = (word >> 8) & 0x7F, word & 0x7F
    got = code_class(b1, b2)
    want = oracle.classify(b1, b2)
    n += 1
    seen_classes[got[0]] = seen_classes.get(got[0], 0) + 1
    if got != want:
      wrong.append((word, got, want))
  ctx.extra["words_classified"] = n
  ctx.extra["class_histogram"] = seen_classes
  ctx.extra["exhaustive"] = True
  ctx.check(not wrong, "CLS", "all 65,536 words|class and channel", w.module.rel,
            f"_find_code evaluated on every code word with find() answered from the tables: every word has exactly the class and channel CEA-608 gives ({seen_classes})",
            "words decoded differently from CEA-608: " + "; ".join(f"{hex(wd)}: got {g}, want {wt}" for wd, g, wt in wrong[:5]) + f" ({len(wrong)} words)")
  return n


def check_disassembly(ctx):
  ix = ctx.ix
  f = ix.func("ttconv.scc.disassembly:get_scc_word_disassembly")
  ctx.unit(f.module)
  finds = set()
  for n in own_nodes(f.node):
    if isinstance(n, ast.Call) and isinstance(n.func, ast.Attribute) and n.func.attr == "find":
      finds.add(unparse(n.func.value))
  need = {ix.cls(q).name for q in ENUMS.values()} | {ix.cls(PAC).name}
  for name in sorted(need):
    ctx.check(name in finds, "DSP-disasm", f"get_scc_word_disassembly|{name}", ctx.where(f.module, f.node), f"{name} has a branch",
              f"the disassembler never looks a word up in {name}: such words are rendered as unknown")
  # every path returns a string expression (no bare return / fall-through)
  from ..cfg import CFG
  cfg = CFG(f.node)
  fall = [p for (p, lab) in cfg.nodes[cfg.exit].pred if not isinstance(cfg.nodes[p].ast, ast.Return)]
  bare = [n for n in own_nodes(f.node) if isinstance(n, ast.Return) and (n.value is None or (isinstance(n.value, ast.Constant) and n.value.value is None))]
  ctx.check(not fall and not bare, "DSP-disasm", "get_scc_word_disassembly|every path returns a string", ctx.where(f.module, f.node),
            "no fall-through and no bare return", "some path through the disassembler returns None: a word would not be rendered")
  # the unknown-word fallback exists for code bytes
  ctx.check('"{??}"' in unparse(f.node).replace("'", '"'), "DSP-disasm", "get_scc_word_disassembly|fallback for unknown codes", ctx.where(f.module, f.node),
            "unknown code words are rendered as {??}", "the disassembler has no rendering for unknown code words")


def check_disassembly_colors(ctx, tables):
  """DSP-disasm-colors: every colour a code table can produce has a mnemonic branch in
  get_color_disassembly (compared there through NamedColors.<name>.value.components[:-1])."""
  import re
  ix = ctx.ix
  ce = ConstEval(ix)
  f = ix.func("ttconv.scc.disassembly:get_color_disassembly")
  ctx.unit(f.module)
  sp = ix.mod("ttconv.style_properties")
  named = ix.cls("ttconv.style_properties:NamedColors")
  rgb_of = {}
  for name, vexpr in ix.enum_members(named):
    m = re.fullmatch(r"ColorType\(\((\d+), (\d+), (\d+), (\d+)\)\)", unparse(vexpr))
    if m:
      rgb_of[name] = tuple(int(x) for x in m.groups()[:3])
  tested = set()
  for n in own_nodes(f.node):
    if isinstance(n, ast.Compare):
      for a in ast.walk(n):
        if isinstance(a, ast.Attribute) and unparse(a.value).endswith("NamedColors") and a.attr in rgb_of:
          tested.add(rgb_of[a.attr])
        # a loop variable that ranges over a column of a constant table of (colour, mnemonic) rows
        if isinstance(a, ast.Name):
          from ..core import ancestors
          for lp in ancestors(n):
            if isinstance(lp, ast.For):
              tnames = [t.id if isinstance(t, ast.Name) else None for t in (lp.target.elts if isinstance(lp.target, (ast.Tuple, ast.List)) else [lp.target])]
              if a.id in tnames:
                r = ix.resolve(f.module, lp.iter, cls=f.cls, func=f) if isinstance(lp.iter, (ast.Name, ast.Attribute)) else None
                table = r[2] if isinstance(r, tuple) and r[0] == "assign" else (lp.iter if isinstance(lp.iter, (ast.Tuple, ast.List)) else None)
                if isinstance(table, (ast.Tuple, ast.List)):
                  col = tnames.index(a.id)
                  for row in table.elts:
                    cell = row.elts[col] if isinstance(row, (ast.Tuple, ast.List)) and col < len(row.elts) and isinstance(lp.target, (ast.Tuple, ast.List)) else row
                    for x in ast.walk(cell):
                      if isinstance(x, ast.Attribute) and unparse(x.value).endswith("NamedColors") and x.attr in rgb_of:
                        tested.add(rgb_of[x.attr])
  ctx.floor("DSP-disasm-colors", "colours with a mnemonic", len(tested), 7)
  producible = {}
  for name, v in tables["attribute"].items():
    color = next((x for x in v if isinstance(x, Sym)), None)
    m = re.fullmatch(r"ColorType\(\((\d+), (\d+), (\d+), (\d+)\)\)", color.text) if color is not None else None
    if m and int(m.group(4)) != 0:
      producible.setdefault(tuple(int(x) for x in m.groups()[:3]), []).append(f"SccAttributeCode.{name}")
  cm = ix.mod(CODES)
  colmap = ce.ev(cm, ix.toplevel[cm.name]["SCC_COLOR_MAPPING"][2])
  for bits, v in colmap.items():
    m = re.fullmatch(r"ColorType\(\((\d+), (\d+), (\d+), (\d+)\)\)", v.text) if isinstance(v, Sym) else None
    if m:
      producible.setdefault(tuple(int(x) for x in m.groups()[:3]), []).append(f"SCC_COLOR_MAPPING[{hex(bits)}]")
  for rgb, srcs in sorted(producible.items()):
    ctx.check(rgb in tested, "DSP-disasm-colors", f"get_color_disassembly|rgb {rgb}", ctx.where(f.module, f.node), f"{srcs[0]}... has a mnemonic",
              f"colour {rgb} produced by {', '.join(srcs[:3])} has no mnemonic branch in get_color_disassembly: such words are disassembled without their colour")


def run(ctx):
  # words of other channels / fields never reach the decoder (as in C08)
  from . import c08 as _c08
  _c08.check_channel_and_frames(ctx)
  tables = extract_tables(ctx)
  check_tables(ctx, tables)
  order, guarded = check_shapes(ctx)
  evals = check_fin(ctx)
  n = check_classification(ctx, tables, order, guarded)
  check_disassembly(ctx)
  check_disassembly_colors(ctx, tables)
  ctx.extra["finite_domain_evaluations"] = evals + n
  common.check_known_none(ctx, [n for n in ctx.ix.modules if n.startswith("ttconv.scc")])
  common.check_regexes(ctx, ["ttconv.scc.line", "ttconv.time_code"], whole=False, floor=0)
  common.check_history_independence(ctx, [n for n in ctx.ix.modules if n.startswith("ttconv.scc")])
