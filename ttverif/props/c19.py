"""C19 - `tt convert` equals the library pipeline, honours options, is deterministic."""
from __future__ import annotations

import ast

from ..cfg import CFG, fact_holds_at
from ..consteval import ConstEval
from ..core import AnalysisError, ClassInfo, FuncInfo, own_nodes, parent, short, unparse
from ..rules import dsp, lint, match, shape
from . import common

EXPLANATION = (
  "(FIN-decoder) the decoders of the configuration fields (max_row_count, program_start_tc, safe_area, the boolean options), interpreted on raw JSON values, accept exactly the documented domain - digit strings, 0, negative numbers, \"true\" are configuration errors; "
  "(LINT-o) in the configuration modules and tt.py no value looked up in a mapping (configuration dictionary, parsed JSON) is replaced by a default through a truthiness test: a configured 0, False or empty string is a value, not an absence; "
  "Decides these clauses for every invocation: (TYPE) the file type comes from --itype/--otype, else from the extension with the "
  "leading dot removed, lower-cased on both paths before the FileTypes lookup; (DSP-types) every FileTypes member has a reader branch, "
  "and a writer branch or falls into the else that logs and calls sys.exit; each branch calls that format's reader / writer with the "
  "configuration class of that module; (CONFIG) --config_file is applied after --config so the file wins, and every module "
  "configuration is parsed from the same JSON object by its own class name, all names distinct; (ORD) the document language is "
  "applied after the reader and before the filters, filters run in argument order, each constructed from its own configuration "
  "class, before the writer; (OUT) every open-for-write of the output path comes after the writer has produced the document in the "
  "same branch, and the unsupported-type paths exit before any output is opened; (TAB-decoders) every configuration field that has "
  "a decoder uses a validating one (not a bare coercion such as bool), and range checks are satisfiable; (DET) no iteration over a "
  "set / frozenset, no id/hash/random/time/uuid/getpid in the modules reachable from convert, and no mutation of module- or "
  "class-level containers outside the tabled, idempotent ones."
  " (FIN-decoders) decode_bool, the fps decoder and the safe-area decoder accept the documented values with the documented meaning and reject near misses (probe tables evaluated with the finite evaluator);"
  " (CONFIG) the configuration file replaces - is not merged over - the inline configuration;"
  ' (PARAM-pure) the reader / writer / filter entry points do not mutate their configuration argument; (STATE-alias / STATE-global) no module- or class-level state is written on the conversion path;'
  " (FIN-config) the statements of convert() that produce the JSON object given to read_config_from_json, evaluated for the four combinations of --config / --config_file, yield the file's object when a file is given, else the inline object, else None;"
  ' (REGEX-whole) the patterns that configuration decoders (and the time-code parsers behind them) apply with `.match` are end-anchored, so a configuration value with trailing text is rejected; (LINT-m) no pattern lists literal alternatives beside an unescaped `.` (which would accept any separator character);'
  ' (LOOP-break / LINT-l / STATE-share / ITEM-source) the package-wide contradiction lints on tt.py and config.py: in particular the filter loop is not left by a bare `break` on an unknown filter name, which would drop the filters named after it;'
  + common.SHARED_CLAUSES['color']
)
RULE_TEXT = "per FileTypes member x {reader, writer}, per configuration class, per output-opening statement, per config field, per set iteration / global mutation"
UNDECIDED = ["byte identity with the library pipeline as a whole", "that every decoder rejects exactly the undocumented values (decided for the probe tables of decode_bool, the fps decoder and the safe-area decoder only)",
             "GeneralConfiguration / ISDConfiguration fields have no decoder at all (observation O2)"]
TRUSTED = ["table of reader / writer modules per file type", "tabled idempotent process-global effects: et.register_namespace, logging configuration, filter registry"]

TT = "ttconv.tt"
READERS = {"TTML": ("imsc_reader.to_model", None), "SCC": ("scc_reader.to_model", "SccReaderConfiguration"), "STL": ("stl_reader.to_model", "STLReaderConfiguration"),
           "SRT": ("srt_reader.to_model", None), "VTT": ("vtt_reader.to_model", None)}
WRITERS = {"TTML": ("imsc_writer.from_model", "IMSCWriterConfiguration"), "SRT": ("srt_writer.from_model", "SRTWriterConfiguration"), "VTT": ("vtt_writer.from_model", "VTTWriterConfiguration")}
NONDET_CALLS = {"id", "hash", "random.random", "random.randint", "random.choice", "time.time", "time.time_ns", "uuid.uuid4", "uuid.uuid1", "os.getpid", "datetime.now", "datetime.datetime.now"}
STATE_OK = {
  "progress.display_progress_bar": "console progress handler switch (logging only; never reaches the output file)",
}
GLOBAL_OK = {
  "DocumentFilter._all_filters": "filter registry filled once per subclass at import time (__init_subclass__)",
}


FORMAT_PACKAGE = {"ttml": "imsc"}  # FileTypes value -> package name when they differ


class Convert:
  """Roles of the locals of tt.convert, discovered from the code (no names are assumed)."""

  def __init__(self, ctx):
    ix = ctx.ix
    self.ix = ix
    self.f = f = ix.func(f"{TT}:convert")
    self.args = f.params[0]
    self.body = f.node.body
    a = self.args
    self.cfg_inline = self.cfg_file = None
    self.type_vars = {}
    self.path_vars = {"input": {f"{a}.input"}, "output": {f"{a}.output"}}
    ext_vars = {}
    for st in own_nodes(f.node):
      if isinstance(st, ast.Assign) and len(st.targets) == 1:
        t, v = st.targets[0], st.value
        vt = unparse(v)
        if isinstance(t, ast.Name):
          if vt == f"{a}.input":
            self.path_vars["input"].add(t.id)
          if vt == f"{a}.output":
            self.path_vars["output"].add(t.id)
          if isinstance(v, ast.Call) and unparse(v.func) == "json.loads" and v.args and unparse(v.args[0]) == f"{a}.config":
            self.cfg_inline = (t.id, st)
          if any(isinstance(x, ast.Call) and unparse(x.func) == "json.load" for x in ast.walk(v)):
            self.cfg_file = (t.id, st)
        if isinstance(t, ast.Tuple) and isinstance(v, ast.Call) and unparse(v.func) == "os.path.splitext" and len(t.elts) == 2 and isinstance(t.elts[1], ast.Name):
          ext_vars[t.elts[1].id] = unparse(v.args[0])
    for st in own_nodes(f.node):
      if isinstance(st, ast.Assign) and len(st.targets) == 1 and isinstance(st.targets[0], ast.Name) and isinstance(st.value, ast.Call):
        r = ix.resolve(f.module, st.value.func, func=f)
        if getattr(r, "qualname", None) == f"{TT}:FileTypes.get_file_type" and len(st.value.args) == 2:
          t0, t1 = unparse(st.value.args[0]), unparse(st.value.args[1])
          src = ext_vars.get(t1)
          role = "reader" if t0 == f"{a}.itype" else "writer" if t0 == f"{a}.otype" else None
          if role is not None:
            self.type_vars[role] = st.targets[0].id
          if role is None or src not in self.path_vars["input" if role == "reader" else "output"]:
            self.type_vars.setdefault("bad", []).append(short(st, 80))

  def top(self, node):
    for i, st in enumerate(self.body):
      if any(x is node for x in ast.walk(st)):
        return i
    return None

  def chain(self, what):
    var = self.type_vars.get(what)
    if var is None:
      raise AnalysisError(f"convert: the {what} type variable (FileTypes.get_file_type(args.{'itype' if what == 'reader' else 'otype'}, <extension>)) was not found")

    def member(test):
      if isinstance(test, ast.Compare) and len(test.ops) == 1 and isinstance(test.ops[0], (ast.Is, ast.Eq)) and unparse(test.left) == var:
        r = unparse(test.comparators[0])
        if r.startswith("FileTypes."):
          return r.split(".")[-1]
      return None
    def table_members(test):
      """`var in TABLE` with TABLE a module-level dict keyed by FileTypes members -> (TABLE name, {member: value expression})"""
      if isinstance(test, ast.Compare) and len(test.ops) == 1 and isinstance(test.ops[0], ast.In) and unparse(test.left) == var and isinstance(test.comparators[0], (ast.Name, ast.Dict)):
        c0 = test.comparators[0]
        d = ix.deref(f.module, c0, func=f) if isinstance(c0, ast.Name) else c0
        if isinstance(d, ast.Dict) and d.keys and all(k is not None and unparse(k).startswith("FileTypes.") for k in d.keys):
          return unparse(c0), {unparse(k).split(".")[-1]: v for k, v in zip(d.keys, d.values)}
      return None

    def specialise(body, tname, value):
      """the branch body for one member: TABLE[var] replaced by that member's row, rows unpacked into locals read through"""
      from ..core import clone as _clone

      class _T(ast.NodeTransformer):
        def visit_Subscript(self, n):
          self.generic_visit(n)
          if unparse(n.value) == tname and unparse(n.slice) == var:
            return _clone(value)
          return n
      out = [_T().visit(_clone(st)) for st in body]
      binds = {}
      for st in out:
        for n in ast.walk(st):
          if isinstance(n, ast.Assign) and len(n.targets) == 1 and isinstance(n.targets[0], ast.Tuple) and isinstance(n.value, ast.Tuple) and len(n.targets[0].elts) == len(n.value.elts):
            for t_, v_ in zip(n.targets[0].elts, n.value.elts):
              if isinstance(t_, ast.Name):
                binds[t_.id] = v_
          elif isinstance(n, ast.Assign) and len(n.targets) == 1 and isinstance(n.targets[0], ast.Name) and isinstance(n.value, (ast.Name, ast.Attribute)) and n.targets[0].id not in binds:
            pass

      class _R(ast.NodeTransformer):
        def visit_Name(self, n):
          if isinstance(n.ctx, ast.Load) and n.id in binds:
            return _clone(binds[n.id])
          return n
      out = [_R().visit(st) for st in out]
      for st in out:
        ast.fix_missing_locations(st)
        for par_ in ast.walk(st):
          for ch_ in ast.iter_child_nodes(par_):
            ch_._parent = par_
      return out
    ix, f = self.ix, self.f
    for st in self.body:
      if isinstance(st, ast.If) and (member(st.test) or table_members(st.test)):
        out, cur = [], st
        while True:
          tm = table_members(cur.test)
          if tm is not None:
            for mname, val in tm[1].items():
              out.append((mname, specialise(cur.body, tm[0], val)))
          else:
            out.append((member(cur.test), cur.body))
          if len(cur.orelse) == 1 and isinstance(cur.orelse[0], ast.If) and (member(cur.orelse[0].test) or table_members(cur.orelse[0].test)):
            cur = cur.orelse[0]
          else:
            out.append((None, cur.orelse))
            break
        return st, out
    raise AnalysisError(f"convert: dispatch chain on `{var}` not found")


def config_classes_of(ix, modname):
  """ModuleConfiguration subclasses the module refers to (by import)."""
  base = ix.cls("ttconv.config:ModuleConfiguration")
  m = ix.modules.get(modname)
  out = set()
  if m is None:
    return out
  for node in ast.walk(m.tree):
    if isinstance(node, (ast.Name, ast.Attribute)):
      r = ix.resolve(m, node)
      if isinstance(r, ClassInfo) and r is not base and ix.is_subclass(r, base):
        out.add(r.qualname)
  return out


def branch_facts(cv: Convert, body, cfgvar):
  """(resolved reader/writer calls, {local: config class qualname parsed from cfgvar})"""
  ix, f = cv.ix, cv.f
  calls, parsed = [], {}
  for st in body:
    for n in ast.walk(st):
      if isinstance(n, ast.Call):
        r = ix.resolve(f.module, n.func, func=f)
        if isinstance(r, FuncInfo):
          calls.append((r, n))
      if isinstance(n, ast.Assign) and len(n.targets) == 1 and isinstance(n.targets[0], ast.Name) and isinstance(n.value, ast.Call):
        r = ix.resolve(f.module, n.value.func, func=f)
        if getattr(r, "qualname", None) == f"{TT}:read_config_from_json" and len(n.value.args) == 2:
          c = ix.resolve(f.module, n.value.args[0], func=f)
          parsed[n.targets[0].id] = (c.qualname if isinstance(c, ClassInfo) else unparse(n.value.args[0]), unparse(n.value.args[1]))
  return calls, parsed


def check_types(ctx):
  ix = ctx.ix
  g = ix.func(f"{TT}:FileTypes.get_file_type")
  ctx.unit(g.module)
  ft = ix.cls(f"{TT}:FileTypes")
  tparam, eparam = g.params[0], g.params[1]
  rets = [r for r in own_nodes(g.node) if isinstance(r, ast.Return) and isinstance(r.value, ast.Call) and ix.resolve(g.module, r.value.func, cls=ft, func=g) is ft]
  ctx.floor("TYPE", "FileTypes(...) returns in get_file_type", len(rets), 2)
  for r in rets:
    a = r.value.args[0]
    ok = isinstance(a, ast.Call) and isinstance(a.func, ast.Attribute) and a.func.attr in ("lower", "casefold") and not a.args
    ctx.check(ok, "TYPE", f"{g.qualname}|{short(r.value, 50)} is case-insensitive", ctx.where(g.module, r),
              "argument passes through .lower()", f"`{short(r.value, 50)}` looks the type up without lower-casing it: --itype TTML / a .SRT extension is rejected")
  # explicit type wins: the return that uses the extension is dominated by `<type> is None`, the one using the type is not
  cfg = CFG(g.node)
  dom = cfg.dominators()
  for r in rets:
    uses_ext = eparam in {n.id for n in ast.walk(r.value) if isinstance(n, ast.Name)}
    uses_type = tparam in {n.id for n in ast.walk(r.value) if isinstance(n, ast.Name)}
    nid = cfg.node_of(r)

    def type_is_none(test, pol):
      parts = test.values if isinstance(test, ast.BoolOp) and isinstance(test.op, ast.And) and pol else [test]
      for part in parts:
        isn = match.is_none_test(part, lambda e: isinstance(e, ast.Name) and e.id == tparam)
        if isn is not None and isn == pol:
          return True
      return False
    guarded = fact_holds_at(cfg, nid, type_is_none)
    if uses_ext and not uses_type:
      ctx.check(guarded, "TYPE", f"{g.qualname}|the extension is used only when no explicit type is given", ctx.where(g.module, r), f"dominated by `{tparam} is None`",
                "the file extension is consulted even when --itype/--otype is given: the explicit type no longer wins")
      strip = [s for s in own_nodes(g.node) if isinstance(s, ast.Assign) and unparse(s.targets[0]) == eparam and isinstance(s.value, ast.Subscript) and
               unparse(s.value.slice).replace(" ", "") in ("1:", f"1:len({eparam})", "1:None")]
      dot = [s for s in own_nodes(g.node) if isinstance(s, ast.Compare) and unparse(s).replace('"', "'") == f"{eparam}[0] == '.'"]
      ctx.check(len(strip) == 1 and len(dot) == 1, "TYPE", f"{g.qualname}|exactly the leading dot of the extension is removed", ctx.where(g.module, r), f"`{eparam}[0] == '.'` then `{eparam}[1:]`",
                "the leading `.` of the file extension is not removed exactly (os.path.splitext returns `.srt`)")
    elif uses_type:
      ctx.check(not guarded, "TYPE", f"{g.qualname}|an explicit type is used directly", ctx.where(g.module, r), "not under `is None`", "the explicit type is only used when it is None")
  ce = ConstEval(ix)
  members = {n: ce.try_ev(ft.module, v, ft) for n, v in ix.enum_members(ft)}
  ctx.check(all(isinstance(v, str) and v == v.lower() for v in members.values()) and len(set(members.values())) == len(members), "TYPE", f"{ft.qualname}|member values are distinct lower-case strings",
            ctx.where(ft.module, ft.node), f"{members}", f"FileTypes values {members} are not distinct lower-case strings although the lookup lower-cases its argument")
  cv = Convert(ctx)
  conv = cv.f
  ctx.check("bad" not in cv.type_vars and set(cv.type_vars) >= {"reader", "writer"}, "TYPE", f"{conv.qualname}|reader type from (itype, input extension), writer type from (otype, output extension)", ctx.where(conv.module, conv.node),
            f"{cv.type_vars}", f"the type lookups do not pair --itype with the input path's extension and --otype with the output path's: {cv.type_vars.get('bad')}")
  cfgvar = cv.cfg_inline[0] if cv.cfg_inline else None
  if cfgvar is None:
    # the JSON object is loaded by a helper: it is the local that every read_config_from_json call of convert reads
    second = {unparse(c_.args[1]) for c_ in own_nodes(conv.node) if isinstance(c_, ast.Call) and len(c_.args) == 2
              and getattr(ix.resolve(conv.module, c_.func, func=conv), "qualname", None) == f"{TT}:read_config_from_json"}
    if len(second) != 1:
      raise AnalysisError("convert: the local that holds the JSON configuration was not identified")
    cfgvar = second.pop()
  for what, fname, sub in (("reader", "to_model", "reader"), ("writer", "from_model", "writer")):
    st, ch = cv.chain(what)
    handled = {}
    for k, body in ch:
      if k is not None:
        if k in handled:
          ctx.bad("DSP-types", f"{conv.qualname}|{what} branch for {k} appears twice", ctx.where(conv.module, body[0]), f"two branches test FileTypes.{k}; the second is dead")
        handled.setdefault(k, body)
    else_body = [body for k, body in ch if k is None][0]
    last = else_body[-1] if else_body else None
    exits = last is not None and isinstance(last, ast.Expr) and isinstance(last.value, ast.Call) and unparse(last.value.func) in ("sys.exit", "exit", "raise SystemExit")
    exits = exits or (last is not None and isinstance(last, ast.Raise))
    ctx.check(exits, "DSP-types", f"{conv.qualname}|unsupported {what} type ends the conversion with an error", ctx.where(conv.module, st), "else: ... sys.exit(<message>)",
              f"an unsupported {what} type no longer ends the conversion with sys.exit(<message>) / an exception")
    if exits and isinstance(last, ast.Expr):
      ctx.check(bool(last.value.args) and not (isinstance(last.value.args[0], ast.Constant) and last.value.args[0].value in (0, None)), "DSP-types", f"{conv.qualname}|unsupported {what} type exits with a failure status",
                ctx.where(conv.module, last), "sys.exit(<non-empty message>)", "sys.exit is called with a success status for an unsupported type")
    for mname, val in members.items():
      pkg = FORMAT_PACKAGE.get(val, val)
      target = ix.func_opt(f"ttconv.{pkg}.{sub}:{fname}")
      key = f"{conv.qualname}|{what} for {mname}"
      if target is None:
        ctx.check(mname not in handled, "DSP-types", key + "|unsupported", ctx.where(conv.module, st), f"ttconv.{pkg}.{sub} does not exist: falls into the error branch",
                  f"convert has a {what} branch for {mname} but ttconv.{pkg}.{sub}.{fname} does not exist")
        continue
      body = handled.get(mname)
      if body is None:
        ctx.bad("DSP-types", key, ctx.where(conv.module, st), f"FileTypes.{mname} has no {what} branch in convert although ttconv.{pkg}.{sub}.{fname} exists")
        continue
      calls, parsed = branch_facts(cv, body, cfgvar)
      mine = [(r, n) for r, n in calls if r is target]
      foreign = [r.qualname for r, n in calls if r.name == fname and r is not target]
      ctx.check(len(mine) == 1 and not foreign, "DSP-types", key, ctx.where(conv.module, body[0]), f"calls {target.qualname} once",
                f"the {what} branch for {mname} must call {target.qualname} exactly once and no other format's {fname}; calls found: {[r.qualname for r, _ in calls if r.name == fname]}")
      if len(mine) != 1:
        continue
      call = mine[0][1]
      # configuration argument
      params = target.params
      cfg_idx = next((i for i, p_ in enumerate(params) if "config" in p_), None)
      expected = config_classes_of(ix, target.module.name)
      arg = None
      if cfg_idx is not None:
        if cfg_idx < len(call.args):
          arg = call.args[cfg_idx]
        for kw in call.keywords:
          if kw.arg == params[cfg_idx]:
            arg = kw.value
      if expected:
        ok = isinstance(arg, ast.Name) and arg.id in parsed and parsed[arg.id][0] in expected and parsed[arg.id][1] == cfgvar
        ctx.check(ok, "DSP-types", key + "|configuration", ctx.where(conv.module, call), f"{sorted(expected)} parsed from `{cfgvar}`",
                  f"the {what} for {mname} must receive the configuration parsed as {sorted(expected)} from `{cfgvar}`; it receives `{unparse(arg) if arg is not None else 'nothing'}`"
                  + (f" = {parsed[arg.id]}" if isinstance(arg, ast.Name) and arg.id in parsed else ""))
      else:
        ok = arg is None or (isinstance(arg, ast.Constant) and arg.value is None)
        ctx.check(ok, "DSP-types", key + "|configuration", ctx.where(conv.module, call), "this module has no configuration", f"the {what} for {mname} has no configuration class but receives `{unparse(arg) if arg is not None else ''}`")
      # the document argument of writers is the document the readers produced
      if what == "writer":
        ctx.check(bool(call.args) and unparse(call.args[0]) == model_var(cv), "DSP-types", key + "|writes the document that was read and filtered", ctx.where(conv.module, call), f"first argument `{model_var(cv)}`",
                  f"the writer for {mname} is not given the document variable `{model_var(cv)}` the readers assign")


def model_var(cv: Convert):
  """The local every reader branch assigns the reader's result to."""
  if getattr(cv, "_model_var", None):
    return cv._model_var
  st, ch = cv.chain("reader")
  names = set()
  for k, body in ch:
    if k is None:
      continue
    for s in body:
      for n in ast.walk(s):
        if isinstance(n, ast.Assign) and isinstance(n.value, ast.Call) and len(n.targets) == 1 and isinstance(n.targets[0], ast.Name):
          r = cv.ix.resolve(cv.f.module, n.value.func, func=cv.f)
          if isinstance(r, FuncInfo) and r.name == "to_model":
            names.add(n.targets[0].id)
  if len(names) != 1:
    raise AnalysisError(f"convert: reader branches assign the document to {sorted(names)}")
  cv._model_var = names.pop()
  return cv._model_var


def check_config(ctx):
  ix = ctx.ix
  cv = Convert(ctx)
  conv = cv.f
  ctx.unit(conv.module)
  ok = cv.cfg_inline is not None and cv.cfg_file is not None
  if not ok:
    raise AnalysisError("convert: json.loads(args.config) / json.load(<file>) assignments not found")
  vi, si = cv.cfg_inline
  vf, sf = cv.cfg_file
  ti, tf = cv.top(si), cv.top(sf)
  gi, gf = cv.body[ti], cv.body[tf]
  a = cv.args
  # (which of the two sources wins is decided by evaluation: FIN-config below)
  # the file that is loaded is the one named by --config_file
  w = [n for n in ast.walk(gf) if isinstance(n, ast.With)]
  opened = w and unparse(w[0].items[0].context_expr.args[0]) == f"{a}.config_file" if w and isinstance(w[0].items[0].context_expr, ast.Call) and w[0].items[0].context_expr.args else False
  ctx.check(bool(opened), "CONFIG", f"{conv.qualname}|the file named by --config_file is the one loaded", ctx.where(conv.module, gf), f"open({a}.config_file)", "the configuration file that is opened is not args.config_file")
  # every parse call uses that variable and comes after both
  n = 0
  for c in own_nodes(conv.node):
    if isinstance(c, ast.Call) and getattr(ix.resolve(conv.module, c.func, func=conv), "qualname", None) == f"{TT}:read_config_from_json":
      n += 1
      ctx.check(len(c.args) == 2 and unparse(c.args[1]) == vi and cv.top(c) > tf, "CONFIG", f"{conv.qualname}|{short(c, 60)} reads the merged configuration", ctx.where(conv.module, c), f"second argument `{vi}`, after both sources",
                f"`{short(c, 60)}` does not read the configuration variable `{vi}` after both sources were applied")
  ctx.floor("CONFIG", "read_config_from_json calls in convert", n, 6)
  r = ix.func(f"{TT}:read_config_from_json")
  cp, jp = r.params[0], r.params[1]
  rets = [x for x in own_nodes(r.node) if isinstance(x, ast.Return) and x.value is not None and not (isinstance(x.value, ast.Constant) and x.value.value is None)]
  sel = [x for x in own_nodes(r.node) if isinstance(x, ast.Call) and isinstance(x.func, ast.Attribute) and x.func.attr == "get" and unparse(x.func.value) == jp and x.args and unparse(x.args[0]) == f"{cp}.name()"]
  okr = len(rets) == 1 and isinstance(rets[0].value, ast.Call) and unparse(rets[0].value.func) == f"{cp}.parse" and len(sel) == 1
  ctx.check(okr, "CONFIG", f"{r.qualname}|section selected by the class's own name, parsed by the class", ctx.where(r.module, r.node),
            f"{jp}.get({cp}.name()) -> {cp}.parse(...)", "read_config_from_json no longer selects the JSON section by config_class.name() and parses it with config_class.parse")
  # distinct names
  base = ix.cls("ttconv.config:ModuleConfiguration")
  names = {}
  for c in ix.all_subclasses(base):
    nm = c.methods.get("name")
    if nm is None:
      continue
    rs = [x for x in own_nodes(nm.node) if isinstance(x, ast.Return)]
    v = ConstEval(ix).try_ev(c.module, rs[0].value, c) if rs else None
    names.setdefault(v, []).append(c.short)
  ctx.floor("CONFIG", "module configuration classes", sum(len(v) for v in names.values()), 7)
  for v, cs in sorted(names.items(), key=lambda kv: str(kv[0])):
    ctx.check(isinstance(v, str) and len(cs) == 1, "CONFIG", f"ttconv.config|section name {v!r}", "src/main/python/ttconv/config.py", f"{cs[0]}",
              f"configuration section name {v!r} is used by {cs}: one module's settings would be parsed as another's")


def check_config_precedence(ctx):
  """FIN-config: the statements of convert() that produce the JSON object handed to read_config_from_json, evaluated for
  the four combinations of --config / --config_file given or not, with two distinguishable JSON objects: the result is
  the file's object when a file is given, else the inline object, else None - the file replaces, it is not merged."""
  import copy as _copy
  from ..consteval import ConstEval, NotConst
  ix = ctx.ix
  cv = Convert(ctx)
  f = cv.f
  a = cv.args
  reads = [c for c in own_nodes(f.node) if isinstance(c, ast.Call) and getattr(ix.resolve(f.module, c.func, func=f), "qualname", None) == f"{TT}:read_config_from_json" and len(c.args) == 2]
  if not reads:
    raise AnalysisError("convert: no read_config_from_json(<class>, <json>) call found")
  reads.sort(key=lambda c: c.lineno)
  first = cv.top(reads[0])
  var = reads[0].args[1]
  if not isinstance(var, ast.Name) or any(unparse(c.args[1]) != var.id for c in reads):
    raise AnalysisError("convert: the read_config_from_json calls do not all read one local variable")
  INLINE = {"general": {"document_lang": "fr"}, "imsc_writer": {"time_format": "frames"}}
  FILE = {"imsc_writer": {"time_format": "clock_time"}, "lcd": {"safe_area": 5}}
  ce = ConstEval(ix, symbolic_ok=True)

  class _Undecided(Exception):
    pass

  def ev(e, env):
    if isinstance(e, ast.Call) and unparse(e.func) == "json.loads":
      return _copy.deepcopy(INLINE)
    if isinstance(e, ast.Call) and unparse(e.func) == "json.load":
      return _copy.deepcopy(FILE)
    if isinstance(e, ast.Name) and e.id in env:
      return env[e.id]
    if isinstance(e, ast.Attribute) and isinstance(e.value, ast.Name) and e.value.id == a and hasattr(env.get(a), e.attr):
      return getattr(env[a], e.attr)
    if isinstance(e, ast.Constant):
      return e.value
    if isinstance(e, ast.UnaryOp) and isinstance(e.op, ast.Not):
      return not ev(e.operand, env)
    if isinstance(e, ast.BoolOp):
      v = None
      for x in e.values:
        v = ev(x, env)
        if (isinstance(e.op, ast.And) and not v) or (isinstance(e.op, ast.Or) and v):
          return v
      return v
    if isinstance(e, ast.Compare) and len(e.ops) == 1 and isinstance(e.ops[0], (ast.Is, ast.IsNot, ast.Eq, ast.NotEq)):
      l, r = ev(e.left, env), ev(e.comparators[0], env)
      same = (l is r) if isinstance(e.ops[0], (ast.Is, ast.IsNot)) else (l == r)
      return same if isinstance(e.ops[0], (ast.Is, ast.Eq)) else not same
    if isinstance(e, ast.Call) and unparse(e.func) in ("dict", "copy.copy", "copy.deepcopy") and len(e.args) == 1:
      return _copy.deepcopy(ev(e.args[0], env))
    if isinstance(e, ast.Dict) and all(k is None for k in e.keys):
      out = {}
      for v in e.values:
        x = ev(v, env)
        if not isinstance(x, dict):
          raise _Undecided(unparse(e))
        out.update(x)
      return out
    if isinstance(e, ast.BinOp) and isinstance(e.op, ast.BitOr):
      l, r = ev(e.left, env), ev(e.right, env)
      if isinstance(l, dict) and isinstance(r, dict):
        return {**l, **r}
    if isinstance(e, ast.IfExp):
      return ev(e.body if ev(e.test, env) else e.orelse, env)
    try:
      return ce.ev(f.module, e, None, {k: v for k, v in env.items()})
    except NotConst as ex:
      raise _Undecided(f"{short(e, 50)}: {ex}")

  def run(stmts, env):
    for st in stmts:
      if (isinstance(st, ast.Expr) and isinstance(st.value, ast.Constant)) or isinstance(st, ast.Pass):
        continue
      if isinstance(st, ast.If):
        run(st.body if ev(st.test, env) else st.orelse, env)
      elif isinstance(st, ast.With):
        for it in st.items:
          if isinstance(it.optional_vars, ast.Name):
            env[it.optional_vars.id] = "<file>"
        run(st.body, env)
      elif isinstance(st, (ast.Assign, ast.AnnAssign)) and getattr(st, "value", None) is not None:
        tg = st.targets[0] if isinstance(st, ast.Assign) else st.target
        if isinstance(tg, ast.Name):
          env[tg.id] = ev(st.value, env)
        elif isinstance(tg, ast.Subscript) and isinstance(tg.value, ast.Name) and isinstance(env.get(tg.value.id), dict):
          env[tg.value.id][ev(tg.slice, env)] = ev(st.value, env)
        else:
          raise _Undecided(short(st, 50))
      elif isinstance(st, ast.Expr) and isinstance(st.value, ast.Call) and isinstance(st.value.func, ast.Attribute) and isinstance(st.value.func.value, ast.Name) \
          and isinstance(env.get(st.value.func.value.id), dict) and st.value.func.attr in ("update", "setdefault", "pop", "clear"):
        getattr(env[st.value.func.value.id], st.value.func.attr)(*[ev(x, env) for x in st.value.args])
      elif isinstance(st, ast.For) and isinstance(st.target, (ast.Name, ast.Tuple)):
        it = ev(st.iter.func.value, env) if isinstance(st.iter, ast.Call) and isinstance(st.iter.func, ast.Attribute) and st.iter.func.attr in ("items", "keys", "values") else ev(st.iter, env)
        if not isinstance(it, (dict, list, tuple)):
          raise _Undecided(short(st.iter, 50))
        seq = list(getattr(it, st.iter.func.attr)()) if isinstance(it, dict) and isinstance(st.iter, ast.Call) and isinstance(st.iter.func, ast.Attribute) and st.iter.func.attr in ("items", "keys", "values") else list(it)
        for x in seq:
          if isinstance(st.target, ast.Name):
            env[st.target.id] = x
          else:
            for t_, v_ in zip(st.target.elts, x):
              env[t_.id] = v_
          run(st.body, env)
      else:
        raise _Undecided(short(st, 60))
  # the slice of top-level statements before the first read that the variable depends on
  before = cv.body[:first]
  needed = {var.id}
  sliced = []
  changed = True
  while changed:
    changed = False
    for st in before:
      if st in sliced:
        continue
      stores = {n.id for n in ast.walk(st) if isinstance(n, ast.Name) and isinstance(n.ctx, ast.Store)}
      mut = {n.func.value.id for n in ast.walk(st) if isinstance(n, ast.Call) and isinstance(n.func, ast.Attribute) and isinstance(n.func.value, ast.Name) and n.func.attr in ("update", "setdefault", "pop", "clear")}
      if (stores | mut) & needed:
        sliced.append(st)
        needed |= {n.id for n in ast.walk(st) if isinstance(n, ast.Name)}
        changed = True
  sliced.sort(key=before.index)
  wrong = []
  from ..rules.minieval import MiniEval, Node as _Node
  from ..consteval import Raised as _Raised
  for inline_given in (False, True):
    for file_given in (False, True):
      argsn = _Node("Args", "args", (), config="{...}" if inline_given else None, config_file="cfg.json" if file_given else None)
      me = MiniEval(ix, opaque_calls={"json.loads": lambda: _copy.deepcopy(INLINE), "json.load": lambda: _copy.deepcopy(FILE), "open": "<file>"})
      env2 = {a: argsn}
      try:
        me.block(sliced, env2, f, 0)
      except NotConst as ex:
        raise AnalysisError(f"convert: the configuration-loading statements leave the interpreted subset ({ex})")
      except _Raised:
        wrong.append(f"--config {'given' if inline_given else 'absent'}, --config_file {'given' if file_given else 'absent'}: raises")
        continue
      got = env2.get(var.id)
      want = FILE if file_given else (INLINE if inline_given else None)
      if got != want:
        wrong.append(f"--config {'given' if inline_given else 'absent'}, --config_file {'given' if file_given else 'absent'}: sections {sorted(got) if isinstance(got, dict) else got}, expected {sorted(want) if isinstance(want, dict) else want}")
  ctx.check(not wrong, "FIN-config", f"{f.qualname}|the configuration file replaces the inline configuration (4 combinations)", ctx.where(f.module, reads[0]),
            "file's object when a file is given, else the inline object, else None",
            "the JSON object handed to read_config_from_json is not `file if given, else inline`: " + "; ".join(wrong[:2]) +
            ": sections given only inline still take effect although a configuration file is given")


def check_order_and_output(ctx):
  ix = ctx.ix
  cv = Convert(ctx)
  conv = cv.f
  body = cv.body
  mv = model_var(cv)
  a = cv.args
  pos = {}
  rst, _ = cv.chain("reader")
  wst, wch = cv.chain("writer")
  pos["read"] = body.index(rst)
  pos["write"] = body.index(wst)
  gen = None
  for st in own_nodes(conv.node):
    if isinstance(st, ast.Assign) and isinstance(st.value, ast.Call) and getattr(ix.resolve(conv.module, st.value.func, func=conv), "qualname", None) == f"{TT}:read_config_from_json" \
        and getattr(ix.resolve(conv.module, st.value.args[0], func=conv), "qualname", None) == "ttconv.config:GeneralConfiguration":
      gen = st.targets[0].id if isinstance(st.targets[0], ast.Name) else (st.target.id if hasattr(st, "target") else None)
    if isinstance(st, ast.AnnAssign) and isinstance(st.value, ast.Call) and getattr(ix.resolve(conv.module, st.value.func, func=conv), "qualname", None) == f"{TT}:read_config_from_json" \
        and getattr(ix.resolve(conv.module, st.value.args[0], func=conv), "qualname", None) == "ttconv.config:GeneralConfiguration":
      gen = st.target.id
  if gen is None:
    raise AnalysisError("convert: the GeneralConfiguration variable was not found")
  langs = [c for c in own_nodes(conv.node) if isinstance(c, ast.Call) and isinstance(c.func, ast.Attribute) and c.func.attr == "set_lang" and unparse(c.func.value) == mv]
  ctx.check(len(langs) == 1 and len(langs[0].args) == 1 and unparse(langs[0].args[0]) == f"{gen}.document_lang", "ORD", f"{conv.qualname}|document_lang is applied to the document that was read", ctx.where(conv.module, conv.node),
            f"{mv}.set_lang({gen}.document_lang)", f"convert must call {mv}.set_lang({gen}.document_lang) exactly once")
  if len(langs) == 1:
    pos["lang"] = cv.top(langs[0])
    g = body[pos["lang"]]
    # the call runs exactly when the general configuration and its document_lang are both present: the enclosing
    # tests, read as a boolean function of the two `is None` facts, are evaluated on all four assignments
    import itertools
    conds = match.enclosing_conditions(langs[0], conv.node)

    def leaf(e):
      n1 = match.is_none_test(e, lambda x: unparse(x) == gen)
      if n1 is not None:
        return ("gen-none", n1)
      n2 = match.is_none_test(e, lambda x: unparse(x) == f"{gen}.document_lang")
      if n2 is not None:
        return ("lang-none", n2)
      if unparse(e) == f"{gen}.document_lang":
        return ("lang-truthy", True)         # a truthiness test: false for the empty language tag as well
      if unparse(e) == gen:
        return ("gen-truthy", True)
      return None
    ok = bool(conds)
    try:
      # the configuration is absent / present; the language is absent, the empty tag "" (a valid xml:lang) or a non-empty tag
      for gn, lang in itertools.product((False, True), (None, "", "en")):
        def val(atom, gn=gn, lang=lang):
          if atom == "gen-none":
            return gn
          if atom == "gen-truthy":
            return not gn
          if gn:
            raise match.AtomError(atom)
          return (lang is None) if atom == "lang-none" else bool(lang)
        try:
          runs = all(match.eval_bool(t, leaf, val) == pol for t, pol in conds)
        except match.AtomError:
          runs = None
        if runs != (not gn and lang is not None):
          ok = False
    except ValueError as e:
      raise AnalysisError(f"convert: the guard of set_lang has a part that is not recognised: `{e}`")
    ctx.check(ok, "ORD", f"{conv.qualname}|document_lang applies exactly when it is configured", ctx.where(conv.module, g), f"`{gen} is not None and {gen}.document_lang is not None`",
              "the document language override is not applied under exactly `general configuration present and document_lang present`")
  loops = [st for st in body if isinstance(st, ast.For) and unparse(st.iter) == f"{a}.filter"]
  ctx.check(len(loops) == 1, "ORD", f"{conv.qualname}|filters are applied in argument order", ctx.where(conv.module, conv.node), f"one `for ... in {a}.filter` loop", f"the filters are not applied by one loop over {a}.filter in order (reversed(), sorted(), set() change the order)")
  if len(loops) == 1:
    lp = loops[0]
    pos["filters"] = body.index(lp)
    fname = unparse(lp.target)
    facts = {"lookup": False, "cfgcls": False, "cfg": False, "default": False, "process": False}
    clsvar = cfgclsvar = cfgvar_ = inst = None
    for n in own_nodes(lp):
      if isinstance(n, ast.Assign) and len(n.targets) == 1 and isinstance(n.targets[0], ast.Name) and isinstance(n.value, ast.Call):
        r = ix.resolve(conv.module, n.value.func, func=conv)
        q = getattr(r, "qualname", None)
        if q == "ttconv.filters.document_filter:DocumentFilter.get_filter_by_name" and unparse(n.value.args[0]) == fname:
          clsvar = n.targets[0].id
          facts["lookup"] = True
        elif clsvar and unparse(n.value.func) == f"{clsvar}.get_config_class":
          cfgclsvar = n.targets[0].id
          facts["cfgcls"] = True
        elif q == f"{TT}:read_config_from_json" and cfgclsvar and unparse(n.value.args[0]) == cfgclsvar:
          cfgvar_ = n.targets[0].id
          facts["cfg"] = True
      tgt = n.targets[0] if isinstance(n, ast.Assign) and len(n.targets) == 1 else (n.target if isinstance(n, ast.AnnAssign) else None)
      val = getattr(n, "value", None) if tgt is not None else None
      if isinstance(tgt, ast.Name) and isinstance(val, ast.Call) and clsvar and unparse(val.func) == clsvar and len(val.args) == 1:
        inst = tgt.id
        facts["default"] = unparse(val.args[0]) in (f"{cfgvar_} or {cfgclsvar}()", f"{cfgvar_} if {cfgvar_} is not None else {cfgclsvar}()")
      if isinstance(n, ast.Call) and inst and unparse(n.func) == f"{inst}.process" and len(n.args) == 1 and unparse(n.args[0]) == mv:
        facts["process"] = True
    ctx.check(all(facts.values()), "ORD", f"{conv.qualname}|each filter is looked up by name, built from its own configuration (default when absent) and applied to the document", ctx.where(conv.module, lp), f"{facts}",
              f"the filter loop lost a step: {sorted(k for k, v in facts.items() if not v)}")
  ok = {"read", "lang", "filters", "write"} <= set(pos) and pos["read"] < pos["lang"] < pos["filters"] < pos["write"] and pos["write"] == len(body) - 1
  ctx.check(ok, "ORD", f"{conv.qualname}|read, document_lang, filters, write (last)", ctx.where(conv.module, conv.node), f"statement order {pos}",
            f"the pipeline order must be reader -> document_lang -> filters -> writer (last); found {pos}")
  # output opening
  cfg = CFG(conv.node)
  dom = cfg.dominators()
  outs = cv.path_vars["output"]
  opens = []
  for c in own_nodes(conv.node):
    if isinstance(c, ast.Call) and c.args and unparse(c.args[0]) in outs:
      fn = unparse(c.func)
      mode = unparse(c.args[1]) if len(c.args) > 1 else next((unparse(k.value) for k in c.keywords if k.arg == "mode"), "'r'")
      if (fn == "open" and any(ch_ in mode for ch_ in "wax+")) or (isinstance(c.func, ast.Attribute) and c.func.attr in ("write", "write_text", "write_bytes", "touch")) or fn in ("Path", "pathlib.Path"):
        opens.append(c)
  ctx.floor("OUT", "statements that open the output path", len(opens), 2)
  for c in opens:
    nid = cfg.stmt_node_containing(c)
    ok = False
    for d in dom.get(nid, ()):
      an = cfg.nodes[d].ast
      if an is not None and cfg.nodes[d].kind == "stmt":
        for n in ast.walk(an):
          if isinstance(n, ast.Call):
            r = ix.resolve(conv.module, n.func, func=conv)
            if (isinstance(r, FuncInfo) and r.name == "from_model") or (not isinstance(r, FuncInfo) and isinstance(n.func, ast.Attribute) and n.func.attr == "from_model"):
              ok = True       # (a writer module held in a local - a row of a dispatch table - is called by the same name)
    ctx.check(ok and cv.top(c) == pos["write"], "OUT", f"{conv.qualname}|{short(c, 50)} after the writer produced the document", ctx.where(conv.module, c), "dominated by <format>.writer.from_model(...) inside the final dispatch",
              f"`{short(c, 50)}` opens the output file before the writer has produced the document (or outside the final dispatch): a failing or unsupported conversion leaves an empty or partial output file")


def check_decoders(ctx):
  ix = ctx.ix
  base = ix.cls("ttconv.config:ModuleConfiguration")
  n = 0
  for c in ix.all_subclasses(base):
    ctx.unit(c.module)
    for name, v in c.assigns.items():
      if isinstance(v, ast.Call) and unparse(v.func) in ("field", "dataclasses.field"):
        dec = None
        for kw in v.keywords:
          if kw.arg == "metadata" and isinstance(kw.value, ast.Dict):
            for k, val in zip(kw.value.keys, kw.value.values):
              if isinstance(k, ast.Constant) and k.value == "decoder":
                dec = val
        if dec is None:
          continue
        n += 1
        d = unparse(dec)
        coercion = d in ("bool", "int", "str", "float", "list", "tuple")
        ctx.check(not coercion, "TAB-decoders", f"{c.qualname}.{name}|decoder {d}", ctx.where(c.module, v), f"validating decoder `{d}`",
                  f"the configuration field `{name}` is decoded with the bare coercion `{d}`, which accepts every value (e.g. the string \"false\" becomes True) instead of rejecting undocumented ones")
        # the decoder exists
        if not coercion:
          r = ix.resolve(c.module, dec.func if isinstance(dec, ast.Call) else dec, cls=c)
          ctx.check(r is not None, "TAB-decoders", f"{c.qualname}.{name}|decoder {d} resolves", ctx.where(c.module, v), "resolved", f"decoder `{d}` of field `{name}` cannot be resolved")
  ctx.floor("TAB-decoders", "configuration fields with a decoder", n, 10)
  p = ix.func("ttconv.config:ModuleConfiguration.parse")
  # parse and the helpers of the class it calls (an extracted per-field function)
  group = [p]
  for g in group:
    for c_ in own_nodes(g.node):
      if isinstance(c_, ast.Call) and isinstance(c_.func, ast.Attribute) and unparse(c_.func.value) in ("cls", "self") and p.cls is not None:
        h = ix.lookup_method(p.cls, c_.func.attr)
        if h is not None and h not in group and h.name not in ("validate", "get_fields", "get_field_default", "name") and len(group) < 4:
          group.append(h)
  dictp = p.params[1]
  validates = any(isinstance(c_, ast.Call) and unparse(c_.func) == "cls.validate" and c_.args and unparse(c_.args[0]) == dictp for c_ in own_nodes(p.node))
  all_fields = any("get_fields()" in unparse(it) for g in group for n_ in own_nodes(g.node)
                   for it in ([n_.iter] if isinstance(n_, ast.For) else [x.iter for x in getattr(n_, "generators", [])] if isinstance(n_, (ast.ListComp, ast.DictComp, ast.GeneratorExp, ast.SetComp)) else []))
  decodes = False
  for g in group:
    dvars = {unparse(st.targets[0]) for st in own_nodes(g.node) if isinstance(st, ast.Assign) and 'metadata.get("decoder")' in unparse(st.value).replace("'", '"')}
    for c_ in own_nodes(g.node):
      if isinstance(c_, ast.Call) and c_.args and (unparse(c_.func) in dvars or (isinstance(c_.func, ast.Attribute) and c_.func.attr == "__call__" and unparse(c_.func.value) in dvars)):
        decodes = True
  constructs = any(isinstance(c_, ast.Call) and unparse(c_.func) == "cls" and any(k.arg is None for k in c_.keywords) for c_ in own_nodes(p.node))
  ctx.check(validates and all_fields and decodes and constructs, "TAB-decoders",
            f"{p.qualname}|validate, decode every field, construct", ctx.where(p.module, p.node), "validate -> for every field of get_fields(): decoder(value) -> cls(**values)",
            f"ModuleConfiguration.parse no longer validates the dictionary ({validates}), visits every field of get_fields() ({all_fields}), applies the field's decoder ({decodes}) and constructs cls(**values) ({constructs})")


def check_decoder_probes(ctx):
  """FIN-decoders: the decoders of the documented configuration values accept the documented
  examples (with the documented meaning) and reject near misses.  Each decoder is evaluated on a
  small table of probe values with the finite evaluator; `raises` means the decoder itself raises."""
  from fractions import Fraction as F
  from ..consteval import FuncEval, NotConst, Raised
  ix = ctx.ix
  fe = FuncEval(ix)
  table = [
    ("ttconv.config:decode_bool", {True: True, False: False}, ["true", "false", 0, 1, ""], "README: JSON true / false"),
    ("ttconv.imsc.config:IMSCWriterConfiguration.FractionDecoder.__call__", {"25/1": F(25), "30000/1001": F(30000, 1001), None: None}, ["25", "29.97", "3e1", "a/b", "1/2/3", "1/0"], 'README: "fps": "<num>/<denom>"'),
    ("ttconv.filters.doc.lcd:_safe_area_decoder", {0: 0, 10: 10, 30: 30}, [-1, 31, 95], "README: safe_area is an integer between 0 and 30"),
  ]
  n = 0
  for q, accept, reject, doc in table:
    f = ix.func(q)
    ctx.unit(f.module)
    pname = [p_ for p_ in f.params if p_ not in ("self", "cls")][0]
    bad = []
    for v, want in accept.items():
      n += 1
      try:
        got = fe.call(f, {pname: v})
        if got != want or type(got) is not type(want):
          bad.append(f"{v!r} -> {got!r}, documented meaning {want!r}")
      except Raised:
        bad.append(f"{v!r} is rejected although documented")
      except NotConst as e:
        raise AnalysisError(f"{q}: leaves the evaluable subset on {v!r} ({e})")
    for v in reject:
      n += 1
      try:
        got = fe.call(f, {pname: v})
        bad.append(f"{v!r} is accepted (as {got!r}) although it is not a documented value")
      except Raised:
        pass
      except NotConst as e:
        raise AnalysisError(f"{q}: leaves the evaluable subset on {v!r} ({e})")
    ctx.check(not bad, "FIN-decoders", f"{q}|{doc}", ctx.where(f.module, f.node), f"{len(accept)} documented values accepted, {len(reject)} near misses rejected",
              f"{f.short}: " + "; ".join(bad[:4]) + " - configuration parsing must accept exactly the documented values")
  ctx.extra["decoder_probe_evaluations"] = n


def reachable_modules(ix):
  """Modules imported (transitively) from ttconv.tt."""
  seen, stack = set(), [TT]
  while stack:
    mn = stack.pop()
    if mn in seen or mn not in ix.modules:
      continue
    seen.add(mn)
    m = ix.modules[mn]
    for tgt in m.imports.values():
      parts = tgt.split(".")
      for i in range(len(parts), 0, -1):
        cand = ".".join(parts[:i])
        if cand in ix.modules:
          stack.append(cand)
          break
  # document filters are imported dynamically by ttconv.filters.doc
  for mn in ix.modules:
    if mn.startswith("ttconv.filters"):
      seen.add(mn)
  return seen


def check_determinism(ctx):
  ix = ctx.ix
  mods = [ix.modules[m] for m in sorted(reachable_modules(ix))]
  ctx.floor("DET", "modules reachable from tt convert", len(mods), 40)
  for m in mods:
    ctx.unit(m)
    for node in ast.walk(m.tree):
      if isinstance(node, ast.Call):
        fn = unparse(node.func)
        if fn in NONDET_CALLS:
          ctx.bad("DET", f"{ix.scope_name(m, node)}|{fn}()", ctx.where(m, node), f"`{fn}()` makes the conversion depend on the process / time / hash seed")
  n_set = lint.set_iteration(ctx, mods, rule="DET-set", attr_modules=list(ix.modules.values()))
  ctx.check(n_set == 0, "DET", "reachable modules|no order-sensitive set iteration, no nondeterministic call", "src/main/python/ttconv", f"{len(mods)} modules scanned", f"{n_set} order-sensitive set iterations (listed under DET-set)")
  from ..selfcheck import set_iteration_fixture_matches
  ctx.check(set_iteration_fixture_matches(), "DET", "fixture|iteration over a set is detected", "ttverif/fixtures/set_iteration.py", "the rule still matches its positive fixture", "DET no longer matches its positive fixture (rule broken)")
  # module / class level containers
  funcs = [f for f in ix.funcs.values() if f.module.name in reachable_modules(ix)]
  shape.check_no_global_mutation(ctx, funcs, rule="STATE-alias", allowed=GLOBAL_OK)
  shape.check_no_process_state(ctx, funcs, rule="STATE-global", allowed=STATE_OK)


def run(ctx):
  common.check_shared_helpers(ctx, color=True)
  check_types(ctx)
  check_config(ctx)
  check_config_precedence(ctx)
  common.check_contradiction_lints(ctx, ["ttconv.tt", "ttconv.config"])
  check_order_and_output(ctx)
  check_decoders(ctx)
  check_decoder_probes(ctx)
  # parsing a section leaves the decoded JSON untouched (the same section is parsed again for a repeated filter)
  npm = 0
  for c_ in [ctx.ix.cls("ttconv.config:ModuleConfiguration")] + ctx.ix.all_subclasses(ctx.ix.cls("ttconv.config:ModuleConfiguration")):
    for m_ in c_.methods.values():
      ps_ = set(m_.params) - {"self", "cls"}
      for n_ in own_nodes(m_.node):
        tgt_ = None
        if isinstance(n_, ast.Call) and isinstance(n_.func, ast.Attribute) and n_.func.attr in ("pop", "popitem", "clear", "update", "setdefault", "remove", "append", "extend", "sort") and isinstance(n_.func.value, ast.Name) and n_.func.value.id in ps_:
          tgt_ = n_.func.value.id
        if isinstance(n_, (ast.Assign, ast.Delete, ast.AugAssign)):
          for t_ in (n_.targets if isinstance(n_, (ast.Assign, ast.Delete)) else [n_.target]):
            if isinstance(t_, ast.Subscript) and isinstance(t_.value, ast.Name) and t_.value.id in ps_:
              tgt_ = t_.value.id
        if tgt_:
          npm += 1
          ctx.bad("PARAM-pure", f"{m_.qualname}|{short(n_, 50)}", ctx.where(m_.module, n_), f"`{short(n_, 60)}` modifies the caller's `{tgt_}`: the decoded configuration is consumed by the first parse, so a second parse of the same section (a filter named twice) sees different data")
  ctx.ok("PARAM-pure", "ttconv.config|configuration parsing does not modify its argument", "src/main/python/ttconv/config.py", f"{npm} mutations of parameters")
  lint.unsat_ranges(ctx, [m for m in ctx.ix.modules.values() if m.name.endswith("config") or "filters" in m.name], rule="LINT-c")
  from ..rules import probes as _probes19
  ctx.floor("FIN-decoder", "raw configuration values decided", _probes19.check_config_decoders(ctx), 30)
  ctx.floor("LINT-o", "locals bound to a mapping look-up in the configuration modules", lint.falsy_mapping_default(ctx, [m for m in ctx.ix.modules.values() if m.name.endswith("config") or m.name == "ttconv.tt"]), 2)
  check_determinism(ctx)
