"""C19 - `tt convert` equals the library pipeline, honours options, is deterministic."""
from __future__ import annotations

import ast

from ..cfg import CFG
from ..consteval import ConstEval
from ..core import AnalysisError, ClassInfo, FuncInfo, own_nodes, parent, short, unparse
from ..rules import dsp, lint, shape
from . import common

EXPLANATION = (
  "Decides these clauses for every invocation: (TYPE) the file type comes from --itype/--otype, else from the extension with the "
  "leading dot removed, lower-cased on both paths before the FileTypes lookup; (DSP-types) every FileTypes member has a reader branch, "
  "and a writer branch or falls into the else that logs and calls sys.exit; each branch calls that format's reader / writer with the "
  "configuration class of that module; (CONFIG) --config_file is applied after --config so the file wins, and every module "
  "configuration is parsed from the same JSON object by its own class name, all names distinct; (ORD) the document language is "
  "applied after the reader and before the filters, filters run in argument order, each constructed from its own configuration "
  "class, before the writer; (OUT) every open-for-write of the output path comes after the writer has produced the document in the "
  "same branch, and the unsupported-type paths exit before any output is opened; (TAB-decoders) every configuration field that has "
  "a decoder uses a validating one (not a bare coercion such as bool), and range checks are satisfiable; (DET) no iteration over a "
  "set / frozenset, no id/hash/random/time/uuid/getpid in the modules reachable from convert, and no mutation of module- or "
  "class-level containers outside the tabled, idempotent ones."
)
RULE_TEXT = "per FileTypes member x {reader, writer}, per configuration class, per output-opening statement, per config field, per set iteration / global mutation"
UNDECIDED = ["byte identity with the library pipeline as a whole", "that every decoder rejects exactly the undocumented values (only the kind of decoder is checked)",
             "GeneralConfiguration / ISDConfiguration fields have no decoder at all (observation O2)"]
TRUSTED = ["table of reader / writer modules per file type", "tabled idempotent process-global effects: et.register_namespace, logging configuration, filter registry"]

TT = "ttconv.tt"
READERS = {"TTML": ("imsc_reader.to_model", None), "SCC": ("scc_reader.to_model", "SccReaderConfiguration"), "STL": ("stl_reader.to_model", "STLReaderConfiguration"),
           "SRT": ("srt_reader.to_model", None), "VTT": ("vtt_reader.to_model", None)}
WRITERS = {"TTML": ("imsc_writer.from_model", "IMSCWriterConfiguration"), "SRT": ("srt_writer.from_model", "SRTWriterConfiguration"), "VTT": ("vtt_writer.from_model", "VTTWriterConfiguration")}
NONDET_CALLS = {"id", "hash", "random.random", "random.randint", "random.choice", "time.time", "time.time_ns", "uuid.uuid4", "uuid.uuid1", "os.getpid", "datetime.now", "datetime.datetime.now"}
GLOBAL_OK = {
  "DocumentFilter._all_filters": "filter registry filled once per subclass at import time (__init_subclass__)",
}


def chain(f, var):
  """[(member name or None for else, body)] of the if/elif chain testing `var is FileTypes.X`."""
  for st in f.node.body:
    if isinstance(st, ast.If) and unparse(st.test).startswith(f"{var} is FileTypes."):
      out = []
      cur = st
      while True:
        out.append((unparse(cur.test).split(".")[-1], cur.body))
        if len(cur.orelse) == 1 and isinstance(cur.orelse[0], ast.If) and unparse(cur.orelse[0].test).startswith(f"{var} is FileTypes."):
          cur = cur.orelse[0]
        else:
          out.append((None, cur.orelse))
          break
      return st, out
  raise AnalysisError(f"convert: dispatch chain on `{var}` not found")


def check_types(ctx):
  ix = ctx.ix
  g = ix.func(f"{TT}:FileTypes.get_file_type")
  ctx.unit(g.module)
  rets = [r for r in own_nodes(g.node) if isinstance(r, ast.Return) and r.value is not None and "FileTypes(" in unparse(r.value)]
  ctx.floor("TYPE", "FileTypes(...) returns in get_file_type", len(rets), 2)
  for r in rets:
    a = r.value.args[0]
    ctx.check(isinstance(a, ast.Call) and isinstance(a.func, ast.Attribute) and a.func.attr == "lower", "TYPE", f"{g.qualname}|{short(r.value, 50)} is case-insensitive", ctx.where(g.module, r),
              "argument passes through .lower()", f"`{short(r.value, 50)}` looks the type up without lower-casing it: --itype TTML / a .SRT extension is rejected")
  t = unparse(g.node)
  ctx.check("if file_type is None:" in t and "file_extension[0] == '.'" in t, "TYPE", f"{g.qualname}|explicit type wins, else the extension without its dot", ctx.where(g.module, g.node),
            "file_type is None -> extension", "the precedence of --itype/--otype over the file extension (or the removal of the leading dot) changed")
  ft = ix.cls(f"{TT}:FileTypes")
  ce = ConstEval(ix)
  members = {n: ce.try_ev(ft.module, v, ft) for n, v in ix.enum_members(ft)}
  ctx.check(all(isinstance(v, str) and v == v.lower() for v in members.values()), "TYPE", f"{ft.qualname}|member values are lower case", ctx.where(ft.module, ft.node), f"{members}",
            f"FileTypes values {members} are not all lower case although the lookup lower-cases its argument")
  conv = ix.func(f"{TT}:convert")
  for var, table, what in (("reader_type", READERS, "reader"), ("writer_type", WRITERS, "writer")):
    st, ch = chain(conv, var)
    handled = {k: body for k, body in ch if k is not None}
    else_body = [body for k, body in ch if k is None][0]
    exits = any(isinstance(c, ast.Call) and unparse(c.func) == "sys.exit" for s in else_body for c in ast.walk(s))
    ctx.check(exits, "DSP-types", f"{conv.qualname}|unsupported {what} type ends with sys.exit", ctx.where(conv.module, st), "else: LOGGER.error + sys.exit",
              f"an unsupported {what} type no longer ends the conversion with sys.exit(...)")
    for mname in members:
      key = f"{conv.qualname}|{what} for {mname}"
      if mname in table:
        fn, cfgcls = table[mname]
        body = handled.get(mname)
        if body is None:
          ctx.bad("DSP-types", key, ctx.where(conv.module, st), f"FileTypes.{mname} has no {what} branch in convert although ttconv has a {what} for it")
          continue
        txt = "\n".join(unparse(s) for s in body)
        ok = f"{fn}(" in txt
        if cfgcls is not None:
          ok = ok and f"read_config_from_json({cfgcls}, json_config_data)" in txt
        ctx.check(ok, "DSP-types", key, ctx.where(conv.module, body[0]), f"calls {fn} with {cfgcls or 'no'} configuration",
                  f"the {what} branch for {mname} does not call {fn}" + (f" with the configuration parsed as {cfgcls}" if cfgcls else ""))
      else:
        ctx.check(mname not in handled, "DSP-types", key + "|unsupported", ctx.where(conv.module, st), f"no {what} exists for {mname}: falls into the error branch",
                  f"convert has a {what} branch for {mname} that the table of supported {what}s does not know")


def check_config(ctx):
  ix = ctx.ix
  conv = ix.func(f"{TT}:convert")
  ctx.unit(conv.module)
  body = conv.node.body
  idx = {}
  for i, st in enumerate(body):
    t = unparse(st)
    if isinstance(st, ast.If) and "args.config is not None" in unparse(st.test):
      idx["inline"] = i
    if isinstance(st, ast.If) and "args.config_file is not None" in unparse(st.test):
      idx["file"] = i
    if "read_config_from_json(GeneralConfiguration, json_config_data)" in t and "general" not in idx:
      idx["general"] = i
  ok = {"inline", "file", "general"} <= set(idx) and idx["inline"] < idx["file"] < idx["general"]
  ctx.check(ok, "CONFIG", f"{conv.qualname}|configuration file overrides the inline configuration", ctx.where(conv.module, conv.node), f"statement order {idx}",
            f"--config_file must be applied after --config (and both before any configuration is parsed); found {idx}")
  both_assign = all(any(isinstance(x, (ast.Assign,)) and unparse(x.targets[0]) == "json_config_data" for x in ast.walk(body[idx[k]])) for k in ("inline", "file")) if ok else False
  ctx.check(both_assign, "CONFIG", f"{conv.qualname}|both sources assign json_config_data", ctx.where(conv.module, conv.node), "same variable", "the two configuration sources no longer feed the same json_config_data")
  r = ix.func(f"{TT}:read_config_from_json")
  t = unparse(r.node)
  ctx.check("json_data.get(config_class.name())" in t and "config_class.parse(json_config)" in t, "CONFIG", f"{r.qualname}|section selected by the class's own name, parsed by the class", ctx.where(r.module, r.node),
            "json_data.get(config_class.name()) -> config_class.parse(...)", "read_config_from_json no longer selects the JSON section by config_class.name() and parses it with config_class.parse")
  # distinct names
  base = ix.cls("ttconv.config:ModuleConfiguration")
  names = {}
  for c in ix.all_subclasses(base):
    nm = c.methods.get("name")
    if nm is None:
      continue
    rets = [x for x in own_nodes(nm.node) if isinstance(x, ast.Return)]
    v = ConstEval(ix).try_ev(c.module, rets[0].value, c) if rets else None
    names.setdefault(v, []).append(c.short)
  ctx.floor("CONFIG", "module configuration classes", sum(len(v) for v in names.values()), 7)
  for v, cs in sorted(names.items(), key=lambda kv: str(kv[0])):
    ctx.check(isinstance(v, str) and len(cs) == 1, "CONFIG", f"ttconv.config|section name {v!r}", "src/main/python/ttconv/config.py", f"{cs[0]}",
              f"configuration section name {v!r} is used by {cs}: one module's settings would be parsed as another's")


def check_order_and_output(ctx):
  ix = ctx.ix
  conv = ix.func(f"{TT}:convert")
  body = conv.node.body
  pos = {}
  for i, st in enumerate(body):
    t = unparse(st)
    if isinstance(st, ast.If) and unparse(st.test).startswith("reader_type is FileTypes."):
      pos["read"] = i
    if isinstance(st, ast.If) and "general_config.document_lang is not None" in unparse(st.test) and "model.set_lang(general_config.document_lang)" in t:
      pos["lang"] = i
    if isinstance(st, ast.For) and unparse(st.iter) == "args.filter":
      pos["filters"] = i
    if isinstance(st, ast.If) and unparse(st.test).startswith("writer_type is FileTypes."):
      pos["write"] = i
  ok = {"read", "lang", "filters", "write"} <= set(pos) and pos["read"] < pos["lang"] < pos["filters"] < pos["write"]
  ctx.check(ok, "ORD", f"{conv.qualname}|read, document_lang, filters in argument order, write", ctx.where(conv.module, conv.node), f"statement order {pos}",
            f"the pipeline order must be reader -> document_lang -> filters -> writer; found {pos}")
  if "filters" in pos:
    lp = body[pos["filters"]]
    t = unparse(lp)
    ctx.check("DocumentFilter.get_filter_by_name(filter_name)" in t and "doc_filter_class.get_config_class()" in t and "read_config_from_json(filter_config_class, json_config_data)" in t
              and "doc_filter.process(model)" in t and "filter_config or filter_config_class()" in t, "ORD", f"{conv.qualname}|each filter is built from its own configuration and applied to the model",
              ctx.where(conv.module, lp), "lookup by name, own config class, default config when absent, process(model)", "the filter loop no longer builds each named filter from its own configuration class and applies it to the model")
  # output opening
  cfg = CFG(conv.node)
  dom = cfg.dominators()
  opens = []
  for c in own_nodes(conv.node):
    if isinstance(c, ast.Call) and ((unparse(c.func) == "open" and c.args and unparse(c.args[0]) == "outputfile") or (isinstance(c.func, ast.Attribute) and c.func.attr == "write" and c.args and unparse(c.args[0]) == "outputfile")):
      opens.append(c)
  ctx.floor("OUT", "statements that open the output path", len(opens), 3)
  for c in opens:
    nid = cfg.stmt_node_containing(c)
    # a writer call in the same branch dominates it
    ok = False
    for d in dom.get(nid, ()):
      a = cfg.nodes[d].ast
      if a is not None and cfg.nodes[d].kind == "stmt" and "_writer.from_model(" in unparse(a):
        ok = True
    ctx.check(ok, "OUT", f"{conv.qualname}|{short(c, 50)} after the writer produced the document", ctx.where(conv.module, c), "dominated by <format>_writer.from_model(...)",
              f"`{short(c, 50)}` opens the output file before the writer has produced the document: a failing conversion leaves an empty or partial output file")
    ctx.check(pos.get("write", -1) == max(pos.values()) and isdrules_top(conv, c) == pos.get("write"), "OUT", f"{conv.qualname}|{short(c, 50)} only in the final writer dispatch", ctx.where(conv.module, c),
              "inside the writer dispatch, the last step", "the output path is opened outside the final writer dispatch")


def isdrules_top(f, node):
  """Index of the top-level statement of f that contains node."""
  for i, st in enumerate(f.node.body):
    if any(x is node for x in ast.walk(st)):
      return i
  return None


def check_decoders(ctx):
  ix = ctx.ix
  base = ix.cls("ttconv.config:ModuleConfiguration")
  n = 0
  for c in ix.all_subclasses(base):
    ctx.unit(c.module)
    for name, v in c.assigns.items():
      if isinstance(v, ast.Call) and unparse(v.func) in ("field", "dataclasses.field"):
        dec = None
        for kw in v.keywords:
          if kw.arg == "metadata" and isinstance(kw.value, ast.Dict):
            for k, val in zip(kw.value.keys, kw.value.values):
              if isinstance(k, ast.Constant) and k.value == "decoder":
                dec = val
        if dec is None:
          continue
        n += 1
        d = unparse(dec)
        coercion = d in ("bool", "int", "str", "float", "list", "tuple")
        ctx.check(not coercion, "TAB-decoders", f"{c.qualname}.{name}|decoder {d}", ctx.where(c.module, v), f"validating decoder `{d}`",
                  f"the configuration field `{name}` is decoded with the bare coercion `{d}`, which accepts every value (e.g. the string \"false\" becomes True) instead of rejecting undocumented ones")
        # the decoder exists
        if not coercion:
          r = ix.resolve(c.module, dec.func if isinstance(dec, ast.Call) else dec, cls=c)
          ctx.check(r is not None, "TAB-decoders", f"{c.qualname}.{name}|decoder {d} resolves", ctx.where(c.module, v), "resolved", f"decoder `{d}` of field `{name}` cannot be resolved")
  ctx.floor("TAB-decoders", "configuration fields with a decoder", n, 10)
  p = ix.func("ttconv.config:ModuleConfiguration.parse")
  t = unparse(p.node)
  ctx.check("cls.validate(config_dict)" in t and "decoder.__call__(field_value)" in t.replace("decoder(field_value)", "decoder.__call__(field_value)") and "cls(**kwargs)" in t, "TAB-decoders",
            f"{p.qualname}|validate, decode every field, construct", ctx.where(p.module, p.node), "validate -> decode -> cls(**kwargs)", "ModuleConfiguration.parse no longer validates, decodes each field with its decoder and constructs the configuration")


def reachable_modules(ix):
  """Modules imported (transitively) from ttconv.tt."""
  seen, stack = set(), [TT]
  while stack:
    mn = stack.pop()
    if mn in seen or mn not in ix.modules:
      continue
    seen.add(mn)
    m = ix.modules[mn]
    for tgt in m.imports.values():
      parts = tgt.split(".")
      for i in range(len(parts), 0, -1):
        cand = ".".join(parts[:i])
        if cand in ix.modules:
          stack.append(cand)
          break
  # document filters are imported dynamically by ttconv.filters.doc
  for mn in ix.modules:
    if mn.startswith("ttconv.filters"):
      seen.add(mn)
  return seen


def check_determinism(ctx):
  ix = ctx.ix
  mods = [ix.modules[m] for m in sorted(reachable_modules(ix))]
  ctx.floor("DET", "modules reachable from tt convert", len(mods), 40)
  for m in mods:
    ctx.unit(m)
    for node in ast.walk(m.tree):
      if isinstance(node, ast.Call):
        fn = unparse(node.func)
        if fn in NONDET_CALLS:
          ctx.bad("DET", f"{ix.scope_name(m, node)}|{fn}()", ctx.where(m, node), f"`{fn}()` makes the conversion depend on the process / time / hash seed")
  n_set = lint.set_iteration(ctx, mods, rule="DET-set", attr_modules=list(ix.modules.values()))
  ctx.check(n_set == 0, "DET", "reachable modules|no order-sensitive set iteration, no nondeterministic call", "src/main/python/ttconv", f"{len(mods)} modules scanned", f"{n_set} order-sensitive set iterations (listed under DET-set)")
  from ..selfcheck import set_iteration_fixture_matches
  ctx.check(set_iteration_fixture_matches(), "DET", "fixture|iteration over a set is detected", "ttverif/fixtures/set_iteration.py", "the rule still matches its positive fixture", "DET no longer matches its positive fixture (rule broken)")
  # module / class level containers
  funcs = [f for f in ix.funcs.values() if f.module.name in reachable_modules(ix)]
  shape.check_no_global_mutation(ctx, funcs, rule="STATE-alias", allowed=GLOBAL_OK)
  # assignments to module-level names from functions (global statements) and to attributes of module objects
  conv = ix.func(f"{TT}:convert")
  for st in own_nodes(conv.node):
    if isinstance(st, ast.Assign) and isinstance(st.targets[0], ast.Attribute) and isinstance(st.targets[0].value, ast.Name) and st.targets[0].value.id == "progress":
      ctx.ok("STATE-alias", f"{conv.qualname}|{unparse(st.targets[0])}|allowed", ctx.where(conv.module, st), "tabled: console progress handler setting (logging only, does not reach the output file)")


def run(ctx):
  check_types(ctx)
  check_config(ctx)
  check_order_and_output(ctx)
  check_decoders(ctx)
  lint.unsat_ranges(ctx, [m for m in ctx.ix.modules.values() if m.name.endswith("config") or "filters" in m.name], rule="LINT-c")
  check_determinism(ctx)
