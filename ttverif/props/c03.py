"""C03 - every snapshot element carries the style values TTML style resolution prescribes."""
from __future__ import annotations

import ast

from ..consteval import ConstEval, EnumMember, NotConst, Sym
from ..core import AnalysisError, ClassInfo, own_nodes, short, unparse
from ..oracles import ttml_styles as oracle
from ..rules import shape, isdrules
from . import common

EXPLANATION = (
  "Decides these clauses of TTML style resolution for every document, time and property: (ORD-style / PRI-style) in _process_element the "
  "writers of the ISD element's style map appear in the order animation -> specified -> writing-mode-implied direction -> inherited -> "
  "initial -> compute -> display prune -> children -> drop inapplicable, each later writer is guarded by 'not already set' (directly or "
  "inside StyleProcessor.inherit / its overrides; text decoration merges per component), and direction is implied only on regions "
  "without tts:direction with lrtb->ltr, rltb->rtl; (TAB-compute-order) every processor with a compute() is in "
  "_ORDERED_STYLE_PROPS and every computed property it reads precedes it there; (TAB-styles) the 36 properties' inheritance flags, "
  "initial values and per-kind applicability sets equal an oracle written from TTML2/IMSC 1.1, and each initial value is accepted by "
  "its own validate(); (AXIS) at all _compute_length call sites the percentage / cell / pixel references are of the axis of the "
  "destination (width/x/h_offset horizontal, height/y/v_offset vertical, padding edges by writing mode, font-relative lengths "
  "against font size / height) and the em reference is the font size; (DSP-units) _compute_length converts every non-root unit."
  " (FIN-ruby) the guard under which an inherited font size is halved equals, for every (element kind, parent kind) pair the content model allows, `rtc, or rt outside an rtc`;"
  " (STATE-alias / STATE-global) no function of the anchored modules mutates a module- or class-level container, rebinds module / class state or mutates a mutable default argument, so a result never depends on earlier calls;"
  " (ORD-animlast) of the `set` steps active at the offset the last in document order decides: the loop over the animation steps stores every active step on the snapshot element - no test in it reads the snapshot element (has_style / get_style), no break;"
  " (MEMO-key) caches in isd.py are not keyed by dataclass values (two equal animation steps of different elements would share an entry);"
  ' (CMP-activity) an element or animation step is active on the half-open interval [begin, end): begin inclusive, end exclusive, None unbounded;'
  " (TAB-applies) every style property's processor lists the element kinds it applies to as in the TTML2 / IMSC table;"
  ' (UNATTACHED) style computation never reads the source document through an element that was created for the ISD;'
  ' (LINT-l) no tuple / list / set display of the anchored modules lists the same computed component twice and no dict display repeats a key (a key or fingerprint built that way cannot tell apart what the missing component would have);'
  " (DEP-frame) in _process_element the interval of an animation step is resolved against the interval of the element that carries it, and the children receive that element's interval as their parent interval, so the step that is active at t is the one TTML prescribes;"
  ' (STATE-share) no assignment stores a container field of one object (a field the package updates in place) into a field of another object without copying it, so an in-place update of one object never changes another;'
  " (ITEM-source) an object built once per item of an inner loop is filled only with values that derive from that item or do not vary with the loops, never with a value of the enclosing container standing where the item's own belongs;"
  ' (LOOP-break) no loop over the items of a collection is left by a branch that does nothing but `break` on a test about the item (end-of-input sentinels, flags set in the loop body and searches whose variable is read afterwards excepted): an item that is to be skipped does not end the processing of the items after it;'
  ' (PAIR-compute) as in C13: every uncomputed value copied onto the ISD element (animated, specified, initial, direction semantics) is registered for computation on every path through the copy;'
  + common.SHARED_CLAUSES['validators']
  + " (FIN-position) StyleProcessors.Position.compute, interpreted on sample regions (extents smaller than, equal to and larger than the root container; every edge pair; offsets in %, c and px), sets the origin TTML2 10.2.31 prescribes: the offset runs from the named edge of the container to the same edge of the region, percentages referring to container minus region;"
  + common.SHARED_CLAUSES['chains']
)
RULE_TEXT = "per ordering pair, guard, property x {inherited, initial, applies-to}, _compute_length call site, unit"
UNDECIDED = ["numeric values (em-of-%-of-c chains, position edge arithmetic, ruby half size)", "tts:disparity applicability (not established from the specification)"]
TRUSTED = ["style oracle written from TTML2 2nd ed. / IMSC 1.1 (oracles/ttml_styles.py)"]

SP = "ttconv.style_properties"


def dataclass_fields(ix, ci: ClassInfo):
  out = []
  for name in ci.field_order:
    if name in ci.ann and name not in ci.nested:
      out.append((name, ci.assigns.get(name)))
  return out


def normalise(ix, module, v, depth=0):
  """Evaluated initial value -> canonical text."""
  if isinstance(v, bool):
    return f"bool:{v}"
  if isinstance(v, (int, float)):
    return f"number:{v:g}" if v != 1 else "number:1.0"
  if isinstance(v, EnumMember):
    cls = v.cls.split(":")[-1]
    if cls == "SpecialValues":
      return f"special:{v.name}"
    return f"enum:{v.name}"
  if isinstance(v, tuple) and len(v) == 1 and isinstance(v[0], EnumMember) and v[0].cls.endswith("GenericFontFamilyType"):
    return f"font:{v[0].name}"
  if isinstance(v, Sym):
    st = struct_of(ix, module, v.text)
    if st is None:
      return f"?{v.text}"
    name, fields = st
    if name == "ColorType":
      comps = fields.get("components")
      named = {(0, 0, 0, 0): "transparent", (255, 255, 255, 255): "white", (0, 0, 0, 255): "black"}
      return f"color:{named.get(tuple(comps) if isinstance(comps, (tuple, list)) else None, comps)}"
    if name == "LengthType":
      val, units = fields.get("value"), fields.get("units")
      return "length:0" if val == 0 else f"length:{val:g}{units}"
    if name == "ExtentType":
      return f"extent:{_len(fields.get('width'))} {_len(fields.get('height'))}"
    if name == "CoordinateType":
      return f"coord:{_len(fields.get('x'))} {_len(fields.get('y'))}"
    if name == "PaddingType":
      vals = {_len(fields.get(k)) for k in ("before", "end", "after", "start")}
      return "padding:0" if vals <= {"0", "0%"} else f"padding:{sorted(vals)}"
    if name == "PositionType":
      return f"position:{fields.get('h_edge')} {_len(fields.get('h_offset'))} {fields.get('v_edge')} {_len(fields.get('v_offset'))}"
    if name == "TextDecorationType":
      vals = [fields.get(k) for k in ("underline", "line_through", "overline")]
      return "decoration:none" if vals == [False, False, False] else f"decoration:{vals}"
    return f"?{name}"
  return f"?{v!r}"


def _len(st):
  if isinstance(st, tuple) and st[0] == "LengthType":
    v, u = st[1].get("value"), st[1].get("units")
    return "0%" if (v == 0 and u in ("%", "pct")) else f"{v:g}{u}"
  return str(st)


UNIT_TEXT = {"pct": "%", "em": "em", "c": "c", "px": "px", "rh": "rh", "rw": "rw"}


def struct_of(ix, module, text):
  """Parse 'Ctor(args...)' of a style dataclass into (class name, {field: value}) with defaults."""
  try:
    e = ast.parse(text, mode="eval").body
  except SyntaxError:
    return None
  return _struct(ix, ix.mod(SP), e)


def _struct(ix, m, e):
  ce = ConstEval(ix)
  if not isinstance(e, ast.Call):
    return None
  r = ix.resolve(m, e.func)
  if not isinstance(r, ClassInfo) or not r.is_dataclass:
    return None
  fields = dataclass_fields(ix, r)
  vals = {}
  for (fname, default) in fields:
    if default is not None:
      vals[fname] = _value(ix, r.module, default, r)
  for (fname, _), a in zip(fields, e.args):
    vals[fname] = _value(ix, m, a, None)
  for kw in e.keywords:
    vals[kw.arg] = _value(ix, m, kw.value, None)
  return (r.name, vals)


def _value(ix, m, e, cls):
  ce = ConstEval(ix)
  if isinstance(e, ast.Call):
    st = _struct(ix, m, e)
    if st is not None:
      return st
  try:
    v = ce.ev(m, e, cls)
  except NotConst:
    return unparse(e)
  if isinstance(v, EnumMember):
    if v.cls.endswith("LengthType.Units"):
      return UNIT_TEXT.get(v.name, v.name)
    return v.name
  if isinstance(v, Sym):
    try:
      st = _struct(ix, m, ast.parse(v.text, mode="eval").body)
    except SyntaxError:
      st = None
    return st if st is not None else v.text
  return v


def validate_accepts(ix, prop: ClassInfo, init_norm: str, init_value) -> bool:
  """Type-level check that validate() accepts the initial value: the isinstance classes /
  special values tested by validate() include the initial value's class / member."""
  # by interpretation where the initial value can be built and validate() is in the interpreted subset
  from ..rules import probes as _pr
  from ..rules.minieval import MiniEval as _ME
  from ..consteval import Raised as _R
  miv_ = prop.methods.get("make_initial_value")
  if miv_ is not None:
    try:
      return _pr.call_validate(ix, prop, _ME(ix).call(miv_, [])) is True
    except _R:
      return False
    except NotConst:
      pass
  v = prop.methods.get("validate")
  if v is None:
    raise AnalysisError(f"StyleProperties.{prop.name}.validate is neither a method nor in the interpreted subset")
  txt = unparse(v.node)
  kind = init_norm.split(":")[0]
  want = {
    "color": "ColorType", "bool": "bool", "number": "numbers.Number", "font": "tuple", "extent": "ExtentType", "coord": "CoordinateType",
    "padding": "PaddingType", "position": "PositionType", "decoration": "TextDecorationType", "length": "LengthType",
  }
  if kind == "enum" and isinstance(init_value, EnumMember):
    return f"isinstance(value, {init_value.cls.split(':')[-1]})" in txt
  if kind == "special" and isinstance(init_value, EnumMember):
    return f"SpecialValues.{init_value.name}" in txt
  if kind in want:
    return f"isinstance(value, {want[kind]}" in txt
  return False


def check_style_tables(ctx):
  ix = ctx.ix
  m = ix.mod(SP)
  ctx.unit(m)
  ce = ConstEval(ix)
  props = ix.cls(f"{SP}:StyleProperties")
  base = ix.cls(f"{SP}:StyleProperty")
  classes = {name: c for name, c in props.nested.items() if ix.is_subclass(c, base)}
  ctx.floor("TAB-styles", "style properties", len(classes), 36)
  for name in sorted(set(classes) | set(oracle.STYLES)):
    c = classes.get(name)
    if name not in oracle.STYLES:
      ctx.note(f"style property {name} is not in the TTML2/IMSC oracle (new property?): not checked")
      continue
    if c is None:
      ctx.bad("TAB-styles", f"StyleProperties.{name}|exists", m.rel, f"TTML2/IMSC property {name} has no class in StyleProperties")
      continue
    inh, init, applies = oracle.STYLES[name]
    where = ctx.where(m, c.node)
    got_inh = ce.try_ev(m, c.assigns["is_inherited"], c) if "is_inherited" in c.assigns else None
    ctx.check(got_inh is inh, "TAB-styles", f"StyleProperties.{name}|is_inherited={got_inh}", where, f"inherited: {got_inh}",
              f"tts:{name[0].lower() + name[1:]} is {'inherited' if inh else 'not inherited'} in TTML2/IMSC, but is_inherited = {got_inh}")
    anim = ce.try_ev(m, c.assigns["is_animatable"], c) if "is_animatable" in c.assigns else None
    ctx.check(anim is True, "TAB-styles", f"StyleProperties.{name}|is_animatable={anim}", where, "animatable", f"{name}.is_animatable is {anim}; every supported TTML2 style property is discretely animatable")
    miv = c.methods.get("make_initial_value")
    rets = [r for r in own_nodes(miv.node) if isinstance(r, ast.Return)] if miv else []
    if len(rets) != 1:
      raise AnalysisError(f"StyleProperties.{name}.make_initial_value: expected one return")
    try:
      val = ce.ev(m, rets[0].value, c)
    except NotConst as e:
      raise AnalysisError(f"StyleProperties.{name}.make_initial_value is not a constant expression ({e})")
    norm = normalise(ix, m, val)
    want = init
    if want.startswith("length:0"):
      want = "length:0"
    ctx.check(norm == want, "TAB-styles", f"StyleProperties.{name}|initial={norm}", ctx.where(m, rets[0]), f"initial value {norm}",
              f"the initial value of {name} is {norm}; TTML2/IMSC give {init}")
    ctx.check(validate_accepts(ix, c, norm, val), "TAB-styles", f"StyleProperties.{name}|validate accepts the initial value", where,
              "validate() admits the class / special value of the initial value", f"{name}.validate does not (recognisably) accept {name}'s own initial value {norm}")
  # applicability
  model = ix.mod("ttconv.model")
  ctx.unit(model)
  elem = ix.cls("ttconv.model:ContentElement")
  for k in sorted(ix.all_subclasses(elem), key=lambda c: c.name):
    if k.module.name != "ttconv.model":
      continue
    got = set()
    owner = None
    for b in ix.mro(k):
      if "_applicableStyles" in b.assigns:
        owner = b
        break
    if owner is not None:
      v = owner.assigns["_applicableStyles"]
      for a in ast.walk(v):
        if isinstance(a, ast.Attribute) and unparse(a.value).endswith("StyleProperties"):
          got.add(a.attr)
    want = {p for p, (_, _, ap) in oracle.STYLES.items() if ap is not None and k.name in ap}
    unchecked = {p for p, (_, _, ap) in oracle.STYLES.items() if ap is None}
    if k.name in oracle.NO_STYLES:
      want = set()
    extra, missing = (got - want) - unchecked, want - got
    ctx.check(not extra and not missing, "TAB-applies", f"ttconv.model:{k.name}|applicable styles", ctx.where(model, k.node), f"{len(got)} applicable properties",
              f"{k.name}: applicable style set differs from TTML2/IMSC; wrongly applicable: {sorted(extra)}; missing: {sorted(missing)}")
  # is_style_applicable consults that table
  isa = elem.methods["is_style_applicable"]
  ctx.check("in self._applicableStyles" in unparse(isa.node), "TAB-applies", "ttconv.model:ContentElement.is_style_applicable|membership in _applicableStyles",
            ctx.where(model, isa.node), "membership test", "is_style_applicable no longer tests membership in _applicableStyles")
  # ALL contains every property class
  allv = props.assigns.get("ALL")
  ok = allv is not None and "locals()" in unparse(allv) and "callable" in unparse(allv)
  ctx.check(ok, "TAB-styles", "StyleProperties.ALL|every nested property class", m.rel, "built from locals()", "StyleProperties.ALL is no longer built from all nested property classes")


def check_units(ctx):
  """DSP-units: for each unit, the value _compute_length returns on the path taken for that unit
  (references present) is `source.value * ref.value [/ 100]` in the units of the reference that the
  specification assigns to the unit; root-relative units are returned unchanged."""
  from ..rules import match
  ix = ctx.ix
  f = ix.func("ttconv.isd:_compute_length")
  ctx.unit(f.module)
  units = ix.cls(f"{SP}:LengthType.Units")
  members = [n for n, _ in ix.enum_members(units)]
  src = f.params[0]
  ref_of = {"pct": f.params[1], "em": f.params[2], "c": f.params[3], "px": f.params[4]}
  root_relative = {"rh", "rw"}
  norm = lambda e: unparse(e).replace(" ", "")
  # first by interpretation (any control structure: if-chain, table + loop): _compute_length applied to a source length of each
  # unit and four distinguishable references
  from fractions import Fraction as _F
  from ..consteval import EnumMember as _EM, NotConst as _NC, Raised as _R
  from ..rules.minieval import MiniEval
  ce_ = ConstEval(ix)
  unit = {n: _EM(units.qualname, n, ce_.try_ev(units.module, v, units)) for n, v in ix.enum_members(units)}
  rec = lambda v, un: {"__record__": "LengthType", "value": v, "units": unit[un]}
  refs = {"pct": rec(_F(7), "rh"), "em": rec(_F(11), "rh"), "c": rec(_F(13), "rw"), "px": rec(_F(17), "rw")}
  decided = True
  results = {}
  for u in members:
    source = rec(_F(3), u)
    try:
      results[u] = (source, MiniEval(ix).call(f, [source, refs["pct"], refs["em"], refs["c"], refs["px"]]))
    except _R:
      results[u] = (source, "raises")
    except _NC:
      decided = False
      break
  if decided:
    for u in members:
      key = f"{f.qualname}|unit {u}"
      source, got = results[u]
      if u in root_relative:
        ctx.check(got is source or (isinstance(got, dict) and got.get("value") == _F(3) and got.get("units") == unit[u]), "DSP-units", key, ctx.where(f.module, f.node),
                  "root-relative unit is returned unchanged (interpreted)", f"_compute_length rescales the root-relative unit {u}: returns {got}")
        continue
      ref = refs.get(u)
      want_v = _F(3) * ref["value"] / (100 if u == "pct" else 1)
      ok = isinstance(got, dict) and got.get("value") == want_v and got.get("units") == ref["units"]
      ctx.check(ok, "DSP-units", key, ctx.where(f.module, f.node), f"{u}: value * reference{' / 100' if u == 'pct' else ''} in the reference's units (interpreted on sample lengths)",
                f"interpreted with a source of 3{u} and the references pct=7rh, em=11rh, c=13rw, px=17rw, _compute_length returns {got if not isinstance(got, dict) else (got.get('value'), getattr(got.get('units'), 'name', got.get('units')))}; "
                f"unit `{u}` must resolve to 3 x {ref['value']}{' / 100' if u == 'pct' else ''} in {ref['units'].name}")
    return
  for u in members:
    key = f"{f.qualname}|unit {u}"

    def decide(test, u=u):
      # `<source>.units is Units.X` (through a local), `<ref> is None`
      r = match.relation(test, lambda e: unparse(e) == f"{src}.units", lambda e: unparse(e).split(".")[-2:-1] == ["Units"])
      if r in ("is", "==", "is not", "!="):
        cmp_ = test
        while isinstance(cmp_, ast.UnaryOp):
          cmp_ = cmp_.operand
        other = cmp_.comparators[0] if unparse(cmp_.left) == f"{src}.units" else cmp_.left
        same = unparse(other).split(".")[-1] == u
        return same if r in ("is", "==") else not same
      isn = match.is_none_test(test, lambda e: isinstance(e, ast.Name) and e.id in f.params)
      if isn is not None:
        return not isn if False else (False if isn else True)   # references are present on the path examined
      if isinstance(test, ast.Compare) and len(test.ops) == 1 and isinstance(test.ops[0], (ast.In, ast.NotIn)) and unparse(test.left) == f"{src}.units":
        names = {unparse(x).split(".")[-1] for x in getattr(test.comparators[0], "elts", [])}
        return (u in names) == isinstance(test.ops[0], ast.In)
      raise match.PathUndecided(short(test, 60))
    try:
      kind, val = match.path_result(f.node, decide)
    except match.PathUndecided as e:
      raise AnalysisError(f"{f.qualname}: the path for unit {u} cannot be followed ({e})")
    if u in root_relative:
      ctx.check(kind == "return" and val is not None and norm(val) == src, "DSP-units", key, ctx.where(f.module, f.node), "root-relative unit is returned unchanged",
                f"_compute_length rescales the root-relative unit {u}: returns `{short(val) if val is not None else kind}`")
      continue
    ref = ref_of.get(u)
    if kind != "return" or val is None or norm(val) == src:
      ctx.bad("DSP-units", key, ctx.where(f.module, f.node), f"_compute_length has no branch for unit `{u}`: such lengths stay unresolved in the snapshot")
      continue
    ok = False
    if isinstance(val, ast.Call) and unparse(val.func).endswith("LengthType"):
      kw = {k.arg: k.value for k in val.keywords}
      if len(val.args) == 2:
        kw.setdefault("value", val.args[0])
        kw.setdefault("units", val.args[1])
      v, un = kw.get("value"), kw.get("units")
      if v is not None and un is not None:
        want = {f"{src}.value*{ref}.value", f"{ref}.value*{src}.value"}
        if u == "pct":
          want = {w + "/100" for w in want} | {f"{src}.value/100*{ref}.value", f"{src}.value*({ref}.value/100)"}
        ok = norm(v) in want and norm(un) == f"{ref}.units"
    ctx.check(ok, "DSP-units", key, ctx.where(f.module, f.node),
              f"{u}: value * {ref}.value{' / 100' if u == 'pct' else ''} in {ref}'s units",
              f"unit `{u}` must resolve to source.value * {ref}.value{' / 100' if u == 'pct' else ''} in the units of {ref}; found `{short(val)}`")
  ctx.floor("DSP-units", "length units", len(members), 6)


def check_ruby_font_size(ctx):
  """FIN-ruby: an unspecified font size is inherited unchanged, except that ruby text is half the
  size of the base: rtc halves, and rt halves unless it sits in an rtc (which already did)."""
  from ..oracles import content_model as cm
  from ..rules import trav
  ix = ctx.ix
  f = ix.func("ttconv.isd:StyleProcessors.FontSize.inherit")
  ctx.unit(f.module)
  pname, ename = f.params[1], f.params[2]
  def halves(stmts):
    return any(isinstance(c, ast.BinOp) and ((isinstance(c.op, ast.Div) and isinstance(c.right, ast.Constant) and c.right.value == 2) or
                                             (isinstance(c.op, ast.Mult) and any(isinstance(x, ast.Constant) and x.value == 0.5 for x in (c.left, c.right))))
               for st in stmts for c in ast.walk(st))
  # the innermost test that separates the halving branch from the other one (either branch may be the halving one)
  halving = [(n, halves(n.body)) for n in own_nodes(f.node) if isinstance(n, ast.If) and halves(n.body) != halves(n.orelse)]
  halving = [(n, b) for n, b in halving if not any(m is not n and any(x is m for x in ast.walk(n)) for m, _ in halving)]
  if len(halving) != 1:
    raise AnalysisError(f"{f.qualname}: expected exactly one branch that halves the parent's font size, found {len(halving)}")
  g, in_body = halving[0]
  gtest = g.test if in_body else ast.fix_missing_locations(ast.copy_location(ast.UnaryOp(op=ast.Not(), operand=g.test), g.test))
  other = [c for st in (g.orelse if in_body else g.body) for c in ast.walk(st) if isinstance(c, ast.BinOp) and isinstance(c.op, (ast.Div, ast.Mult))]
  ctx.check(not other, "FIN-ruby", f"{f.qualname}|elements other than ruby text inherit the font size unchanged", ctx.where(f.module, g), "the other branch passes the parent value on",
            "the non-ruby branch scales the inherited font size")
  base = ix.cls("ttconv.model:ContentElement")
  concrete = [c for c in ix.all_subclasses(base) if c.module.name == "ttconv.model" and c.name in cm.ALLOWED_CHILDREN]
  region = ix.cls("ttconv.isd:ISD.Region")

  def oracle(**env):
    e, p = env[ename], env.get(pname)
    if p is not None and p is not region and e.name not in cm.ALLOWED_CHILDREN.get(p.name, ()):
      return None
    if p is region and e.name != "Body":
      return None
    if e.name == "Rtc":
      return True
    if e.name == "Rt":
      return p is None or p.name != "Rtc"
    return False
  names = {ename: concrete, pname: concrete + [region]}
  trav.check_type_guard(ctx, f, gtest, names, oracle, "FIN-ruby", f"{f.qualname}|ruby text is half the size of its base, once", ctx.where(f.module, g), "ruby font size default")


def check_unattached(ctx):
  """UNATTACHED: while styles are resolved the ISD element is not yet linked to its parent (children
  are pushed afterwards), so inherit / compute must use their `parent` argument; `element.parent()`
  is None at that point."""
  ix = ctx.ix
  n = 0
  for c in ix.classes.values():
    if c.module.name != "ttconv.isd" or "StyleProcessors" not in c.qualname:
      continue
    for m in c.methods.values():
      if m.name not in ("inherit", "compute") or len(m.params) < 3:
        continue
      el = m.params[2]
      n += 1
      bad = [x for x in own_nodes(m.node) if isinstance(x, ast.Call) and isinstance(x.func, ast.Attribute) and x.func.attr in ("parent", "root", "previous_sibling", "next_sibling") and unparse(x.func.value) == el]
      if bad:
        ctx.bad("UNATTACHED", f"{m.qualname}|{short(bad[0], 40)}", ctx.where(m.module, bad[0]),
                f"`{short(bad[0], 50)}` navigates from the element whose styles are being resolved; it is not attached to its parent yet (the `parent` argument is the parent), so the result is None")
  ctx.ok("UNATTACHED", "ttconv.isd:StyleProcessors|inherit / compute use the parent argument", "src/main/python/ttconv/isd.py", f"{n} methods scanned")
  ctx.floor("UNATTACHED", "inherit / compute methods", n, 10)


def run(ctx):
  common.check_shared_helpers(ctx, validators=True, chains=True)
  isdrules.check_style_order(ctx)
  n = isdrules.check_compute_order(ctx)
  ctx.floor("TAB-compute-order", "processors with a compute()", n, 10)
  check_style_tables(ctx)
  na = isdrules.check_axes(ctx)
  ctx.floor("AXIS", "_compute_length call sites", na, 12)
  check_units(ctx)
  check_position(ctx)
  check_ruby_font_size(ctx)
  check_unattached(ctx)
  # the animation step that is active at t decides the value: [begin, end) as in C01
  isdrules.check_activity_guards(ctx)
  # ... and its interval is resolved against the element that carries the step
  nf = isdrules.check_frames(ctx, ctx.ix.func("ttconv.isd:ISD._process_element"), recursive_name="_process_element")
  ctx.floor("DEP-frame", "frame agreement sites in _process_element", nf, 2)
  ctx.floor("ORD-animlast", "loops over animation steps in _process_element", isdrules.check_animation_last_wins(ctx, ctx.ix.func("ttconv.isd:ISD._process_element")), 1)
  from . import c13 as _c13
  _c13.check_compute_bookkeeping(ctx)
  shape.check_cache_keys(ctx, common.funcs(ctx, ["ttconv.isd"]))
  common.check_history_independence(ctx, common.CORE)


def check_position(ctx):
  """FIN-position: tts:position resolved into tts:origin.  StyleProcessors.Position.compute is interpreted (rules/minieval.py) on
  sample regions - extents smaller and larger than the root container, each edge pair, offsets in %, c and px - and the origin it
  sets is compared with TTML2 10.2.31: the offset is measured from the named edge of the root container to the same edge of the
  region, and a percentage refers to the space the region leaves (container minus region), so
      left  o -> x = o                right  o -> x = (100 - W) - o          (o = p/100 * (100 - W) for a percentage p)
  and likewise for top / bottom with the height."""
  from fractions import Fraction as F
  from ..consteval import EnumMember, NotConst as _NC, Raised as _R
  from ..rules.minieval import MiniEval, Node
  ix = ctx.ix
  f = ix.func("ttconv.isd:StyleProcessors.Position.compute")
  ctx.unit(f.module)
  sp = ix.mod("ttconv.style_properties")
  lt = ix.cls("ttconv.style_properties:LengthType")
  pt = ix.cls("ttconv.style_properties:PositionType")
  me0 = MiniEval(ix)
  U = me0._enum_table(lt.nested["Units"], f)
  HE = me0._enum_table(pt.nested["HEdge"], f)
  VE = me0._enum_table(pt.nested["VEdge"], f)

  def L(v, u):
    return {"__record__": "LengthType", "value": v, "units": U[u]}
  rows, cols, pxw, pxh = 15, 32, 640, 480
  key = f"{f.qualname}|position and edges resolve into the origin"
  bad, n = [], 0
  for (W, H) in ((50, 20), (100, 100), (120, 20)):
    for (he, ho, hu), (ve, vo, vu) in ((("left", 10, "pct"), ("top", 20, "pct")), (("right", 10, "pct"), ("bottom", 0, "pct")), (("right", 0, "pct"), ("bottom", 25, "pct")),
                                       (("left", 50, "pct"), ("bottom", 50, "pct")), (("right", 2, "c"), ("bottom", 3, "c")), (("right", 64, "px"), ("top", 48, "px")), (("left", 4, "c"), ("bottom", 96, "px"))):
      def off(o, u, free, cell, px):
        return {"pct": F(o, 100) * free, "c": F(o) * F(100, cell), "px": F(o) * F(100, px)}[u]
      ox = off(ho, hu, 100 - W, cols, pxw)
      oy = off(vo, vu, 100 - H, rows, pxh)
      want = (ox if he == "left" else (100 - W) - ox, oy if ve == "top" else (100 - H) - oy)
      pos = {"__record__": "PositionType", "h_offset": L(ho, hu), "v_offset": L(vo, vu), "h_edge": HE[he], "v_edge": VE[ve]}
      ext = {"__record__": "ExtentType", "height": L(H, "rh"), "width": L(W, "rw")}
      doc = Node("ContentDocument", "doc", ())
      styles_ = {"Position": pos, "Extent": ext}
      elem = Node("Region", "region", (), doc=doc)
      methods = {
        "get_style": lambda n_, p_: styles_.get(getattr(p_, "name", p_)),
        "set_style": lambda n_, p_, v_: styles_.__setitem__(getattr(p_, "name", p_), v_),
        "get_doc": lambda n_: doc,
        "get_cell_resolution": lambda n_: {"__record__": "CellResolutionType", "rows": rows, "columns": cols},
        "get_px_resolution": lambda n_: {"__record__": "PixelResolutionType", "width": pxw, "height": pxh},
      }
      try:
        MiniEval(ix, node_methods=methods).call(f, [f.cls, None, elem])
      except _R:
        bad.append(f"extent {W}x{H}, {he} {ho}{hu} {ve} {vo}{vu}: raises")
        n += 1
        continue
      except _NC as ex_:
        ctx.undecide("FIN-position", f"{f.qualname}: not in the interpreted subset ({ex_})")
        return
      o_ = styles_.get("Origin")
      try:
        got = (o_["x"]["value"], o_["y"]["value"])
        units = (o_["x"]["units"].name, o_["y"]["units"].name)
      except (TypeError, KeyError, AttributeError):
        ctx.undecide("FIN-position", f"{f.qualname}: the origin it sets is not a CoordinateType of two lengths the rule reads")
        return
      n += 1
      if units != ("rw", "rh") or any(abs(float(g_) - float(w_)) > 1e-9 for g_, w_ in zip(got, want)):
        bad.append(f"extent {W}rw x {H}rh, position `{he} {ho}{hu} {ve} {vo}{vu}`: origin ({float(got[0]):g}{units[0]}, {float(got[1]):g}{units[1]}) instead of ({float(want[0]):g}rw, {float(want[1]):g}rh)")
  ctx.check(not bad, "FIN-position", key, ctx.where(f.module, f.node), f"interpreted on {n} (extent, position) samples",
            "Position.compute, interpreted on sample regions: " + "; ".join(bad[:4]) + (f" (+{len(bad) - 4} more)" if len(bad) > 4 else "") +
            " - the region is placed elsewhere than tts:position says (TTML2 10.2.31: offsets run from the named edge of the container to the same edge of the region; percentages refer to container minus region)")
