"""C04 - reading IMSC/TTML XML follows TTML timing, styling and whitespace semantics (structural clauses)."""
from __future__ import annotations

import ast

from ..consteval import ConstEval
from ..cfg import CFG
from ..core import AnalysisError, ClassInfo, FuncInfo, own_nodes, parent, short, unparse
from ..rules import lint, exa, exc, isdrules
from ..typing_lite import Typer
from . import common

EXPLANATION = (
  "Decides these clauses for every TTML/IMSC input: (EXC-attr) at every attribute-extraction site of the reader - the four "
  "prop.to_model(...) sites and every imsc_attr.*.extract(...) site - the set of exception classes the parser can raise (explicit "
  "raises, Enum[...] KeyError, Enum(x)/int/float/Fraction ValueError, Fraction(a,b) and division ZeroDivisionError, unproven split "
  "subscripts IndexError via split-length intervals, validating dataclass constructors, transitively over the resolved callees and "
  "all extract() overrides) is caught at or below the site, so a malformed attribute is logged and ignored and never aborts the "
  "read; (NONZERO) frame and tick rates reaching the time-expression parser are positive; (PRI-style) in ParsingContext.process "
  "nested styling (guarded) precedes referential styling (guarded, references iterated in reverse so later references win; chained "
  "references popped last-first with setdefault) which precedes specified styling (unconditional, last); (EXA) time expressions "
  "reach set_begin/set_end/DiscreteAnimationStep as exact rationals; (DSP-elements) every TTML content element class is in the "
  "reader's dispatch list and the ruby attribute values / has_* capability flags equal doc/data_model.md and TTML; (INH) xml:lang "
  "and xml:space take the element's own value, else the parent's; (NUL-arith) optional temporal quantities are not used in "
  "arithmetic unguarded."
  " (FIN-lwsp, shared with C13) what the reader delivers is observed through snapshots: the white-space step of _process_element interpreted on sample paragraphs, among them preserved spans that end in a tab / line feed / carriage return before default white space;"
  " (FIN-timeparse) parse_time_expression interpreted on a grid of time expressions (frame labels up to the last one of a second at integer and 1001-based rates, the label one past it refused, offsets in f / t / ms / s / m / h, clock times) equals TTML2 10.3.1;"
  " (FRAME-time) a frame-of-reference typing of ParsingContext.process: the four time positions of a context are relative to the begin of its parent, so the positions of self, of parent_ctx and of a child live on three different axes; every sum, difference, max / min, comparison and store over them stays on one axis or converts by adding / subtracting exactly the origin of the inner axis (self.desired_begin, parent_ctx.desired_begin), and what reaches set_begin / set_end is relative to the parent's begin;"
  " (FIN-timing) the statements that combine begin / dur / end, evaluated over a grid of small rationals and absent attributes, equal TTML timing: begin relative to the implicit begin; end = min(begin + dur, implicit begin + end), else the one present, else the implicit end;"
  " (STATE-alias / STATE-global) no function of the anchored modules mutates a module- or class-level container, rebinds module / class state or mutates a mutable default argument, so a result never depends on earlier calls;"
  " (LINT-i) no numeric value parsed from the input is defaulted with `or` (a legitimate 0 would be replaced);"
  " (PRI-style, chained) a referenced style is flattened (recursive call) before its properties are copied;"
  ' (EXC-fallback) in every attribute extractor that reads one raw value, each path on which an error is logged returns what the extractor returns for an absent attribute: a malformed value is ignored, it never turns into another value;'
  ' (LINT-l) no tuple / list / set display of the anchored modules lists the same computed component twice and no dict display repeats a key (a key or fingerprint built that way cannot tell apart what the missing component would have);'
  ' (STATE-share) no assignment stores a container field of one object (a field the package updates in place) into a field of another object without copying it, so an in-place update of one object never changes another;'
  " (ITEM-source) an object built once per item of an inner loop is filled only with values that derive from that item or do not vary with the loops, never with a value of the enclosing container standing where the item's own belongs;"
  ' (REGEX-whole) every compiled pattern that an attribute parser applies with `.match` is end-anchored (or `fullmatch` is used), so a value that merely begins well-formed (`30fps`, `10frames`, `#ff0000 please`) is malformed and ignored; (LINT-m) no pattern lists literal alternatives beside an unescaped `.`;'
  ' (LOOP-break) no loop over the items of a collection is left by a branch that does nothing but `break` on a test about the item (end-of-input sentinels, flags set in the loop body and searches whose variable is read afterwards excepted): an item that is to be skipped does not end the processing of the items after it;'
  ' (FIN-regex) each pattern of the time-expression, length, colour and parameter parsers, applied the way its use sites apply it, accepts the well-formed values of the TTML2 syntax with the expected captures and rejects the near misses of a probe table written from the specification;'
  " (TERM-refs) merge_chained_styles takes a style reference out of the element's list before it follows it, so a cycle of style references ends instead of recursing until RecursionError;"
  + common.SHARED_CLAUSES['color'] + common.SHARED_CLAUSES['text']
  + common.SHARED_CLAUSES['chains']
  + common.SHARED_CLAUSES['rubykids']
  + common.SHARED_CLAUSES['timing']
)
RULE_TEXT = "per extraction call site x exception class, per styling step, per element class x flag, per arithmetic use of an Optional time"
UNDECIDED = ["par/seq/dur resolution and implicit durations as values", "white-space and anonymous-span semantics", "time expression arithmetic per syntax (h/m/s/ms/f/t)"]
TRUSTED = ["may-raise summaries of rules/exc.py (class-hierarchy dispatch, regex-validated conversions accepted)", "element capability table written from TTML2 / doc/data_model.md"]

EL = "ttconv.imsc.elements"
RUBY = {"RubyElement": "container", "RbElement": "base", "RtElement": "text", "RpElement": "delimiter", "RbcElement": "baseContainer", "RtcElement": "textContainer"}
# class -> (has_timing, has_region, has_styles, is_mixed, has_children)
FLAGS = {
  "RegionElement": (True, False, True, False, False), "SetElement": (False, False, False, False, False),
  "BodyElement": (True, True, True, False, True), "DivElement": (True, True, True, False, True), "PElement": (True, True, True, True, True),
  "SpanElement": (True, True, True, True, True), "RubyElement": (True, True, True, False, True), "RbElement": (True, True, True, True, True),
  "RtElement": (True, True, True, True, True), "RpElement": (True, True, True, True, True), "RbcElement": (True, True, True, False, True),
  "RtcElement": (True, True, True, False, True), "BrElement": (False, False, True, False, False),
}


def check_nonzero_rates(ctx, r: exc.Raises):
  """Supporting check for the tabled fact 'frame_rate / tick_rate are positive in parse_time_expression'."""
  ix = ctx.ix
  ok_all = True
  fr = ix.func("ttconv.imsc.attributes:FrameRateAttribute.extract")
  ctx.unit(fr.module)
  ce = ConstEval(ix)
  # by interpretation on sample <tt> elements (attribute values: absent, valid, zero, malformed); the frozen shape is the fallback
  from ..consteval import NotConst as _NC, Raised as _R
  from ..rules.minieval import MiniEval
  from fractions import Fraction as _F

  class _Attrib(dict):
    def get(self, k, d=None):
      return dict.get(self, k.split("}")[-1] if isinstance(k, str) else k, d)
  samples = [({}, _F(30)), ({"frameRate": "25"}, _F(25)), ({"frameRate": "24", "frameRateMultiplier": "1000 1001"}, _F(24000, 1001)),
             ({"frameRate": "30", "frameRateMultiplier": "1000 1001"}, _F(30000, 1001)), ({"frameRateMultiplier": "1 2"}, _F(15)),
             ({"frameRate": "0"}, None), ({"frameRate": "25", "frameRateMultiplier": "0 1"}, None), ({"frameRate": "25", "frameRateMultiplier": "1 0"}, None),
             ({"frameRate": "abc"}, None), ({"frameRate": "25", "frameRateMultiplier": "x"}, None), ({"frameRate": "-5"}, None), ({"frameRate": "25 "}, None)]
  decided = True
  bad_ = []
  for attrs, want in samples:
    try:
      r_ = MiniEval(ix, opaque_calls={"LOGGER": None}).call(fr, [{"__record__": "Element", "attrib": _Attrib(attrs)}])
    except _R:
      bad_.append(f"{attrs}: raises")
      continue
    except _NC:
      decided = False
      break
    if not isinstance(r_, (int, _F)) or isinstance(r_, bool):
      decided = False
      break
    if r_ <= 0:
      bad_.append(f"{attrs}: returns {r_}, a non-positive rate (time expressions in frames then divide by zero)")
    elif want is not None and r_ != want:
      bad_.append(f"{attrs}: returns {r_} instead of exactly {want} (ttp:frameRate x ttp:frameRateMultiplier as a ratio of integers)")
  if decided:
    ok = not bad_
    ok_all &= ctx.check(ok, "NONZERO", f"{fr.qualname}|returns only positive frame rates", ctx.where(fr.module, fr.node), f"interpreted on {len(samples)} sample attribute sets: positive and exact",
                        "FrameRateAttribute.extract, interpreted on sample <tt> elements: " + "; ".join(bad_[:4]))
  else:
    rets = [x for x in own_nodes(fr.node) if isinstance(x, ast.Return) and x.value is not None]
    bad = []
    for x in rets:
      v = ce.try_ev(fr.module, x.value, fr.cls, default=None)
      if v is not None and not isinstance(v, str) and getattr(v, "text", None) is None and v > 0:
        continue
      txt = unparse(x.value)
      guard = [g for g in own_nodes(fr.node) if isinstance(g, ast.If) and unparse(g.test).replace(" ", "") in (f"{txt}<=0".replace(" ", ""), f"{txt}<0".replace(" ", "") + "x")
               and g.body and isinstance(g.body[-1], ast.Return) and g.lineno < x.lineno]
      if not guard:
        bad.append(txt)
    if not bad and len(rets) >= 1:
      ctx.ok("NONZERO", f"{fr.qualname}|returns only positive frame rates", ctx.where(fr.module, fr.node), "every returned rate is a positive constant or guarded by `<= 0`")
    else:
      ok_all = False
      ctx.undecide("NONZERO", f"{fr.qualname}: neither in the interpreted subset nor of the reference shape")
  tr = ix.func("ttconv.imsc.attributes:TickRateAttribute.extract")
  rets = [x for x in own_nodes(tr.node) if isinstance(x, ast.Return) and x.value is not None]
  bad = []
  for x in rets:
    v = ce.try_ev(tr.module, x.value, tr.cls, default=None)
    if isinstance(v, int) and v > 0:
      continue
    txt = unparse(x.value)
    cur, par_ = x, parent(x)
    guarded = False
    while par_ is not None and par_ is not tr.node:
      if isinstance(par_, ast.If) and f"{txt} > 0" in unparse(par_.test) and any(cur is b or any(cur is y for y in ast.walk(b)) for b in par_.body):
        guarded = True
      cur, par_ = par_, parent(par_)
    if not guarded:
      bad.append(txt)
  ok_all &= ctx.check(not bad, "NONZERO", f"{tr.qualname}|returns only positive tick rates", ctx.where(tr.module, tr.node), "every returned tick rate is positive",
                      f"TickRateAttribute.extract can return a non-positive tick rate ({bad}): tick time expressions divide by zero")
  # the parsing context's rates are only assigned from those extractors (and positive defaults)
  n_assign = 0
  for f in ix.funcs.values():
    if not f.module.name.startswith("ttconv.imsc"):
      continue
    for st in own_nodes(f.node):
      if isinstance(st, ast.Assign) and isinstance(st.targets[0], ast.Attribute) and st.targets[0].attr in ("frame_rate", "tick_rate") and "temporal_context" in unparse(st.targets[0]) \
          and "writ" not in f.qualname.lower():
        n_assign += 1
        src = unparse(st.value)
        ok_all &= ctx.check(src.endswith("FrameRateAttribute.extract(xml_elem)") or src.endswith("TickRateAttribute.extract(xml_elem)"), "NONZERO",
                            f"{f.qualname}|{unparse(st.targets[0])} <- validated extractor", ctx.where(f.module, st), src,
                            f"`{unparse(st)}` assigns a rate that does not come from the validating extractors")
  tc = ix.cls("ttconv.imsc.attributes:TemporalAttributeParsingContext")
  d = {k: ce.try_ev(tc.module, v, tc) for k, v in tc.assigns.items()}
  ok_all &= ctx.check(all(isinstance(d.get(k), (int,)) or (d.get(k) is not None and d.get(k) > 0) for k in ("frame_rate", "tick_rate")) and all(d[k] > 0 for k in ("frame_rate", "tick_rate")),
                      "NONZERO", f"{tc.qualname}|positive defaults", ctx.where(tc.module, tc.node), f"defaults {d}", f"TemporalAttributeParsingContext defaults are not positive: {d}")
  if ok_all:
    r.nonzero = {("ttconv.imsc.utils:parse_time_expression", "frame_rate"), ("ttconv.imsc.utils:parse_time_expression", "tick_rate")}
  return ok_all


def extraction_sites(ix, f: FuncInfo):
  for c in own_nodes(f.node):
    if isinstance(c, ast.Call) and isinstance(c.func, ast.Attribute):
      if c.func.attr == "extract" and unparse(c.func.value).startswith("imsc_attr."):
        yield c, "attribute"
      elif c.func.attr == "to_model" and isinstance(c.func.value, ast.Name):
        yield c, "style"


def check_exceptions(ctx, r: exc.Raises, funcs, allowed_classes=(), rule="EXC-attr"):
  ix = ctx.ix
  n = 0
  for f in funcs:
    for c, kind in extraction_sites(ix, f):
      n += 1
      ctx.unit(f.module)
      unc = exc.uncaught_at(r, f, c)
      unc = {k: v for k, v in unc.items() if k not in allowed_classes}
      key = f"{f.qualname}|{short(c, 70)}"
      if not unc:
        ctx.ok(rule, key, ctx.where(f.module, c), "every exception class the parser can raise is caught at or below the call site")
      for cls_, wit in sorted(unc.items()):
        ctx.bad(rule, f"{key}|{cls_}", ctx.where(f.module, c),
                f"`{short(c, 60)}` can raise {cls_} (from {wit}) and no handler at or above this call inside the reader catches it: "
                "a malformed attribute aborts the whole read instead of being logged and ignored")
  return n


def check_style_precedence(ctx):
  ix = ctx.ix
  f = ix.func(f"{EL}:ContentElement.ParsingContext.process")
  ctx.unit(f.module)
  body = f.node.body
  idx = {}
  for i, st in enumerate(body):
    t = unparse(st)
    if "self.process_referential_styling(xml_elem)" in t:
      idx["referential"] = i
    if "self.process_specified_styling(xml_elem)" in t:
      idx["specified"] = i
    if isinstance(st, ast.For) and "StyleElement.from_xml(self, child_xml_element)" in t:
      idx["nested"] = i
  for k in ("nested", "referential", "specified"):
    if k not in idx:
      ctx.bad("PRI-style", f"{f.qualname}|{k} styling step present", ctx.where(f.module, f.node), f"the {k} styling step was not found in ParsingContext.process")
      return
  ctx.check(idx["nested"] < idx["referential"] < idx["specified"], "PRI-style", f"{f.qualname}|nested < referential < specified", ctx.where(f.module, f.node),
            f"statement order {idx}", f"styling steps are ordered {idx}; inline must override nested, which must override referential styling")
  spec = ix.func(f"{EL}:ContentElement.ParsingContext.process_specified_styling")
  uncond = any(isinstance(c, ast.Call) and unparse(c.func) == "self.model_element.set_style" and not any(isinstance(a, ast.If) for a in _anc(c, spec.node)) for c in own_nodes(spec.node))
  ctx.check(uncond, "PRI-style", f"{spec.qualname}|specified styles are set unconditionally", ctx.where(spec.module, spec.node), "unguarded set_style", "specified (inline) styling no longer overrides earlier values unconditionally")
  ref = ix.func(f"{EL}:ContentElement.ParsingContext.process_referential_styling")
  guarded = any(isinstance(g, ast.If) and "not self.model_element.has_style" in unparse(g.test) for g in own_nodes(ref.node))
  rev = _reference_order(ref)
  ctx.check(guarded == rev, "PRI-style", f"{ref.qualname}|later style references override earlier ones", ctx.where(ref.module, ref.node),
            f"reversed iteration: {rev}, first-wins guard: {guarded}",
            f"referential styling iterates {'in reverse' if rev else 'forwards'} with{'' if guarded else 'out'} a not-already-set guard: earlier references override later ones")
  ctx.check(guarded, "PRI-style", f"{ref.qualname}|referential styling does not override nested styling", ctx.where(ref.module, ref.node), "guarded by has_style",
            "referential styling overwrites values that nested styling already set")
  st = ix.func(f"{EL}:StyleElement.from_xml")
  # every set_style in the nested-styling function runs only when the element has no value for that property yet
  # (`get_style(p) is None` directly or through a local, or `not has_style(p)`)
  from ..rules import match as _m

  def unset_test(t, pol, recv, prop):
    t = _m.inline_locals_deep(st.node, t)
    isnone = _m.is_none_test(t, lambda x: isinstance(x, ast.Call) and isinstance(x.func, ast.Attribute) and x.func.attr == "get_style"
                             and unparse(x.func.value) == recv and x.args and unparse(x.args[0]) == prop)
    if isnone is not None:
      return isnone == pol
    neg = False
    while isinstance(t, ast.UnaryOp) and isinstance(t.op, ast.Not):
      neg, t = not neg, t.operand
    if isinstance(t, ast.Call) and isinstance(t.func, ast.Attribute) and t.func.attr == "has_style" and unparse(t.func.value) == recv and t.args and unparse(t.args[0]) == prop:
      return pol == neg
    return False
  sets = [c for c in own_nodes(st.node) if isinstance(c, ast.Call) and isinstance(c.func, ast.Attribute) and c.func.attr == "set_style" and len(c.args) == 2]
  nested_guard = bool(sets) and all(any(unset_test(t, pol, unparse(c.func.value), unparse(c.args[0])) for t, pol in _m.enclosing_conditions(c, st.node)) for c in sets)
  ctx.check(nested_guard, "PRI-style", f"{st.qualname}|nested styling keeps earlier nested values", ctx.where(st.module, st.node), "guarded by `is None`", "nested styling overwrites earlier values")
  mc = ix.func(f"{EL}:StylingElement.ParsingContext.merge_chained_styles")
  t = unparse(mc.node)
  # (the order of references and the precedence of own values are decided by FIN-chain, by interpretation on sample style graphs; this shape
  #  is only consulted when that interpretation is not possible)
  chain_decided = any(o.rule == "FIN-chain" for o in ctx.obs)
  if chain_decided:
    ctx.ok("PRI-style", f"{mc.qualname}|chained references: last reference wins, own values win", ctx.where(mc.module, mc.node), "decided by FIN-chain on sample style graphs")
  elif "style_refs.pop()" in t and ".setdefault(" in t and "self.merge_chained_styles(" in t:
    ctx.ok("PRI-style", f"{mc.qualname}|chained references: last reference wins, own values win", ctx.where(mc.module, mc.node), "pops references last-first with setdefault")
  else:
    ctx.undecide("PRI-style", f"{mc.qualname}: neither interpreted (FIN-chain) nor of the reference shape")
  # chained references are merged only after every <style> of the <styling> element is registered (forward references)
  sx = ix.func(f"{EL}:StylingElement.from_xml")
  reg_loops = [lp for lp in own_nodes(sx.node) if isinstance(lp, ast.For) and any(isinstance(c, ast.Call) and unparse(c.func).endswith("StyleElement.from_xml") for c in own_nodes(lp))]
  merges = [c for c in own_nodes(sx.node) if isinstance(c, ast.Call) and unparse(c.func).endswith("merge_chained_styles")]
  if reg_loops and merges:
    inside = [c for c in merges if any(any(x is c for x in own_nodes(lp)) for lp in reg_loops)]
    ctx.check(not inside, "PRI-style", f"{sx.qualname}|styles are merged after all of them are registered", ctx.where(sx.module, merges[0]), "the merge is outside the loop that reads the <style> children",
              "chained style references are merged while the <style> elements are still being read: a style that refers to one defined later in the document loses what it should inherit")
  # the referenced style is flattened (recursion) before its properties are copied
  rec = [c for c in own_nodes(mc.node) if isinstance(c, ast.Call) and unparse(c.func).endswith("merge_chained_styles")]
  copies = [c for c in own_nodes(mc.node) if isinstance(c, ast.Call) and isinstance(c.func, ast.Attribute) and c.func.attr in ("setdefault", "update") and "styles" in unparse(c.func.value)]
  if rec and copies:
    cfg = CFG(mc.node)
    dom = cfg.dominators()
    rid = cfg.stmt_node_containing(rec[0])
    ok = all(rid in dom.get(cfg.stmt_node_containing(c), ()) for c in copies)
    ctx.check(ok, "PRI-style", f"{mc.qualname}|a referenced style is flattened before it is copied", ctx.where(mc.module, rec[0]), "the recursive call dominates the copy of the referenced style's properties",
              "the properties of a referenced style are copied before that style's own references are merged into it: properties reached through two or more levels of chaining are lost")


def _anc(node, stop):
  out = []
  cur = parent(node)
  while cur is not None and cur is not stop:
    out.append(cur)
    cur = parent(cur)
  return out


def check_elements(ctx):
  ix = ctx.ix
  m = ix.mod(EL)
  ctx.unit(m)
  base = ix.cls(f"{EL}:ContentElement")
  subs = {c.name: c for c in ix.all_subclasses(base) if c.module is m}
  ctx.floor("DSP-elements", "TTML content element classes", len(subs), 13)
  fx = ix.func(f"{EL}:ContentElement.from_xml")
  lst = None
  # the dispatch table: a list / tuple (written in from_xml or a constant it names) whose members are content element classes
  cands = [n for n in own_nodes(fx.node) if isinstance(n, (ast.List, ast.Tuple, ast.Set))]
  cands += [ix.deref(m, n, cls=base, func=fx) for n in own_nodes(fx.node) if isinstance(n, (ast.Name, ast.Attribute)) and isinstance(n.ctx, ast.Load)]
  for t in cands:
    if isinstance(t, (ast.List, ast.Tuple, ast.Set)) and len(t.elts) >= 5 and all(unparse(e).split(".")[-1] in subs for e in t.elts):
      lst = [unparse(e).split(".")[-1] for e in t.elts]
  if lst is None:
    raise AnalysisError("ContentElement.from_xml: content_classes list not found")
  for name, c in sorted(subs.items()):
    ctx.check(name in lst, "DSP-elements", f"{EL}:{name}|dispatched by ContentElement.from_xml", ctx.where(m, c.node), "in content_classes",
              f"{name} is a TTML content element class but is missing from content_classes: such elements are silently dropped by the reader")
    if name in FLAGS:
      ce = ConstEval(ix)
      got = tuple(ce.try_ev(m, c.assigns[k], c) if k in c.assigns else None for k in ("has_timing", "has_region", "has_styles", "is_mixed", "has_children"))
      ctx.check(got == FLAGS[name], "DSP-elements", f"{EL}:{name}|capability flags", ctx.where(m, c.node), f"{got}",
                f"{name} (has_timing, has_region, has_styles, is_mixed, has_children) = {got}; TTML / data model give {FLAGS[name]}")
    if name in RUBY:
      ce = ConstEval(ix)
      got = ce.try_ev(m, c.assigns.get("ruby"), c) if "ruby" in c.assigns else None
      ctx.check(got == RUBY[name], "DSP-elements", f"{EL}:{name}|tts:ruby={got}", ctx.where(m, c.node), f"tts:ruby value {got}",
                f"{name} is selected by tts:ruby=\"{got}\"; doc/data_model.md gives \"{RUBY[name]}\"")
      isi = c.methods.get("is_instance")
      ctx.check(isi is not None and f"== {name}.ruby" in unparse(isi.node), "DSP-elements", f"{EL}:{name}|is_instance tests its own ruby value", ctx.where(m, c.node), "tests own value",
                f"{name}.is_instance does not compare tts:ruby with {name}.ruby")
  # span is a span only without tts:ruby
  sp = subs["SpanElement"].methods["is_instance"]
  ctx.check("get_ruby_attr(xml_elem) is None" in unparse(sp.node), "DSP-elements", f"{EL}:SpanElement|plain span only without tts:ruby", ctx.where(m, sp.node), "tests absence of tts:ruby",
            "SpanElement.is_instance no longer excludes spans that carry tts:ruby")


def check_inheritance(ctx):
  ix = ctx.ix
  for meth, attr, ext in (("process_lang_attribute", "lang", "XMLLangAttribute"), ("process_space_attribute", "space", "XMLSpaceAttribute")):
    f = ix.func(f"{EL}:TTMLElement.ParsingContext.{meth}")
    ctx.unit(f.module)
    ok = False
    from ..rules import match as _m
    for st in own_nodes(f.node):
      if isinstance(st, ast.Assign) and unparse(st.targets[0]) == f"self.{attr}" and isinstance(st.value, ast.IfExp):
        v = st.value
        own, par_ = (v.body, v.orelse) if unparse(v.orelse).endswith(f"parent_ctx.{attr}") else (v.orelse, v.body)
        isnone = _m.is_none_test(v.test, lambda e: unparse(e) == unparse(own))
        # own value is used on the not-None side, the parent's on the None side
        ok = isnone is not None and unparse(par_) == f"parent_ctx.{attr}" and ((isnone is False and own is v.body) or (isnone is True and own is v.orelse))
        # and the own value really is the element's attribute
        defs = _m.local_defs(f.node).get(unparse(own), [])
        ok = ok and len(defs) == 1 and ext in unparse(defs[0])
    ctx.check(ok, "INH", f"{f.qualname}|own value else the parent's", ctx.where(f.module, f.node), f"self.{attr} = own if own is not None else parent_ctx.{attr}",
              f"xml:{attr} is no longer 'the element's own value, else the parent's'")


def _reference_order(ref) -> bool:
  """True when the loop over the style references of process_referential_styling visits them last to first.  Recognised: a for
  loop over the extracted list (directly, through a local, `reversed(..)`, `[::-1]`) and a while loop over an index that starts
  at one end and moves to the other; anything else is not decided."""
  from ..rules import match as _m
  defs_ = _m.local_defs(ref.node)

  def base(e):
    while isinstance(e, ast.Name) and len(defs_.get(e.id, [])) == 1:
      e = defs_[e.id][0]
    return e
  for lp in own_nodes(ref.node):
    if isinstance(lp, ast.For):
      it, rev = lp.iter, False
      while True:
        it = base(it)
        if isinstance(it, ast.Call) and isinstance(it.func, ast.Name) and it.func.id == "reversed" and len(it.args) == 1:
          it, rev = it.args[0], not rev
        elif isinstance(it, ast.Subscript) and isinstance(it.slice, ast.Slice) and it.slice.lower is None and it.slice.upper is None and unparse(it.slice.step or ast.Constant(1)) == "-1":
          it, rev = it.value, not rev
        elif isinstance(it, ast.Call) and isinstance(it.func, ast.Name) and it.func.id in ("list", "tuple", "iter") and len(it.args) == 1:
          it = it.args[0]
        else:
          break
      if "StyleAttribute.extract" in unparse(it):
        return rev
    if isinstance(lp, ast.While):
      idx = [x.id for x in ast.walk(lp.test) if isinstance(x, ast.Name)]
      for i in idx:
        subs = [x for x in own_nodes(lp) if isinstance(x, ast.Subscript) and unparse(x.slice) == i and "StyleAttribute.extract" in unparse(base(x.value))]
        steps = [x for x in own_nodes(lp) if isinstance(x, ast.AugAssign) and unparse(x.target) == i and isinstance(x.value, ast.Constant) and x.value.value == 1]
        inits = defs_.get(i, [])
        if subs and len(steps) == 1 and len(inits) == 1:
          down = isinstance(steps[0].op, ast.Sub)
          init = unparse(inits[0]).replace(" ", "")
          test = unparse(lp.test).replace(" ", "")
          if down and init.startswith("len(") and init.endswith(")-1") and test in (f"{i}>=0", f"{i}>-1", f"0<={i}"):
            return True
          if not down and init == "0" and test.startswith(f"{i}<len("):
            return False
  raise AnalysisError(f"{ref.qualname}: the loop over the style references was not recognised (for over the extracted list, or while over an index)")


def check_reference_recursion(ctx):
  """TERM-refs: style references form a graph that the document author controls (a style may reference itself, or two styles
  each other).  merge_chained_styles recurses along references; it terminates on a cycle only because a reference is taken
  OUT of the element's reference list before the recursion follows it, so that re-entering an element finds that reference
  gone.  Checked: every recursive call is dominated, within the same loop iteration, by a statement that removes the followed
  reference from the list (pop / remove / del / re-binding the list without it)."""
  from ..cfg import CFG
  ix = ctx.ix
  f = ix.func("ttconv.imsc.elements:StylingElement.ParsingContext.merge_chained_styles")
  ctx.unit(f.module)
  rec = [c for c in own_nodes(f.node) if isinstance(c, ast.Call) and isinstance(c.func, ast.Attribute) and c.func.attr == f.name]
  if not rec:
    raise AnalysisError("merge_chained_styles no longer calls itself (anchor changed)")
  cfg = CFG(f.node)
  dom = cfg.dominators()
  refs_attr = None
  for lp in own_nodes(f.node):
    if isinstance(lp, (ast.While, ast.For)):
      for x in ast.walk(lp.test if isinstance(lp, ast.While) else lp.iter):
        if isinstance(x, ast.Attribute) and x.attr.endswith("refs"):
          refs_attr = unparse(x)
  if refs_attr is None:
    raise AnalysisError("merge_chained_styles: the loop over the style references was not found")
  removers = []
  for n in own_nodes(f.node):
    if isinstance(n, ast.Call) and isinstance(n.func, ast.Attribute) and n.func.attr in ("pop", "remove", "clear") and unparse(n.func.value) == refs_attr:
      removers.append(n)
    elif isinstance(n, ast.Delete) and any(refs_attr in unparse(t) for t in n.targets):
      removers.append(n)
    elif isinstance(n, ast.Assign) and unparse(n.targets[0]) == refs_attr:
      removers.append(n)
  for c in rec:
    cn = cfg.stmt_node_containing(c)
    ok = False
    for r_ in removers:
      rn = cfg.stmt_node_containing(r_) if not isinstance(r_, ast.stmt) else cfg.node_of(r_)
      loop_c = next((a for a in _ancestors_of(c) if isinstance(a, (ast.For, ast.While))), None)
      loop_r = next((a for a in _ancestors_of(r_) if isinstance(a, (ast.For, ast.While))), None)
      if rn is not None and cn is not None and rn in dom.get(cn, ()) and rn != cn and (loop_c is loop_r or loop_r is None):
        ok = True
    ctx.check(ok, "TERM-refs", f"{f.qualname}|{short(c, 60)}", ctx.where(f.module, c), f"a removal from `{refs_attr}` dominates the recursive call",
              f"`{short(c, 60)}` follows a style reference while `{refs_attr}` still holds it: a style that references itself, or a cycle of style references, recurses until RecursionError "
              f"(the reference must be taken out of the list before it is followed)")
  return len(rec)


def _ancestors_of(node):
  cur = getattr(node, "_parent", None)
  while cur is not None:
    yield cur
    cur = getattr(cur, "_parent", None)


def check_optional_arithmetic(ctx, funcs, rule="NUL-arith"):
  """Optional[Fraction] fields of a parsing context used as operands of + - or min/max must be
  guarded by an `is not None` test (enclosing if / conditional expression / and-chain) or be one of
  the fields assigned a non-None value before any child is processed (desired_begin, implicit_begin)."""
  ix = ctx.ix
  ctxcls = ix.cls(f"{EL}:TTMLElement.ParsingContext")
  init = ctxcls.methods["__init__"]
  optional = set()
  for st in own_nodes(init.node):
    if isinstance(st, ast.AnnAssign) and "Optional" in unparse(st.annotation) and "Fraction" in unparse(st.annotation) and isinstance(st.target, ast.Attribute):
      optional.add(st.target.attr)
  proc = ix.func(f"{EL}:ContentElement.ParsingContext.process")
  # fields definitely assigned non-None before the children loop
  early = set()
  for st in proc.node.body:
    if isinstance(st, ast.For):
      break
    for x in ast.walk(st):
      if isinstance(x, ast.Assign) and isinstance(x.targets[0], ast.Attribute) and unparse(x.targets[0].value) == "self" and x.targets[0].attr in optional:
        if not (isinstance(x.value, ast.Constant) and x.value.value is None) and "extract(" not in unparse(x.value):
          if not any(isinstance(a, (ast.If,)) for a in _anc(x, proc.node)) or x.targets[0].attr in ("implicit_begin",):
            early.add(x.targets[0].attr)
  nullable = optional - early
  n = 0
  from ..rules import nul
  for f in funcs:
    for node in own_nodes(f.node):
      ops = []
      if isinstance(node, ast.BinOp) and isinstance(node.op, (ast.Add, ast.Sub)):
        ops = [node.left, node.right]
      elif isinstance(node, ast.Call) and isinstance(node.func, ast.Name) and node.func.id in ("min", "max"):
        ops = list(node.args)
      for o in ops:
        if isinstance(o, ast.Attribute) and o.attr in nullable and isinstance(o.value, ast.Name):
          n += 1
          p = unparse(o)
          from ..rules import match as _mt
          # enclosing tests (if / conditional expression, either branch) and early exits before the use
          guarded = any(p in nul.facts_from_test(t_, pol_) for (t_, pol_) in _mt.reaching_conditions(node, f.node))
          ctx.check(guarded, rule, f"{f.qualname}|{short(node, 70)}", ctx.where(f.module, node), f"`{p}` is guarded by an `is not None` test",
                    f"`{p}` is Optional (None = indefinite) and is used in `{short(node, 60)}` without a None guard: TypeError for that document")
  return n


def _assigns_in_every_branch(st, target):
  """True when `st` is an if/elif/else chain whose every leaf branch assigns `target`."""
  if not isinstance(st, ast.If) or not st.orelse:
    return False

  def leaf_ok(body):
    if len(body) == 1 and isinstance(body[0], ast.If) and body[0].orelse:
      return leaf_ok(body[0].body) and leaf_ok(body[0].orelse)
    return any(isinstance(x, ast.Assign) and unparse(x.targets[0]) == target for x in body)
  return leaf_ok(st.body) and leaf_ok(st.orelse)


def check_timing_arithmetic(ctx):
  """FIN-timing: the statements that combine begin / dur / end are evaluated over a grid of small
  rational values (and absent attributes) and compared with TTML2 timing (section 12.4 / SMIL):
  begin is relative to the implicit begin; end = min(begin + dur, implicit begin + end); with one of
  dur / end absent the other alone; with both absent the implicit end."""
  import itertools
  from fractions import Fraction as F
  from ..consteval import FuncEval, NotConst, Raised, _CallingConstEval
  ix = ctx.ix
  f = ix.func(f"{EL}:ContentElement.ParsingContext.process")
  ctx.unit(f.module)
  fe = FuncEval(ix)
  # the statements of process() that write self.desired_end (an if-chain, or one assignment of a conditional expression), evaluated in order
  chains = [st for st in f.node.body if isinstance(st, (ast.If, ast.Assign)) and
            any(isinstance(t, ast.Attribute) and isinstance(t.ctx, ast.Store) and unparse(t) == "self.desired_end" for t in ast.walk(st))]
  if not chains:
    raise AnalysisError(f"{f.qualname}: no statement assigns self.desired_end")
  begins = [st for st in f.node.body if isinstance(st, ast.Assign) and unparse(st.targets[0]) == "self.desired_begin"]
  if len(begins) != 1:
    raise AnalysisError(f"{f.qualname}: expected one assignment of self.desired_begin, found {len(begins)}")

  def run_block(stmts, env):
    ce = _CallingConstEval(ix, fe, f, 0, None)
    e = dict(env)
    fe._block(ce, f, stmts, e)
    return e
  bad, n = [], 0
  try:
    for ib, eb in itertools.product((F(0), F(5)), (None, F(0), F(3, 2))):
      env = run_block(begins, {"self.implicit_begin": ib, "self.explicit_begin": eb})
      n += 1
      want = ib + (eb if eb is not None else 0)
      if env.get("self.desired_begin") != want:
        bad.append(f"implicit begin {ib}, begin={eb}: desired begin {env.get('self.desired_begin')}, TTML gives {want}")
    ctx.check(not bad, "FIN-timing", f"{f.qualname}|begin is relative to the implicit begin", ctx.where(f.module, begins[0]), f"{n} value combinations agree with TTML timing",
              "begin resolution: " + "; ".join(bad[:3]))
    bad, n = [], 0
    for db, ib, dur, end, ie in itertools.product((F(0), F(2)), (F(0), F(1)), (None, F(3), F(10)), (None, F(4), F(20)), (None, F(7))):
      if db < ib:
        continue
      env = run_block(chains, {"self.desired_begin": db, "self.implicit_begin": ib, "self.explicit_dur": dur, "self.explicit_end": end, "self.implicit_end": ie})
      n += 1
      if dur is not None and end is not None:
        want = min(db + dur, ib + end)
      elif dur is not None:
        want = db + dur
      elif end is not None:
        want = ib + end
      else:
        want = ie
      if env.get("self.desired_end") != want:
        bad.append(f"begin at {db} (implicit begin {ib}), dur={dur}, end={end}, implicit end {ie}: desired end {env.get('self.desired_end')}, TTML gives {want}")
    ctx.check(not bad, "FIN-timing", f"{f.qualname}|end = min(begin + dur, implicit begin + end), else the one given, else the implicit end", ctx.where(f.module, chains[0]),
              f"{n} value combinations agree with TTML timing", "end resolution: " + "; ".join(bad[:3]) + (f" (+{len(bad) - 3} more)" if len(bad) > 3 else ""))
  except (NotConst, Raised) as e:
    raise AnalysisError(f"{f.qualname}: the timing statements could not be evaluated over the finite grid ({e})")


def run(ctx):
  common.check_shared_helpers(ctx, color=True, text=True, chains=True, rubykids=True, timing=True)
  ix = ctx.ix
  ty = Typer(ix)
  r = exc.Raises(ix, ty)
  check_nonzero_rates(ctx, r)
  fs = common.funcs(ctx, [EL, "ttconv.imsc.reader"])
  n = check_exceptions(ctx, r, fs)
  ctx.floor("EXC-attr", "attribute extraction call sites in the reader", n, 18)
  check_style_precedence(ctx)
  ne = exa.check_exactness(ctx, common.funcs(ctx, [EL, "ttconv.imsc.utils", "ttconv.imsc.attributes"]), rule="EXA", exempt=common.EXA_EXEMPT,
                           trunc_scope=common.time_trunc_scope(ctx))
  ctx.floor("EXA", "time sinks in the IMSC reader", ne, 3)
  check_elements(ctx)
  check_inheritance(ctx)
  na = check_optional_arithmetic(ctx, common.funcs(ctx, [EL]))
  ctx.floor("NUL-arith", "arithmetic uses of optional temporal fields", na, 4)
  check_timing_arithmetic(ctx)
  from ..rules import probes as _probes
  ctx.floor("FIN-lwsp", "sample paragraphs decided", _probes.check_lwsp_block(ctx), 10)
  ctx.floor("FIN-timeparse", "time expression probes decided", _probes.check_time_expression_probes(ctx), 40)
  from ..rules import frames
  fp = ctx.ix.func(f"{EL}:ContentElement.ParsingContext.process")
  ctx.unit(fp.module)
  ctx.floor("FRAME-time", "typed stores / comparisons / sinks of time positions in ParsingContext.process", frames.check_time_frames(ctx, fp), 8)
  lint.falsy_numeric_default(ctx, common.mods(ctx, ["ttconv.imsc.attributes", "ttconv.imsc.utils", "ttconv.imsc.style_properties", "ttconv.utils"]))
  common.check_item_handlers(ctx, ["ttconv.imsc.reader", "ttconv.imsc.elements", "ttconv.imsc.attributes", "ttconv.imsc.utils", "ttconv.imsc.style_properties", "ttconv.utils"])
  from ..rules import fallback
  nfb = fallback.check_error_fallbacks(ctx, common.funcs(ctx, ["ttconv.imsc.attributes"]), exempt={
    "ttconv.imsc.attributes:ExtentAttribute.extract": "non-integer pixel dimensions are reported and then truncated: the value is used, not ignored (lenient by design, one message)"})
  ctx.floor("EXC-fallback", "attribute extractors with an error path", nfb, 6)
  common.check_regexes(ctx, ["ttconv.imsc.attributes", "ttconv.imsc.utils", "ttconv.imsc.elements", "ttconv.imsc.style_properties", "ttconv.utils"], whole=True, floor=10)
  common.check_regex_probes(ctx, ["ttconv.imsc.utils", "ttconv.imsc.attributes", "ttconv.utils"], floor=16)
  check_reference_recursion(ctx)
  common.check_history_independence(ctx, ["ttconv.imsc.reader", "ttconv.imsc.elements", "ttconv.imsc.attributes", "ttconv.imsc.utils", "ttconv.imsc.style_properties", "ttconv.imsc.namespaces", "ttconv.utils", "ttconv.model", "ttconv.style_properties"])
