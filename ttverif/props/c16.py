"""C16 - the LCD filter simplifies style and layout but keeps the text timeline."""
from __future__ import annotations

import ast

from ..cfg import CFG
from ..core import AnalysisError, own_nodes, short, unparse
from ..rules import lint, live, nul, shape
from . import common

EXPLANATION = (
  "(FIN-decoder) the safe_area and boolean decoders of the filter configuration, interpreted on raw values, accept exactly 0..30 and JSON booleans; "
  "(LINT-o) in the configuration modules and tt.py no value looked up in a mapping (configuration dictionary, parsed JSON) is replaced by a default through a truthiness test: a configured 0, False or empty string is a value, not an absence; "
  "Decides these clauses for every document and configuration: (LIVE) neither the animation remover nor the style whitelist nor the "
  "LCD filter mutates a container while iterating a live view of it, so no animation step or style survives by being skipped; "
  "(TAB-whitelist) for content elements and for regions, the style properties that can remain after the filter - whitelist keys of "
  "the SupportedStylePropertiesFilter applied to that target minus the properties the filter clears on that target afterwards, plus "
  "the properties it sets - are within {DisplayAlign, Extent, Origin, Color, BackgroundColor, TextAlign}; (ORD-compute) a style "
  "processor whose compute() asserts that another property is already root-relative is only called after that property's compute() "
  "on the same element (tts:position needs the computed extent); (NUL) doc.get_body() is never dereferenced or traversed unguarded; "
  "(ORD-repoint) region references are redirected to the retained region before aliased regions are removed; (LINT-c) the safe-area "
  "range test is satisfiable, i.e. values outside 0..30 are actually rejected."
  " (STATE-alias / STATE-global) no function of the anchored modules mutates a module- or class-level container, rebinds module / class state or mutates a mutable default argument, so a result never depends on earlier calls;"
  " (INDEP) tts:origin and tts:position are resolved by independent statements;"
  " (STATE-instance) no filter method other than the constructor writes instance state (one tabled report flag);"
  ' (COVER) the animation remover is applied to the body and to every region and recurses into every child by default; (FIN-range) the configuration decoders, evaluated over -100..200, reject exactly the values outside their documented range, and regions occupy exactly the configured safe area; (LINT-h) numeric configuration values are never tested by truthiness;'
  ' (LINT-k) no instance field declared with a numeric type is tested by truthiness (the number 0 would count as `not set`);'
  ' (TRAV-rec) every function that walks the tree by calling itself on the children reaches that child loop on every path (the three walkers that prune by design are tabled with the rules that decide their pruning);'
  ' (LINT-l) no tuple / list / set display of the anchored modules lists the same computed component twice and no dict display repeats a key (a key or fingerprint built that way cannot tell apart what the missing component would have);'
  ' (STATE-share) no assignment stores a container field of one object (a field the package updates in place) into a field of another object without copying it, so an in-place update of one object never changes another;'
  " (ITEM-source) an object built once per item of an inner loop is filled only with values that derive from that item or do not vary with the loops, never with a value of the enclosing container standing where the item's own belongs;"
  ' (LOOP-break) no loop over the items of a collection is left by a branch that does nothing but `break` on a test about the item (end-of-input sentinels, flags set in the loop body and searches whose variable is read afterwards excepted): an item that is to be skipped does not end the processing of the items after it;'
  ' (FIN-mergekey) the key under which a region is retained, interpreted on sample regions, is equal for begin unset / begin 0 and different when begin, end, writing mode or alignment differ;'
  + " (DSP-units, shared with C03) _compute_length converts every relative unit and returns root-relative lengths (rh, rw) unchanged;"
)
RULE_TEXT = "per live loop, per (target kind, property), per external compute() call, per get_body() use, per range test"
UNDECIDED = ["the text visible at every time is preserved", "idempotence", "merged regions are equivalent (timing, writing mode, alignment as values)",
             "configured colours / alignment are what snapshots compute"]
TRUSTED = ["allowed output style set transcribed from the property statement"]

_INDEX = []
ALLOWED = {"DisplayAlign", "Extent", "Origin", "Color", "BackgroundColor", "TextAlign"}
MODS = ["ttconv.filters.doc.lcd", "ttconv.filters.remove_animations", "ttconv.filters.supported_style_properties", "ttconv.filters.document_filter"]


def _prop_name(e):
  d = unparse(e)
  return d.split(".")[-1] if "StyleProperties." in d else None


def dict_keys(f, var):
  """Keys a dict variable can have: literal keys at its definition, `.update({...})`,
  `dict(other)` copies, minus `del var[K]`."""
  keys = set()
  for st in own_nodes(f.node):
    if isinstance(st, ast.Assign) and len(st.targets) == 1 and isinstance(st.targets[0], ast.Name) and st.targets[0].id == var:
      v = st.value
      if isinstance(v, ast.Dict):
        keys |= {_prop_name(k) for k in v.keys if k is not None}
      elif isinstance(v, ast.Call) and isinstance(v.func, ast.Name) and v.func.id == "dict" and v.args and isinstance(v.args[0], ast.Name):
        keys |= dict_keys(f, v.args[0].id)
      elif isinstance(v, ast.Name) and _INDEX:
        # alias of a module-level whitelist: its keys count; mutating it is reported by STATE-alias
        mod_top = _INDEX[0].toplevel.get(f.module.name, {}).get(v.id)
        if isinstance(mod_top, tuple) and mod_top[0] == "assign" and isinstance(mod_top[2], ast.Dict):
          keys |= {_prop_name(k) for k in mod_top[2].keys if k is not None}
        else:
          raise AnalysisError(f"{f.qualname}: unrecognised construction of whitelist `{var}`: {short(v)}")
      else:
        raise AnalysisError(f"{f.qualname}: unrecognised construction of whitelist `{var}`: {short(v)}")
    if isinstance(st, ast.Call) and isinstance(st.func, ast.Attribute) and st.func.attr == "update" and unparse(st.func.value) == var:
      a = st.args[0] if st.args else None
      if isinstance(a, ast.Dict):
        keys |= {_prop_name(k) for k in a.keys}
      else:
        raise AnalysisError(f"{f.qualname}: unrecognised whitelist update {short(st)}")
    if isinstance(st, ast.Assign) and any(isinstance(t, ast.Subscript) and unparse(t.value) == var for t in st.targets):
      for t in st.targets:
        if isinstance(t, ast.Subscript) and unparse(t.value) == var:
          keys.add(_prop_name(t.slice))
  for st in own_nodes(f.node):
    if isinstance(st, ast.Delete):
      for t in st.targets:
        if isinstance(t, ast.Subscript) and unparse(t.value) == var:
          keys.discard(_prop_name(t.slice))
    if isinstance(st, ast.Call) and isinstance(st.func, ast.Attribute) and st.func.attr == "pop" and unparse(st.func.value) == var and st.args:
      keys.discard(_prop_name(st.args[0]))
  keys.discard(None)
  return keys


def check_whitelist(ctx):
  ix = ctx.ix
  f = ix.func("ttconv.filters.doc.lcd:LCDDocFilter.process")
  ctx.unit(f.module)
  # filter objects -> whitelist variable
  filters = {}
  for st in own_nodes(f.node):
    if isinstance(st, ast.Assign) and isinstance(st.value, ast.Call) and unparse(st.value.func).endswith("SupportedStylePropertiesFilter") \
        and isinstance(st.targets[0], ast.Name) and st.value.args and isinstance(st.value.args[0], ast.Name):
      filters[st.targets[0].id] = st.value.args[0].id
  # region loop variable(s)
  region_vars = set()
  for loop in own_nodes(f.node):
    if isinstance(loop, ast.For) and "iter_regions()" in unparse(loop.iter) and isinstance(loop.target, ast.Name):
      region_vars.add(loop.target.id)
  targets = {"content": [], "region": []}
  for n in own_nodes(f.node):
    if isinstance(n, ast.Call) and isinstance(n.func, ast.Attribute) and n.func.attr == "process_element" and n.args:
      recv = n.func.value
      wl = None
      if isinstance(recv, ast.Name) and recv.id in filters:
        wl = filters[recv.id]
      elif isinstance(recv, ast.Call) and unparse(recv.func).endswith("SupportedStylePropertiesFilter") and recv.args and isinstance(recv.args[0], ast.Name):
        wl = recv.args[0].id
      if wl is None:
        continue   # e.g. the animation filter
      arg = unparse(n.args[0])
      kind = "region" if arg in region_vars else ("content" if "get_body()" in arg else None)
      if kind is None:
        raise AnalysisError(f"{f.qualname}: cannot classify the target `{arg}` of a style whitelist filter")
      targets[kind].append((wl, n))
  for kind in ("content", "region"):
    if not targets[kind]:
      ctx.bad("TAB-whitelist", f"{f.qualname}|{kind}|unfiltered", ctx.where(f.module, f.node),
              f"no style whitelist filter is applied to {kind} elements: every style property survives the LCD filter")
      continue
    remaining = None
    for (wl, n) in targets[kind]:
      ks = dict_keys(f, wl)
      remaining = ks if remaining is None else (remaining & ks)
    # cleared afterwards on that target: target.set_style(P, None)
    cleared = set()
    written = set()
    for n in own_nodes(f.node):
      if isinstance(n, ast.Call) and isinstance(n.func, ast.Attribute) and n.func.attr == "set_style" and len(n.args) == 2:
        recv = unparse(n.func.value)
        is_target = (recv in region_vars) if kind == "region" else ("get_body()" in recv)
        if not is_target:
          continue
        p = _prop_name(n.args[0])
        if isinstance(n.args[1], ast.Constant) and n.args[1].value is None:
          cleared.add(p)
        else:
          written.add(p)
    # helper functions that set styles on content (e.g. _apply_bg_color)
    if kind == "content":
      for g in ix.funcs_in(f.module.name):
        if g.cls is None and g is not f:
          for n in own_nodes(g.node):
            if isinstance(n, ast.Call) and isinstance(n.func, ast.Attribute) and n.func.attr == "set_style" and len(n.args) == 2:
              if not (isinstance(n.args[1], ast.Constant) and n.args[1].value is None):
                written.add(_prop_name(n.args[0]))
    final = (remaining - cleared) | written
    for p in sorted(final | ALLOWED):
      if p in final:
        ctx.check(p in ALLOWED, "TAB-whitelist", f"{f.qualname}|{kind}|{p}", ctx.where(f.module, f.node),
                  f"{p} may remain on {kind} elements and is an allowed output property",
                  f"{p} can remain on {kind} elements after the LCD filter (whitelisted and never cleared there); only {sorted(ALLOWED)} may remain")
  ctx.floor("TAB-whitelist", "whitelist filters applied", len(targets["content"]) + len(targets["region"]), 2)


def asserted_dependencies(ix):
  """X -> {Y}: StyleProcessors.X.compute asserts on a value read from StyleProperties.Y."""
  deps = {}
  DEREF_DEPS.clear()
  DEREF_DEPS_OWN_ABSENT.clear()
  sp = ix.cls("ttconv.isd:StyleProcessors")
  for name, c in sp.nested.items():
    comp = c.methods.get("compute")
    if comp is None:
      continue
    var_prop = {}
    for st in own_nodes(comp.node):
      tgt = val = None
      if isinstance(st, ast.Assign) and len(st.targets) == 1:
        tgt, val = st.targets[0], st.value
      elif isinstance(st, ast.AnnAssign):
        tgt, val = st.target, st.value
      if isinstance(tgt, ast.Name) and isinstance(val, ast.Call) and isinstance(val.func, ast.Attribute) and val.func.attr == "get_style" and val.args:
        p = _prop_name(val.args[0])
        if p:
          var_prop[tgt.id] = p
    for st in own_nodes(comp.node):
      if isinstance(st, ast.Assert):
        for nm in ast.walk(st.test):
          if isinstance(nm, ast.Name) and nm.id in var_prop and var_prop[nm.id] != name:
            deps.setdefault(name, set()).add(var_prop[nm.id])
    # a value of another property that is dereferenced where no `is None` test of it reaches: that property must be set
    from ..rules import match as _m
    # (also directly on the getter's result: `element.get_style(P).x`)
    for nm in own_nodes(comp.node):
      if isinstance(nm, ast.Attribute) and isinstance(nm.ctx, ast.Load) and isinstance(nm.value, ast.Call) and isinstance(nm.value.func, ast.Attribute) and nm.value.func.attr == "get_style" and nm.value.args:
        p_ = _prop_name(nm.value.args[0])
        if p_ and p_ != name:
          own_absent_ = False
          for test, pol in _m.reaching_conditions(nm, comp.node):
            t_ = unparse(test).replace(" ", "")
            for ov, op_ in var_prop.items():
              if op_ == name and ((pol and t_ in (f"{ov}isNone", f"not{ov}")) or (not pol and t_ in (f"{ov}isnotNone", ov))):
                own_absent_ = True
          (DEREF_DEPS_OWN_ABSENT if own_absent_ else DEREF_DEPS).setdefault(name, set()).add(p_)
    for nm in own_nodes(comp.node):
      if isinstance(nm, ast.Attribute) and isinstance(nm.value, ast.Name) and nm.value.id in var_prop and var_prop[nm.value.id] != name and isinstance(nm.ctx, ast.Load):
        v = nm.value.id
        guarded = False
        for test, pol in _m.reaching_conditions(nm, comp.node):
          t_ = unparse(test).replace(" ", "")
          if (pol and t_ in (f"{v}isnotNone", v)) or (not pol and t_ in (f"{v}isNone", f"not{v}")):
            guarded = True
        # (a dereference that is only reached when the processor's own property is absent does not concern callers that
        #  call compute() only for elements that have the property)
        own_absent = False
        for test, pol in _m.reaching_conditions(nm, comp.node):
          t_ = unparse(test).replace(" ", "")
          for ov, op_ in var_prop.items():
            if op_ == name and ((pol and t_ in (f"{ov}isNone", f"not{ov}")) or (not pol and t_ in (f"{ov}isnotNone", ov))):
              own_absent = True
        if not guarded:
          (DEREF_DEPS_OWN_ABSENT if own_absent else DEREF_DEPS).setdefault(name, set()).add(var_prop[v])
  return deps


DEREF_DEPS: dict = {}
DEREF_DEPS_OWN_ABSENT: dict = {}


def check_compute_order(ctx, funcs):
  ix = ctx.ix
  deps = asserted_dependencies(ix)
  if "Position" not in deps:
    raise AnalysisError("Position.compute no longer asserts on the computed extent (anchor changed): ORD-compute has no instance")
  n = 0
  for f in funcs:
    if f.module.name == "ttconv.isd":
      continue
    calls = []
    for c in own_nodes(f.node):
      if isinstance(c, ast.Call) and isinstance(c.func, ast.Attribute) and c.func.attr == "compute" and "StyleProcessors." in unparse(c.func.value) and len(c.args) == 2:
        calls.append(c)
    if not calls:
      continue
    ctx.unit(f.module)
    cfg = CFG(f.node)
    dom = cfg.dominators()
    for c in calls:
      x = unparse(c.func.value).split(".")[-1]
      elem = unparse(c.args[1])
      nid = cfg.stmt_node_containing(c)
      for y in sorted(deps.get(x, ())):
        n += 1
        ok = False
        for c2 in calls:
          if unparse(c2.func.value).split(".")[-1] == y and unparse(c2.args[1]) == elem:
            n2 = cfg.stmt_node_containing(c2)
            if n2 is not None and nid is not None and n2 in dom.get(nid, ()) and n2 != nid:
              ok = True
        ctx.check(ok, "ORD-compute", f"{f.qualname}|{x}.compute({elem}) needs {y}", ctx.where(f.module, c),
                  f"{y}.compute({elem}) dominates {x}.compute({elem})",
                  f"{x}.compute asserts that {y} is already root-relative, but no {y}.compute(…, {elem}) call dominates it here: "
                  f"AssertionError (or AttributeError when {y} is unset) on elements that specify tts:{x[0].lower() + x[1:]}")
      if x not in deps:
        n += 1
        ctx.ok("ORD-compute", f"{f.qualname}|{x}.compute({elem})", ctx.where(f.module, c), "no asserted dependency")
      # properties whose value x.compute dereferences unguarded must be present on the element here: computed before on every
      # path, or tested `is not None` by a condition that reaches the call
      from ..rules import match as _m
      own_present = False
      for test, pol in _m.reaching_conditions(c, f.node):
        t_ = unparse(test).replace(" ", "").replace("(", "").replace(")", "").replace("styles.", "")
        if f"{elem}.get_styleStyleProperties.{x}" in t_ and ((pol and "isnotNone" in t_) or (not pol and "isNone" in t_)):
          own_present = True
      need = set(DEREF_DEPS.get(x, set())) | (set() if own_present else set(DEREF_DEPS_OWN_ABSENT.get(x, set())))
      for y in sorted(need - deps.get(x, set())):
        n += 1
        ok = any(unparse(c2.func.value).split(".")[-1] == y and unparse(c2.args[1]) == elem and cfg.stmt_node_containing(c2) in dom.get(nid, ()) and cfg.stmt_node_containing(c2) != nid for c2 in calls)
        for test, pol in _m.reaching_conditions(c, f.node):
          t_ = unparse(test).replace(" ", "").replace("(", "").replace(")", "")
          want = f"{elem}.get_styleStyleProperties.{y}".replace("(", "").replace(")", "")
          if want in t_.replace("styles.", "") and ((pol and "isnotNone" in t_) or (not pol and "isNone" in t_)):
            ok = True
        ctx.check(ok, "ORD-compute", f"{f.qualname}|{x}.compute({elem}) reads {y}", ctx.where(f.module, c),
                  f"{y} is present on {elem} where {x}.compute is called",
                  f"{x}.compute dereferences the element's {y} without testing it for None, but here neither a {y}.compute(…, {elem}) on every path nor a reaching `get_style({y}) is not None` test "
                  f"guarantees that {elem} has a {y}: AttributeError on elements that specify tts:{x[0].lower() + x[1:]} but no tts:{y[0].lower() + y[1:]}")
  return n


def check_repoint_order(ctx):
  f = ctx.ix.func("ttconv.filters.doc.lcd:LCDDocFilter.process")
  cfg = CFG(f.node)
  dom = cfg.dominators()
  rem = [c for c in own_nodes(f.node) if isinstance(c, ast.Call) and isinstance(c.func, ast.Attribute) and c.func.attr == "remove_region"]
  rep = [c for c in own_nodes(f.node) if isinstance(c, ast.Call) and isinstance(c.func, ast.Name) and c.func.id == "_replace_regions"]
  if not rem:
    raise AnalysisError("LCDDocFilter.process no longer removes aliased regions (anchor vanished)")
  for r in rem:
    rn = cfg.stmt_node_containing(r)
    ok = False
    for p in rep:
      pn = cfg.stmt_node_containing(p)
      # the re-pointing is guarded by `if doc.get_body() is not None`: accept dominance by that test
      cand = {pn}
      par = getattr(cfg.nodes[pn].ast, "_parent", None) if pn is not None else None
      if isinstance(par, ast.If) and "get_body()" in unparse(par.test):
        cand.add(cfg.node_of(par))
      if any(cn in dom.get(rn, ()) for cn in cand if cn is not None):
        ok = True
    ctx.check(ok, "ORD-repoint", f"{f.qualname}|_replace_regions before remove_region", ctx.where(f.module, r),
              "references are redirected before aliased regions are removed",
              "aliased regions are removed before (or without) redirecting the elements that reference them to the retained region: "
              "their content loses its region")
  # and _replace_regions really re-points the whole subtree: interpreted on a sample tree in which elements at every depth
  # (body, div, p, span, nested span, br) reference an aliased region, a retained region or none
  from ..consteval import NotConst as _NC, Raised as _R
  from ..rules.minieval import MiniEval, Node
  g = ctx.ix.func("ttconv.filters.doc.lcd:_replace_regions")
  ra, rb, rk = Node("Region", "alias_a"), Node("Region", "alias_b"), Node("Region", "kept")
  mk = lambda kind, name, reg, ch=(): Node(kind, name, ch, region=reg)
  tree = mk("Body", "body", None, [mk("Div", "div1", ra, [mk("P", "p1", None, [mk("Span", "s1", rb, [mk("Span", "s2", ra), mk("Br", "br1", None)]), mk("Span", "s3", rk)])]),
                                   mk("Div", "div2", rk, [mk("P", "p2", rb)])])
  aliases = {ra: rk, rb: rk}
  me = MiniEval(ctx.ix)
  try:
    me.call(g, [tree, aliases])
    got = sorted((n_.name, m_, a_[0].name if a_ and isinstance(a_[0], Node) else None) for (n_, m_, a_) in me.trace if isinstance(n_, Node) and m_ == "set_region")
    want = sorted((n_.name, "set_region", "kept") for n_ in tree.walk() if n_.fields["region"] in aliases)
    ctx.check(got == want, "ORD-repoint", f"{g.qualname}|recursive set_region", ctx.where(g.module, g.node),
              f"interpreted on a sample tree: {len(want)} elements at every depth are re-pointed to the retained region, no other",
              f"interpreted on a sample tree, _replace_regions re-points {got} but the elements that reference an aliased region are {want}: content below loses its region or is moved to a wrong one")
  except _R:
    ctx.bad("ORD-repoint", f"{g.qualname}|recursive set_region", ctx.where(g.module, g.node), "interpreted on a sample tree, _replace_regions raises")
  except _NC as ex:
    has_set = any(isinstance(c, ast.Call) and isinstance(c.func, ast.Attribute) and c.func.attr == "set_region" for c in own_nodes(g.node))
    recurses = any(isinstance(c, ast.Call) and isinstance(c.func, ast.Name) and c.func.id == g.name for c in own_nodes(g.node))
    if has_set and recurses:
      ctx.ok("ORD-repoint", f"{g.qualname}|recursive set_region", ctx.where(g.module, g.node), "re-points and recurses (not interpretable: structural form)")
    else:
      raise AnalysisError(f"_replace_regions could not be interpreted on the sample tree ({ex}) and is not the plain recursive form")


def check_merge_key(ctx):
  """FIN-mergekey: regions are merged when they are active over the same interval with the same writing mode and alignment.  The
  key under which the filter retains a region, interpreted for sample regions: equal for begin unset / begin 0 (the same interval),
  different when the begin, the end (bounded vs unbounded, or two bounds), the writing mode or the alignment differ."""
  from fractions import Fraction as F
  from ..consteval import NotConst as _NC, Raised as _R
  from ..rules import match as _mt
  from ..rules.minieval import MiniEval, Node
  ix = ctx.ix
  f = ix.func("ttconv.filters.doc.lcd:LCDDocFilter.process")
  key = None
  for c in own_nodes(f.node):
    if isinstance(c, ast.Call) and isinstance(c.func, ast.Attribute) and c.func.attr == "get" and len(c.args) == 1 and isinstance(c.args[0], ast.Name):
      stores = [st for st in own_nodes(f.node) if isinstance(st, ast.Assign) and any(isinstance(t, ast.Subscript) and unparse(t.value) == unparse(c.func.value) and unparse(t.slice) == c.args[0].id for t in st.targets)]
      if stores:
        key = c.args[0].id
  defs_ = _mt.local_defs(f.node).get(key, []) if key else []
  if len(defs_) != 1:
    raise AnalysisError("LCDDocFilter.process: the key under which regions are retained was not found")
  expr = defs_[0]
  free = sorted({x.id for x in ast.walk(expr) if isinstance(x, ast.Name)})
  loopvar = next((unparse(lp.target) for lp in own_nodes(f.node) if isinstance(lp, ast.For) and "iter_regions()" in unparse(lp.iter) and any(x is expr for x in ast.walk(lp))), None)
  if loopvar is None or loopvar not in free:
    raise AnalysisError("LCDDocFilter.process: the retained-region key does not read the region of the loop")

  def k(begin, end, **other):
    env = {n_: f"<{n_}>" for n_ in free}
    env.update(other)
    env[loopvar] = Node("Region", "r", (), begin=begin, end=end)
    return MiniEval(ix).ev(expr, env, f, 0)
  others = [n_ for n_ in free if n_ != loopvar]
  try:
    problems = []
    if k(None, F(5)) != k(F(0), F(5)):
      problems.append("a region without begin and a region with begin 0 (the same interval) get different keys and are not merged")
    if k(F(0), F(5)) == k(F(1), F(5)):
      problems.append("regions that begin at 0 and at 1 get the same key")
    if k(F(0), None) == k(F(0), F(5)) or k(F(0), F(4)) == k(F(0), F(5)):
      problems.append("regions with different ends get the same key")
    for o in others:
      if k(F(0), F(5), **{o: "A"}) == k(F(0), F(5), **{o: "B"}):
        problems.append(f"regions that differ in `{o}` get the same key")
  except _R:
    problems = ["the key expression raises on a sample region"]
  except _NC as ex:
    raise AnalysisError(f"LCDDocFilter.process: the retained-region key leaves the interpreted subset ({ex})")
  ctx.check(not problems, "FIN-mergekey", f"{f.qualname}|regions are merged exactly when interval, writing mode and alignment agree", ctx.where(f.module, expr),
            f"key `{short(expr, 70)}`: equal for begin None / 0, different for different begins, ends, {', '.join(others)}",
            "; ".join(problems) + ": regions that are equivalent are kept apart, or regions that differ are merged into one")


def run(ctx):
  from . import c03 as _c03u
  _c03u.check_units(ctx)
  ix = ctx.ix
  _INDEX[:] = [ix]
  fs = common.scope_funcs(ctx, MODS)
  n_loops, n_live = live.check_live(ctx, fs, rule="LIVE")
  ctx.floor("LIVE", "live-view loops in the document filters", n_live, 3)
  check_whitelist(ctx)
  check_coverage(ctx)
  n = check_compute_order(ctx, list(ix.funcs.values()))
  ctx.floor("ORD-compute", "external StyleProcessors.*.compute call sites", n, 1)
  src = nul.NullSources(getter_paths={"get_body()"})
  nt = nul.check_sources(ctx, common.funcs(ctx, MODS), src, rule="NUL")
  # passing a possibly-None body as an argument
  f = ix.func("ttconv.filters.doc.lcd:LCDDocFilter.process")
  k = 0
  cfg = CFG(f.node)
  from ..cfg import forward
  for c in own_nodes(f.node):
    if isinstance(c, ast.Call) and any(isinstance(a, ast.Call) and unparse(a).endswith(".get_body()") for a in c.args):
      k += 1
      st = c
      while st is not None and not isinstance(st, ast.stmt):
        st = getattr(st, "_parent", None)
      from ..rules import match as _match
      # enclosing tests and early exits before the call (`if body is None: return`)
      ok = any("get_body()" in p for (g, pol) in _match.reaching_conditions(c, f.node) for p in nul.facts_from_test(g, pol))
      ctx.check(ok, "NUL", f"{f.qualname}|{short(c, 70)}", ctx.where(f.module, c),
                "the body passed as an argument is guarded by `get_body() is not None`",
                f"`{short(c, 70)}` passes doc.get_body() without a None guard: a document without body fails with TypeError / AttributeError")
  ctx.floor("NUL", "uses of get_body() in the LCD filter", nt + k, 3)
  check_repoint_order(ctx)
  check_merge_key(ctx)
  lint.unsat_ranges(ctx, common.scope(ctx, MODS), rule="LINT-c")
  from ..rules import probes as _probes16
  ctx.floor("FIN-decoder", "raw safe_area values decided", _probes16.check_config_decoders(ctx, only=("ttconv.filters.doc.lcd:_safe_area_decoder", "ttconv.config:decode_bool")), 10)
  ctx.floor("LINT-o", "locals bound to a mapping look-up in the configuration modules", lint.falsy_mapping_default(ctx, [m for m in ctx.ix.modules.values() if m.name.endswith("config") or m.name == "ttconv.tt"]), 2)
  check_safe_area_range(ctx)
  fs_lcd = common.funcs(ctx, MODS)
  shape.check_falsy_zero(ctx, fs_lcd, {"safe_area", "get_begin", "get_end"})
  shape.check_no_global_mutation(ctx, fs_lcd, allowed={"DocumentFilter._all_filters": "filter registry filled once per subclass at import time (__init_subclass__)"})
  # the configured safe area is used as is for the region geometry
  pf = ix.func("ttconv.filters.doc.lcd:LCDDocFilter.process")
  uses = [n for n in own_nodes(pf.node) if isinstance(n, ast.Call) and unparse(n.func).endswith("LengthType") and "safe_area" in unparse(n)]
  ok = len(uses) >= 4 and all(re_safe(unparse(u)) for u in uses)
  ctx.check(ok, "FIN-range", f"{pf.qualname}|regions occupy exactly the configured safe area", ctx.where(pf.module, pf.node),
            "origin = safe_area %, extent = 100 - 2 * safe_area %, all from self.config.safe_area",
            f"the region origin / extent are no longer `self.config.safe_area` and `100 - 2 * self.config.safe_area` percent: {[short(u, 50) for u in uses][:4]}")
  shape.check_independent_updates(ctx, ix.func("ttconv.filters.doc.lcd:LCDDocFilter.process"))
  fbase = [ix.cls("ttconv.filters.document_filter:DocumentFilter"), ix.cls("ttconv.filters.isd_filter:ISDFilter")]
  fcls = [c for b in fbase for c in ix.all_subclasses(b)] + [c for c in ix.classes.values() if c.module.name in ("ttconv.filters.supported_style_properties", "ttconv.filters.remove_animations")]
  shape.check_stateless_instances(ctx, {c.qualname: c for c in fcls}.values(),
                                  allowed={"self._has_removed_animations": "a report flag of RemoveAnimationFilter; LCDDocFilter.process creates a fresh instance per call (checked below)"})
  pf_ = ix.func("ttconv.filters.doc.lcd:LCDDocFilter.process")
  ctx.check(any(isinstance(n_, ast.Assign) and isinstance(n_.value, ast.Call) and unparse(n_.value.func).endswith("RemoveAnimationFilter") for n_ in own_nodes(pf_.node)), "STATE-instance",
            f"{pf_.qualname}|the animation filter is created per call", ctx.where(pf_.module, pf_.node), "RemoveAnimationFilter() inside process", "LCDDocFilter.process no longer creates its RemoveAnimationFilter per call: its report flag leaks between documents")
  ctx.ok("STATE-instance", f"{len(fcls)} filter classes|no method outside the constructor writes instance state", "src/main/python/ttconv/filters", "scanned")
  common.check_numeric_fields(ctx, ["ttconv.filters.doc.lcd", "ttconv.config"])
  common.check_walkers(ctx, MODS)
  common.check_history_independence(ctx, common.DOC_FILTERS + ["ttconv.filters.isd_filter"])


def re_safe(text):
  t = text.replace(" ", "")
  return ("LengthType(self.config.safe_area,LengthType.Units.pct)" in t) or ("LengthType(value=100-2*self.config.safe_area,units=LengthType.Units.pct)" in t)


def check_safe_area_range(ctx):
  """FIN-range: the raising guards of _safe_area_decoder, evaluated over the integers -100..200,
  reject exactly the values outside 0..30 (the documented range)."""
  from ..consteval import ConstEval, NotConst
  ix = ctx.ix
  f = ix.func("ttconv.filters.doc.lcd:_safe_area_decoder")
  ctx.unit(f.module)
  ce = ConstEval(ix, symbolic_ok=False)
  guards = [n for n in own_nodes(f.node) if isinstance(n, ast.If) and n.body and isinstance(n.body[-1], ast.Raise)]
  # the variable holding int(s)
  var = None
  for st in own_nodes(f.node):
    if isinstance(st, ast.Assign) and isinstance(st.value, ast.Call) and unparse(st.value.func) == "int" and isinstance(st.targets[0], ast.Name):
      var = st.targets[0].id
  if var is None:
    raise AnalysisError("_safe_area_decoder: no `x = int(...)` found (anchor changed shape)")
  wrong = []
  for v in range(-100, 201):
    rejected = False
    for g in guards:
      try:
        if ce.ev(f.module, g.test, None, {var: v}):
          rejected = True
      except NotConst as e:
        raise AnalysisError(f"_safe_area_decoder: guard `{short(g.test)}` leaves the evaluable subset ({e})")
    if rejected != (v < 0 or v > 30):
      wrong.append(v)
  ctx.check(not wrong, "FIN-range", f"{f.qualname}|rejects exactly values outside 0..30", ctx.where(f.module, f.node),
            "evaluated the raising guards over -100..200: rejected set = complement of 0..30",
            f"the safe_area guards accept/reject the wrong values, e.g. {wrong[:6]} (expected: reject exactly values outside 0..30)")
  ctx.extra["finite_domain_evaluations"] = 301


def check_coverage(ctx):
  """COVER: the animation remover is applied to the body and to every region, and it (like the
  style whitelist) recurses into all children by default."""
  ix = ctx.ix
  f = ix.func("ttconv.filters.doc.lcd:LCDDocFilter.process")
  anim_vars = set()
  for st in own_nodes(f.node):
    if isinstance(st, ast.Assign) and isinstance(st.value, ast.Call) and unparse(st.value.func).endswith("RemoveAnimationFilter") and isinstance(st.targets[0], ast.Name):
      anim_vars.add(st.targets[0].id)
  on_body = on_region = False
  for loop in [None] + [l for l in own_nodes(f.node) if isinstance(l, ast.For)]:
    scope = own_nodes(loop) if loop is not None else own_nodes(f.node)
    for c in scope:
      if isinstance(c, ast.Call) and isinstance(c.func, ast.Attribute) and c.func.attr == "process_element" and unparse(c.func.value) in anim_vars and c.args:
        a = unparse(c.args[0])
        if "get_body()" in a:
          on_body = True
        if loop is not None and "iter_regions()" in unparse(loop.iter) and a == unparse(loop.target):
          on_region = True
  # every region goes through the whole of the region loop: clean-up, repositioning, removal of tts:position and the test for a
  # similar region are reached on every path of an iteration (no `continue` for regions that look finished already)
  from ..rules import trav as _trav
  rloops = [lp for lp in own_nodes(f.node) if isinstance(lp, ast.For) and "iter_regions()" in unparse(lp.iter)
            and any(isinstance(c, ast.Call) and isinstance(c.func, ast.Attribute) and c.func.attr == "get" and "region" in unparse(c.func.value) for c in own_nodes(lp))]
  if len(rloops) == 1:
    lp_ = rloops[0]
    def _is_bookkeeping(n_):
      return isinstance(n_, (ast.Assign, ast.Expr)) and any(isinstance(c, ast.Call) and isinstance(c.func, ast.Attribute) and c.func.attr == "get" and "region" in unparse(c.func.value) and "fingerprint" in unparse(c) or
                                                             (isinstance(c, ast.Call) and isinstance(c.func, ast.Attribute) and c.func.attr == "get" and unparse(c.func.value).endswith("_regions")) for c in ast.walk(n_)) \
        and getattr(n_, "_parent", None) is lp_
    if any(_is_bookkeeping(n_) for n_ in own_nodes(lp_)):
      _trav.check_loop_reached(ctx, f, _is_bookkeeping, "every region reaches the test for a similar region", rule="COVER", scope=lp_)
    else:
      ctx.undecide("COVER", f"{f.qualname}: the statement of the region loop that looks a similar region up was not recognised")
  else:
    ctx.undecide("COVER", f"{f.qualname}: the loop over the regions that merges similar regions was not found ({len(rloops)} candidates)")
  ctx.check(on_body, "COVER", f"{f.qualname}|animations removed from the body", ctx.where(f.module, f.node),
            "RemoveAnimationFilter is applied to the body", "the LCD filter no longer removes animation steps from the body subtree")
  ctx.check(on_region, "COVER", f"{f.qualname}|animations removed from every region", ctx.where(f.module, f.node),
            "RemoveAnimationFilter is applied to every region", "the LCD filter no longer removes animation steps from every region")
  # both element filters, interpreted on a sample tree (whatever their control structure: recursion, explicit stack ...):
  # called with the default arguments they leave no animation step / no unsupported style on any element of the subtree
  from ..consteval import NotConst as _NC, Raised as _R
  from ..rules.minieval import MiniEval, Node

  def sample():
    def mk(kind, name, kids=()):
      return Node(kind, name, list(kids), styles={"A": 1, "B": 2, "C": 2}, steps=[f"{name}.s1", f"{name}.s2", f"{name}.s3"])
    return mk("Body", "body", [mk("Div", "d1", [mk("P", "p1", [mk("Span", "s1", [mk("Span", "s2")]), mk("Br", "br1")]), mk("P", "p2")]), mk("Div", "d2")])
  methods = {
    "iter_styles": lambda n_: list(n_.fields["styles"]),
    "get_style": lambda n_, p_: n_.fields["styles"].get(p_),
    "has_style": lambda n_, p_: p_ in n_.fields["styles"],
    "set_style": lambda n_, p_, v_: n_.fields["styles"].pop(p_, None) if v_ is None else n_.fields["styles"].__setitem__(p_, v_),
    "iter_animation_steps": lambda n_: list(n_.fields["steps"]),
    "remove_animation_step": lambda n_, st_: n_.fields["steps"].remove(st_),
  }
  for q, what, left in (("ttconv.filters.remove_animations:RemoveAnimationFilter.process_element", "animation steps", lambda n_: list(n_.fields["steps"])),
                        ("ttconv.filters.supported_style_properties:SupportedStylePropertiesFilter.process_element", "unsupported styles", lambda n_: sorted(set(n_.fields["styles"]) - {"A"}))):
    g = ix.func(q)
    ctx.unit(g.module)
    key_ = f"{q}|recurses into every child by default"
    root = sample()
    this = {"__record__": g.cls.name, "supported_style_properties": {"A": [], "C": [1]}, "_has_removed_animations": False}
    try:
      MiniEval(ix, node_methods=methods).call(g, [this, root])
    except _R:
      ctx.bad("COVER", key_, ctx.where(g.module, g.node), f"interpreted on a sample tree, {g.short} raises")
      continue
    except _NC as ex_:
      ctx.undecide("COVER", f"{g.qualname}: not in the interpreted subset ({ex_})")
      continue
    rest = {n_.name: left(n_) for n_ in root.walk() if left(n_)}
    kept_ok = all(n_.fields["styles"].get("A") == 1 for n_ in root.walk())
    ctx.check(not rest and kept_ok, "COVER", key_, ctx.where(g.module, g.node), f"interpreted on a sample tree of 8 elements: no {what} left anywhere",
              f"interpreted on a sample tree (body > div > p > span > span, br; ...) with its default arguments, {g.short} leaves {what} on {rest if rest else 'no element, but removes a supported style'}: "
              f"descendants (or some of an element's own entries) keep their {what}")


def st_in(body, st):
  for b in body:
    if b is st or any(x is st for x in ast.walk(b)):
      return True
  return False
