"""C12 - time-code arithmetic is exact, monotone and invertible (exactness + print/parse clauses)."""
from __future__ import annotations

import ast
import re

from ..core import AnalysisError, own_nodes, short, unparse
from ..rules import match, exa, fmt, shape
from . import common

EXPLANATION = (
  "(FIN-timeparse, shared with C04) a printed time code parses back: parse_time_expression interpreted on a grid - every frame label below the rate, the last one of a second included, means s + ff / rate at integer and 1001-based rates, the label one past it is refused; "
  "Decides two clauses of C12 for every input. (EXA) On every seconds->frames path of time_code.py and of the IMSC writer's "
  "to_time_format, no inexact binary float produced by the code's own arithmetic (float(Fraction), Fraction*float, quotient "
  "arithmetic) reaches a truncation (int/floor/ceil/round) - so a time lying exactly on a frame boundary converts to that frame - and "
  "to_temporal_offset builds Fraction(frames, rate) exactly. (FMT) Every string SmpteTimeCode.__str__ / ClockTime.__str__ can "
  "print (skeleton extracted from the f-strings, all separator choices, sample field values including 3-digit hours) is accepted by "
  "the patterns SmpteTimeCode.parse / ClockTime.parse try, in their order, with every named group recovering the printed field. "
  "The numeric identities (frames->label->frames, drop-frame skipping, monotonicity, 0.5 ms bound) are not decided."
  " (STATE-alias / STATE-global) no function of the anchored modules mutates a module- or class-level container, rebinds module / class state or mutates a mutable default argument, so a result never depends on earlier calls;"
  " (FIN-dropcount) for every rate counted in drop-frame mode, 9 x (labels dropped per minute) equals the label excess per ten minutes to within 1/20 frame;"
  " (FIN-dropframe) from_frames / to_frames agree with SMPTE ST 12-1 labels around every minute boundary of the first 22 minutes and the hour (30000/1001, 60000/1001) and are inverse there;"
  ' (DEP-round) ClockTime.from_seconds derives hours, minutes, seconds and milliseconds from one rounded value; (EXA-offset) SmpteTimeCode.to_temporal_offset returns Fraction(frames, rate) exactly;'
  ' (PURE-query) the query methods of the time code classes (to_*, get_*, is_*, printing and comparison) assign no attribute of the object, so frame counts and offsets never come from a memo that a later add_frames leaves stale;'
  ' (FIN-parse) SmpteTimeCode.parse hands the constructor the rate it was given for `:` labels and the drop-frame rate (rate x 1000/1001 unless the denominator is already 1001) for `;` labels, for every base rate of the grid;'
  ' (LINT-k) no instance field declared with a numeric type is tested by truthiness (the number 0 would count as `not set`);'
  ' (LINT-l) no tuple / list / set display of the anchored modules lists the same computed component twice and no dict display repeats a key (a key or fingerprint built that way cannot tell apart what the missing component would have);'
  ' (STATE-share) no assignment stores a container field of one object (a field the package updates in place) into a field of another object without copying it, so an in-place update of one object never changes another;'
  " (ITEM-source) an object built once per item of an inner loop is filled only with values that derive from that item or do not vary with the loops, never with a value of the enclosing container standing where the item's own belongs;"
  ' (AGREE-dropmode) from_frames and to_frames decide for the same frame rates (evaluated on ten rates, helper predicates followed) whether the drop-frame correction applies;'
  ' (LINT-m) the time-code patterns list no literal separators beside an unescaped `.` (which would make every character a separator);'
  ' (LOOP-break) no loop over the items of a collection is left by a branch that does nothing but `break` on a test about the item (end-of-input sentinels, flags set in the loop body and searches whose variable is read afterwards excepted): an item that is to be skipped does not end the processing of the items after it;'
  ' (FIN-wholeframes) SmpteTimeCode.from_seconds hands from_frames the integer number of complete frames (120 times on and inside frames at 5 rates);'
  + " (FIN-addframes) SmpteTimeCode.add_frames(n), interpreted on labels just before minute, ten-minute and hour boundaries at 30000/1001, 60000/1001 and 25 fps, leaves the SMPTE label of the frame n later, for n = 1 as for larger n;"
)
RULE_TEXT = "EXA: one instance per truncation / time sink call site; FMT: one instance per printer branch x separator choice x sample vector"
UNDECIDED = ["frames -> label -> frames identity", "label validity and drop-frame label skipping", "monotonicity of successive frame counts",
             "add_frames(n) = n single additions", "0.5 ms rounding bound of ClockTime.from_seconds"]
TRUSTED = ["stdlib re and format() applied to literals extracted from the source", "numeric-kind lattice of rules/exa.py"]


def parse_plan(ix, f):
  """[(pattern text, match method, [group names])] in the order `f` tries them."""
  plan = []
  pats = {}
  for st in own_nodes(f.node):
    if isinstance(st, ast.Assign) and isinstance(st.value, ast.Call) and (unparse(st.value.func).endswith("compile")) and st.value.args:
      arg = st.value.args[0]
      r = ix.resolve(f.module, arg, cls=f.cls)
      if isinstance(r, tuple) and r[0] == "assign":
        from ..consteval import ConstEval
        val = ConstEval(ix, symbolic_ok=False).ev(r[1], r[2], r[3] if len(r) > 3 else None)
        pats[st.targets[0].id] = val
  for st in own_nodes(f.node):
    if isinstance(st, ast.Assign) and isinstance(st.value, ast.Call) and isinstance(st.value.func, ast.Attribute) \
        and st.value.func.attr in ("match", "fullmatch", "search") and isinstance(st.value.func.value, ast.Name) \
        and st.value.func.value.id in pats:
      plan.append([pats[st.value.func.value.id], st.value.func.attr, []])
  # group names per construction (in order of appearance)
  groups = []
  for n in own_nodes(f.node):
    if isinstance(n, ast.Call) and isinstance(n.func, ast.Attribute) and n.func.attr == "group" and n.args \
        and isinstance(n.args[0], ast.Constant) and isinstance(n.args[0].value, str):
      groups.append(n.args[0].value)
  for p in plan:
    names = list(re.compile(p[0]).groupindex)
    p[2] = [g for g in groups if g in names]
  if not plan:
    raise AnalysisError(f"{f.qualname}: no compile/match plan found")
  return plan


def emulate_parse(plan, text):
  for (pat, meth, groups) in plan:
    m = getattr(re.compile(pat), meth)(text)
    if m is not None:
      return {g: m.group(g) for g in groups}, pat
  return None, None


def check_fmt(ctx):
  ix = ctx.ix
  sk = fmt.Skeleton(ix)
  # SmpteTimeCode
  smpte = ix.cls("ttconv.time_code:SmpteTimeCode")
  f_str = ix.func("ttconv.time_code:SmpteTimeCode.__str__")
  plan = parse_plan(ix, ix.func("ttconv.time_code:SmpteTimeCode.parse"))
  ctx.unit(f_str.module)
  variants = sk.of_variants(f_str, {})
  ctx.floor("FMT", "printed variants of SmpteTimeCode.__str__", len(variants), 2)
  samples = {"self._hours": [0, 7, 23, 99], "self._minutes": [0, 9, 59, 30], "self._seconds": [0, 5, 59, 1], "self._frames": [0, 1, 29, 59]}
  for b, (conds, skel, rnode) in enumerate(variants):
    df_conds = [(k, v) for k, v in conds.items() if "is_drop_frame" in k]
    is_df_branch = bool(df_conds) and all((v if not k.startswith("not ") else not v) for k, v in df_conds)
    label = "drop-frame" if is_df_branch else "non-drop"
    for text, vals in fmt.instantiate(skel, samples):
      got, pat = emulate_parse(plan, text)
      key = f"ttconv.time_code:SmpteTimeCode.__str__|{label}|{text}"
      ok = got is not None and [int(v) for v in got.values()] == [vals["self._hours"], vals["self._minutes"], vals["self._seconds"], vals["self._frames"]]
      # the drop-frame form must be recognised as drop-frame (and vice versa): parse() derives the frame rate from the pattern that matched
      if ok:
        df_groups = all(g.startswith("df_") for g in got)
        ok = df_groups == is_df_branch
      ctx.check(ok, "FMT", key, ctx.where(f_str.module, f_str.node),
                f"printed `{text}` parsed back by {pat!r} to {got}",
                f"SmpteTimeCode prints `{text}` but SmpteTimeCode.parse recovers {got} (pattern {pat!r}): parsing a printed time code does not return it")
    # drop-frame print must not be taken by the non-drop pattern (and vice versa): the first
    # pattern that matches decides the frame-rate interpretation
  # ClockTime
  ct = ix.cls("ttconv.time_code:ClockTime")
  f_str = ix.func("ttconv.time_code:ClockTime.__str__")
  seps = fmt.separator_choices(ix, ct, "_ms_separator", "set_separator")
  ctx.floor("FMT", "ClockTime separator choices", len(seps), 2)
  plan = parse_plan(ix, ix.func("ttconv.time_code:ClockTime.parse"))
  skel = sk.of_method(f_str, {"self._ms_separator": seps})
  samples = {"self._hours": [0, 7, 23, 100], "self._minutes": [0, 9, 59, 30], "self._seconds": [0, 5, 59, 1], "self._milliseconds": [0, 7, 999, 80]}
  rets = [n for n in own_nodes(f_str.node) if isinstance(n, ast.Return)]
  for text, vals in fmt.instantiate(skel, samples):
    got, pat = emulate_parse(plan, text)
    key = f"ttconv.time_code:ClockTime.__str__|{text}"
    ok = got is not None and [int(v) for v in got.values()] == [vals["self._hours"], vals["self._minutes"], vals["self._seconds"], vals["self._milliseconds"]]
    ctx.check(ok, "FMT", key, ctx.where(f_str.module, rets[0]),
              f"printed `{text}` parsed back to {got}",
              f"ClockTime prints `{text}` but ClockTime.parse recovers {got}: parsing a printed clock time does not return it")


def check_temporal_offset(ctx):
  """The rational offset of a time code is Fraction(frames, rate) exactly."""
  f = ctx.ix.func("ttconv.time_code:SmpteTimeCode.to_temporal_offset")
  ctx.unit(f.module)
  rets = [n for n in own_nodes(f.node) if isinstance(n, ast.Return) and n.value is not None]
  ok = False
  for r in rets:
    v = r.value
    if isinstance(v, ast.Call) and unparse(v.func).split(".")[-1] == "Fraction" and len(v.args) == 2:
      num, den = unparse(v.args[0]), unparse(v.args[1])
      # numerator must be the frame count (to_frames), denominator the frame rate field
      num_ok = "to_frames" in num
      if isinstance(v.args[0], ast.Name):
        for st in own_nodes(f.node):
          if isinstance(st, ast.Assign) and isinstance(st.targets[0], ast.Name) and st.targets[0].id == v.args[0].id:
            num_ok = "to_frames()" in unparse(st.value) and not isinstance(st.value, ast.BinOp)
      ok = num_ok and den in ("self._frame_rate", "self.get_frame_rate()")
  ctx.check(ok and len(rets) == 1, "EXA-offset", "ttconv.time_code:SmpteTimeCode.to_temporal_offset|Fraction(frames, rate)",
            ctx.where(f.module, f.node), "returns Fraction(<frame count>, <frame rate>)",
            f"to_temporal_offset must return Fraction(self.to_frames(), self._frame_rate) exactly; found `{short(rets[0].value) if rets else None}`")


def check_single_rounding(ctx):
  """DEP-round: ClockTime.from_seconds derives hours, minutes, seconds and milliseconds from ONE
  rounded quantity (either `round(seconds, 3)` or `round(seconds * 1000)`), so that a value that
  rounds up to the next second / minute / hour carries into the higher fields."""
  ix = ctx.ix
  f = ix.func("ttconv.time_code:ClockTime.from_seconds")
  ctx.unit(f.module)
  p = f.params[0]
  rounded = None
  for st in f.node.body:
    if isinstance(st, ast.Assign) and isinstance(st.targets[0], ast.Name) and isinstance(st.value, ast.Call) and unparse(st.value.func) == "round":
      a = st.value.args
      t = unparse(st.value).replace(" ", "")
      if t in (f"round({p},3)", f"round({p}*1000)", f"round(1000*{p})"):
        rounded = (st.targets[0].id, f.node.body.index(st))
        break
  ok = rounded is not None
  why = "no up-front `round(seconds, 3)` / `round(seconds * 1000)`"
  if ok:
    name, idx = rounded
    # after that statement, the raw parameter (if the rounded value has another name) is not read, and
    # every field of the returned ClockTime depends on the rounded value
    later = f.node.body[idx + 1:]
    raw_reads = [n for st in later for n in ast.walk(st) if isinstance(n, ast.Name) and n.id == p and name != p]
    ret = [r for r in own_nodes(f.node) if isinstance(r, ast.Return) and isinstance(r.value, ast.Call) and unparse(r.value.func) == "ClockTime"]
    deps = {}
    for st in later:
      if isinstance(st, ast.Assign) and isinstance(st.targets[0], ast.Name):
        src = set()
        for nm in ast.walk(st.value):
          if isinstance(nm, ast.Name):
            src |= deps.get(nm.id, {nm.id})
        deps[st.targets[0].id] = src
    fields_ok = bool(ret) and all(name in deps.get(unparse(a), {unparse(a)}) for a in ret[0].value.args)
    ok = not raw_reads and fields_ok
    why = f"all fields derive from `{name}`" if ok else f"raw parameter read after rounding: {bool(raw_reads)}; fields derive from the rounded value: {fields_ok}"
  ctx.check(ok, "DEP-round", f"{f.qualname}|all fields derive from one rounded value", ctx.where(f.module, f.node), why,
            f"ClockTime.from_seconds: {why}: a value within 0.5 ms below a second / minute / hour boundary yields an out-of-range field (e.g. 00:00:60.000)")


def smpte_drop_frame_label(n: int, nominal: int):
  """SMPTE ST 12-1 drop-frame label (h, m, s, f) of frame count n at nominal rate 30 or 60: the first
  nominal/15 frame numbers of every minute are skipped, except in minutes 0, 10, 20, ..."""
  d = nominal // 15
  per10, permin = nominal * 600 - 9 * d, nominal * 60 - d
  tens, rem = divmod(n, per10)
  extra = 9 * d * tens + (d * ((rem - d) // permin) if rem >= d else 0)
  n2 = n + extra
  return (n2 // (nominal * 3600), (n2 // (nominal * 60)) % 60, (n2 // nominal) % 60, n2 % nominal)


def check_drop_frame_labels(ctx):
  """FIN-dropframe: from_frames and to_frames, evaluated with the finite evaluator on the frame counts
  around every minute boundary of the first 22 minutes and around the hour (where drop-frame counting
  has its special cases), agree with the SMPTE labels for 30000/1001 and 60000/1001, and are inverse."""
  from fractions import Fraction as F
  from ..consteval import ConstEval, FuncEval, NotConst, Raised, _CallingConstEval
  ix = ctx.ix
  ff = ix.func("ttconv.time_code:SmpteTimeCode.from_frames")
  tf_ = ix.func("ttconv.time_code:SmpteTimeCode.to_frames")
  ctx.unit(ff.module)
  fe = FuncEval(ix)
  ret = match.single_return(ff.node)
  if ret is None or not isinstance(ret.value, ast.Call) or len(ret.value.args) < 4:
    raise AnalysisError("from_frames: the final `return SmpteTimeCode(h, m, s, f, rate)` was not found")
  body = [st for st in ff.node.body if st is not ret]
  tbody = match.replace_exprs(tf_.node.body, {"super().to_seconds()": "__secs", "self.is_drop_frame()": "__df"})
  n_eval, wrong_f, wrong_t = 0, [], []
  for rate, nominal in ((F(30000, 1001), 30), (F(60000, 1001), 60)):
    d = nominal // 15
    permin = nominal * 60 - d
    pts = set()
    for k in range(0, 23):
      pts |= {k * permin + j for j in range(-6, 7)} | {k * nominal * 60 + j for j in range(-3, 4)}
    per10 = nominal * 600 - 9 * d
    pts |= {per10 * t_ + j for t_ in (1, 2, 6) for j in range(-6, 7)} | {per10 * 6 * 2 + j for j in range(-3, 4)}
    for n in sorted(p_ for p_ in pts if p_ >= 0):
      want = smpte_drop_frame_label(n, nominal)
      env = {ff.params[0]: n, ff.params[1]: rate, f"{ff.params[1]}.denominator": rate.denominator, f"{ff.params[1]}.numerator": rate.numerator}
      try:
        ce = _CallingConstEval(ix, fe, ff, 0, None)
        fe._block(ce, ff, body, env)
        got = tuple(ce.ev(ff.module, a, ff.cls, env) for a in ret.value.args[:4])
      except (NotConst, Raised, TypeError) as e:
        raise AnalysisError(f"from_frames leaves the evaluable subset at n={n}, rate={rate} ({e})")
      n_eval += 1
      if got != want:
        wrong_f.append(f"frame {n} at {rate}: label {got}, SMPTE {want}")
      # inverse
      h, m_, s_, f_ = want
      env2 = {"self._hours": h, "self._minutes": m_, "self._seconds": s_, "self._frames": f_, "self._frame_rate": rate, "__secs": h * 3600 + m_ * 60 + s_, "__df": True}
      try:
        back = fe._block(_CallingConstEval(ix, fe, tf_, 0, None), tf_, tbody, env2)
      except Exception as e:   # _Return carries the value
        back = getattr(e, "value", None)
        if back is None and not type(e).__name__ == "_Return":
          raise AnalysisError(f"to_frames leaves the evaluable subset at {want}, rate={rate} ({type(e).__name__}: {e})")
      n_eval += 1
      if back != n:
        wrong_t.append(f"label {want} at {rate}: to_frames gives {back}, SMPTE frame {n}")
  # non-drop rates: plain positional labels, hours not wrapped (times of 24 h and more keep counting)
  wrong_n = []
  for rate in (F(24), F(25), F(30), F(50), F(60)):
    N = int(rate)
    for n in (0, 1, N - 1, N, 60 * N - 1, 60 * N, 3600 * N - 1, 3600 * N, 24 * 3600 * N - 1, 24 * 3600 * N, 25 * 3600 * N + 61 * N + 7, 99 * 3600 * N + 59 * 60 * N + 59 * N + N - 1):
      want = (n // (3600 * N), (n // (60 * N)) % 60, (n // N) % 60, n % N)
      env = {ff.params[0]: n, ff.params[1]: rate, f"{ff.params[1]}.denominator": 1, f"{ff.params[1]}.numerator": N}
      try:
        ce = _CallingConstEval(ix, fe, ff, 0, None)
        fe._block(ce, ff, body, env)
        got = tuple(ce.ev(ff.module, a, ff.cls, env) for a in ret.value.args[:4])
      except (NotConst, Raised, TypeError) as e:
        raise AnalysisError(f"from_frames leaves the evaluable subset at n={n}, rate={rate} ({e})")
      n_eval += 1
      if got != want:
        wrong_n.append(f"frame {n} at {rate} fps: label {got}, expected {want}")
  ctx.check(not wrong_n, "FIN-dropframe", f"{ff.qualname}|non-drop labels are positional, hours are not wrapped", ctx.where(ff.module, ff.node), "60 frame counts at 24 / 25 / 30 / 50 / 60 fps up to 99 h",
            "from_frames: " + "; ".join(wrong_n[:3]))
  ctx.extra["drop_frame_evaluations"] = n_eval
  ctx.check(not wrong_f, "FIN-dropframe", f"{ff.qualname}|SMPTE drop-frame labels at minute boundaries", ctx.where(ff.module, ff.node), f"{n_eval // 2} frame counts agree with SMPTE ST 12-1",
            "from_frames: " + "; ".join(wrong_f[:3]) + (f" (+{len(wrong_f) - 3} more)" if len(wrong_f) > 3 else ""))
  ctx.check(not wrong_t, "FIN-dropframe", f"{tf_.qualname}|inverse of the SMPTE labels at minute boundaries", ctx.where(tf_.module, tf_.node), f"{n_eval // 2} labels map back to their frame count",
            "to_frames: " + "; ".join(wrong_t[:3]) + (f" (+{len(wrong_t) - 3} more)" if len(wrong_t) > 3 else ""))


def check_drop_count(ctx):
  """FIN-dropcount: for every rate that the class counts in drop-frame mode, dropping d labels in
  nine minutes out of ten keeps the labels aligned with real time: 9 * d labels per ten minutes
  must equal the label excess 600 * (ceil(rate) - rate) of that rate to within a twentieth of a frame
  (17.982 vs 18 at 30000/1001, 35.964 vs 36 at 60000/1001).  d is the value the code computes."""
  from fractions import Fraction as F
  from math import ceil
  from ..consteval import ConstEval, NotConst
  ix = ctx.ix
  ce = ConstEval(ix, symbolic_ok=False)
  rates = [F(30000, 1001), F(60000, 1001), F(24000, 1001)]
  for q in ("ttconv.time_code:SmpteTimeCode.from_frames", "ttconv.time_code:SmpteTimeCode.to_frames"):
    f = ix.func(q)
    ctx.unit(f.module)
    defs_ = match.local_defs(f.node)
    # the per-minute count: the local computed from 60 x (nominal rate - rate), whichever rounding function is applied to it
    cand = [n for n, vs in defs_.items() if len(vs) == 1 and isinstance(vs[0], ast.Call) and unparse(vs[0].func).split(".")[-1] in ("round", "ceil", "floor", "int", "trunc")
            and any(isinstance(x, ast.Constant) and x.value == 60 for x in ast.walk(vs[0])) and any(isinstance(x, ast.BinOp) and isinstance(x.op, ast.Sub) for x in ast.walk(vs[0]))]
    if len(cand) != 1:
      # by its role instead of its formula: the local that is multiplied by 9 (labels dropped in nine minutes out of ten)
      role = set()
      for x in own_nodes(f.node):
        if isinstance(x, ast.BinOp) and isinstance(x.op, ast.Mult):
          flat, todo = [], [x]
          while todo:
            y = todo.pop()
            if isinstance(y, ast.BinOp) and isinstance(y.op, ast.Mult):
              todo += [y.left, y.right]
            else:
              flat.append(y)
          if any(isinstance(y, ast.Constant) and y.value == 9 for y in flat):
            role |= {y.id for y in flat if isinstance(y, ast.Name) and len(defs_.get(y.id, [])) == 1}
      role = {n for n in role if any(isinstance(c_, ast.Call) for c_ in ast.walk(defs_[n][0])) or isinstance(defs_[n][0], (ast.BinOp, ast.Constant))}
      cand = sorted(n for n in role if "minute_tens" not in n and "tens" not in n) if len(role) > 1 else sorted(role)
    if len(cand) != 1:
      raise AnalysisError(f"{q}: the per-minute drop count (round(60 * (nominal - rate))) was not found")
    # the value of the drop count where it is computed, with the locals it reads replaced by what they hold there;
    # the rate (the method's field or the function's parameter) becomes the variable __rate
    expr = match.inline_locals_deep(f.node, defs_[cand[0]][0])
    rate_names = {"self._frame_rate": "__rate"}
    rate_names.update({p_: "__rate" for p_ in f.params if "rate" in p_})
    for r in rates:
      try:
        sub = match.replace_exprs([ast.Expr(expr)], rate_names)[0].value
        d = ce.ev(f.module, sub, f.cls, {"__rate": r, "ceil": None})
      except NotConst as e:
        raise AnalysisError(f"{q}: the drop count `{short(expr, 60)}` leaves the evaluable subset ({e})")
      excess = 600 * (ceil(r) - r)
      ok = abs(excess - 9 * d) <= F(1, 20)
      # (the key names the count the code computes: a known finding about one value does not cover another)
      ctx.check(ok, "FIN-dropcount", f"{q}|rate {r}" + ("" if ok else f" drops {d} per minute"), ctx.where(f.module, defs_[cand[0]][0]), f"{d} labels dropped per minute: 9*{d} = {9 * d} vs excess {float(excess):.3f} per ten minutes",
                f"{r} fps is counted in drop-frame mode (denominator 1001) with {d} label(s) dropped per minute, i.e. {9 * d} per ten minutes, but its label excess is {float(excess):.3f} per ten minutes: "
                f"labels drift against frame counts, so from_frames and to_frames are not inverse at this rate (e.g. frame 15826 -> 00:10:59;20 -> 15827)")


def check_whole_frames(ctx):
  """FIN-wholeframes: SmpteTimeCode.from_seconds hands from_frames a whole number of frames, the count of complete frames
  at that time (floor), for times inside a frame as well as on frame boundaries - from_frames labels a fractional count
  with a frame field equal to the frame rate (00:00:00:30 at 30 fps).  The argument of the from_frames call is evaluated
  for (k + j/4) / rate, j = 0..3."""
  from fractions import Fraction as F
  from math import floor
  from ..consteval import FuncEval, NotConst, Raised, _CallingConstEval
  ix = ctx.ix
  f = ix.func("ttconv.time_code:SmpteTimeCode.from_seconds")
  ctx.unit(f.module)
  calls = [c for c in own_nodes(f.node) if isinstance(c, ast.Call) and unparse(c.func).endswith("from_frames") and c.args]
  if len(calls) != 1:
    raise AnalysisError("SmpteTimeCode.from_seconds: expected one from_frames(...) call")
  call = calls[0]
  st = call
  while not isinstance(st, ast.stmt):
    st = st._parent
  body = [x for x in f.node.body if x.lineno < st.lineno]
  fe = FuncEval(ix)
  wrong = []
  n = 0
  for rate in (F(24), F(25), F(30), F(30000, 1001), F(60000, 1001)):
    for k in (0, 1, 29, 30, 1798, 107892):
      for j in range(4):
        t = (F(k) + F(j, 4)) / rate
        env = {f.params[0]: t, f.params[1]: rate}
        try:
          ce = _CallingConstEval(ix, fe, f, 0, None)
          fe._block(ce, f, body, env)
          got = ce.ev(f.module, call.args[0], f.cls, env)
        except (NotConst, Raised, TypeError) as e:
          raise AnalysisError(f"SmpteTimeCode.from_seconds leaves the evaluable subset ({e})")
        n += 1
        if not (isinstance(got, int) and not isinstance(got, bool)) or got != floor(t * rate):
          wrong.append(f"t = ({k} + {j}/4)/{rate}: from_frames receives {got!r}, expected the integer {floor(t * rate)}")
  ctx.check(not wrong, "FIN-wholeframes", f"{f.qualname}|from_frames receives the whole number of complete frames", ctx.where(f.module, call), f"{n} times on and inside frames at 5 rates",
            "; ".join(wrong[:2]) + f" ({len(wrong)} of {n}): a time inside a frame is labelled with a frame field that is out of range or a frame late, which the reader rejects or shifts")
  ctx.extra["finite_domain_evaluations"] = ctx.extra.get("finite_domain_evaluations", 0) + n


def check_drop_mode_agreement(ctx):
  """AGREE-dropmode: from_frames and to_frames are inverse only if they apply the drop-frame correction to the
  same rates.  The conditions that enclose the drop count in each are evaluated (helper predicates such as
  is_drop_frame() are followed) for a grid of rates; they must give the same answer for every rate."""
  from fractions import Fraction as F
  from ..consteval import FuncEval, NotConst, Raised, _CallingConstEval
  ix = ctx.ix
  rates = [F(24), F(25), F(30), F(50), F(60), F(30000, 1001), F(60000, 1001), F(24000, 1001), F(48000, 1001), F(25025, 1001)]
  verdicts = {}
  sites = {}
  for q in ("ttconv.time_code:SmpteTimeCode.from_frames", "ttconv.time_code:SmpteTimeCode.to_frames"):
    f = ix.func(q)
    ctx.unit(f.module)
    defs_ = match.local_defs(f.node)
    cand = [vs[0] for n, vs in defs_.items() if len(vs) == 1 and isinstance(vs[0], ast.Call) and unparse(vs[0].func).split(".")[-1] in ("round", "ceil", "floor", "int", "trunc")
            and any(isinstance(x, ast.Constant) and x.value == 60 for x in ast.walk(vs[0])) and any(isinstance(x, ast.BinOp) and isinstance(x.op, ast.Sub) for x in ast.walk(vs[0]))]
    if len(cand) != 1:
      raise AnalysisError(f"{q}: the per-minute drop count (round(60 * (nominal - rate))) was not found")
    conds = match.reaching_conditions(cand[0], f.node)
    conds = [(t, pol) for (t, pol) in conds if "rate" in unparse(match.inline_locals_deep(f.node, t)) or "drop" in unparse(t)]
    if not conds:
      raise AnalysisError(f"{q}: the drop count is computed unconditionally (no drop-frame test encloses it)")
    sites[q] = conds[0][0]
    fe = FuncEval(ix)
    out = []
    for r in rates:
      env = {"self._frame_rate": r}
      env.update({p_: r for p_ in f.params if "rate" in p_})
      cce = _CallingConstEval(ix, fe, f, 0, self_cls=f.cls)
      try:
        v = True
        for (t, pol) in conds:
          t2 = match.inline_locals_deep(f.node, t)
          v = v and (bool(cce.ev(f.module, t2, f.cls, env)) == pol)
      except (NotConst, Raised) as e:
        raise AnalysisError(f"{q}: the drop-frame test `{short(conds[0][0], 50)}` leaves the evaluable subset ({e})")
      out.append(v)
    verdicts[q] = out
  a, b = list(verdicts)
  diff = [str(r) for r, x, y in zip(rates, verdicts[a], verdicts[b]) if x != y]
  fa = ix.func(a)
  ctx.check(not diff, "AGREE-dropmode", "ttconv.time_code:SmpteTimeCode|from_frames and to_frames count the same rates in drop-frame mode", ctx.where(fa.module, sites[a]),
            f"both decide drop-frame mode identically for {len(rates)} rates",
            f"from_frames tests `{short(sites[a], 50)}` and to_frames tests `{short(sites[b], 50)}`; they disagree at {', '.join(diff)} fps: one direction applies the "
            f"drop-frame correction and the other does not, so to_frames(from_frames(n)) != n at those rates")


def _parse_rate_by_paths(ctx, f, rates):
  """fallback of FIN-parse: both return paths followed symbolically (the reference shape)"""
  from fractions import Fraction as F
  from ..consteval import ConstEval, NotConst
  ix = ctx.ix
  rate_p = f.params[-1]
  ce = ConstEval(ix, symbolic_ok=False)
  wrong, n = [], 0
  for label, outcomes, want in (("non-drop `:` label", [True], lambda r: r), ("drop-frame `;` label", [False, True], lambda r: r if r.denominator == 1001 else r * F(1000, 1001))):
    for r in rates:
      seq = list(outcomes)

      def decide(test, r=r, seq=seq):
        if match.is_none_test(test, lambda x: ".match(" in unparse(x) or ".fullmatch(" in unparse(x)) is not None:
          if not seq:
            raise match.PathUndecided("more pattern tests than expected")
          matched = seq.pop(0)
          return matched != match.is_none_test(test, lambda x: ".match(" in unparse(x) or ".fullmatch(" in unparse(x))
        try:
          return bool(ce.ev(f.module, test, f.cls, {rate_p: r}))
        except NotConst as e:
          raise match.PathUndecided(str(e))
      try:
        kind, rexpr = match.path_result(f.node, decide)
      except match.PathUndecided as e:
        ctx.undecide("FIN-parse", f"{f.qualname}: the path of a {label} could not be followed ({e})")
        return None, 0
      n += 1
      if kind != "return" or not isinstance(rexpr, ast.Call) or len(rexpr.args) < 5 or any(isinstance(a_, ast.Starred) for a_ in rexpr.args):
        ctx.undecide("FIN-parse", f"{f.qualname}: the value returned for a {label} is not a SmpteTimeCode(...) display the rule reads")
        return None, 0
      try:
        got = ce.ev(f.module, rexpr.args[4], f.cls, {rate_p: r})
      except NotConst as e:
        ctx.undecide("FIN-parse", f"{f.qualname}: the rate argument `{short(rexpr.args[4], 60)}` leaves the evaluable subset ({e})")
        return None, 0
      if got != want(r):
        wrong.append(f"{label} at base rate {r}: counted at {got}, must be {want(r)}")
  return wrong, n


def check_parse_rate(ctx):
  """FIN-parse: the frame rate of a parsed SMPTE label.  An `HH:MM:SS:FF` label counts at the rate
  it is given, whatever that rate; an `HH:MM:SS;FF` (drop-frame) label counts at the given rate if
  that already has denominator 1001, else at rate x 1000/1001.  Both return paths of
  SmpteTimeCode.parse are followed symbolically and the rate argument of the constructor is
  evaluated for a grid of base rates."""
  from fractions import Fraction as F
  from ..consteval import ConstEval, NotConst, Raised as _R
  from ..rules.minieval import MiniEval
  ix = ctx.ix
  f = ix.func("ttconv.time_code:SmpteTimeCode.parse")
  ctx.unit(f.module)
  wrong, n = [], 0
  rates = (F(24), F(25), F(30), F(60), F(30000, 1001), F(60000, 1001), F(24000, 1001))
  # first by interpretation on sample labels (the constructor replaced by a recorder of its arguments) ...
  decided = True
  for label, text, want in (("non-drop `:` label", "01:02:03:04", lambda r: r), ("drop-frame `;` label", "01:02:03;04", lambda r: r if r.denominator == 1001 else r * F(1000, 1001))):
    for r in rates:
      me = MiniEval(ix, opaque_calls={"SmpteTimeCode": None})
      try:
        me.call(f, [text, r])
      except _R:
        wrong.append(f"{label} {text!r} at base rate {r}: parse raises")
        n += 1
        continue
      except NotConst:
        decided = False
        break
      made = [t_ for t_ in me.trace if t_[0] == "opaque" and t_[1] == "SmpteTimeCode"]
      n += 1
      if len(made) != 1 or len(made[0][2]) < 5:
        wrong.append(f"{label} at {r}: no SmpteTimeCode(h, m, s, f, rate) is built")
        continue
      args_ = made[0][2]
      if tuple(args_[:4]) != (1, 2, 3, 4):
        wrong.append(f"{label} {text!r}: fields {tuple(args_[:4])} instead of (1, 2, 3, 4)")
      if args_[4] != want(r):
        wrong.append(f"{label} at base rate {r}: counted at {args_[4]}, must be {want(r)}")
    if not decided:
      break
  if not decided:
    wrong, n = [], 0
    wrong_, n = _parse_rate_by_paths(ctx, f, rates)
    if wrong_ is None:
      return
    wrong = wrong_
  ctx.check(not wrong, "FIN-parse", f"{f.qualname}|a parsed label counts at the rate it was given", ctx.where(f.module, f.node), f"{n} (syntax, base rate) combinations",
            "; ".join(wrong[:3]) + ": offsets computed from such a label are off by the ratio of the two rates")


def run(ctx):
  from ..rules import probes as _probes12
  ctx.floor("FIN-timeparse", "time expression probes decided", _probes12.check_time_expression_probes(ctx), 40)
  ix = ctx.ix
  fs = common.funcs(ctx, ["ttconv.time_code"]) + [ix.func("ttconv.imsc.attributes:to_time_format")]
  if ctx.tier == "thorough":
    fs = list(ix.funcs.values())
  n = exa.check_exactness(ctx, fs, rule="EXA", exempt=common.EXA_EXEMPT, trunc_scope=common.time_trunc_scope(ctx))
  ctx.floor("EXA", "truncation / time sinks on the seconds->frames paths", n, 12)
  check_temporal_offset(ctx)
  check_single_rounding(ctx)
  check_fmt(ctx)
  check_drop_count(ctx)
  check_drop_mode_agreement(ctx)
  check_whole_frames(ctx)
  check_drop_frame_labels(ctx)
  nq = shape.check_pure_queries(ctx, [c for c in ix.classes.values() if c.module.name == "ttconv.time_code"])
  ctx.floor("PURE-query", "query methods of the time code classes", nq, 10)
  check_parse_rate(ctx)
  check_add_frames(ctx)
  common.check_numeric_fields(ctx, ["ttconv.time_code"])
  common.check_regexes(ctx, ["ttconv.time_code"], whole=False, floor=0)
  common.check_history_independence(ctx, ["ttconv.time_code", "ttconv.imsc.attributes", "ttconv.imsc.utils", "ttconv.srt.paragraph", "ttconv.vtt.cue"])


def check_add_frames(ctx):
  """FIN-addframes: SmpteTimeCode.add_frames(n), interpreted on labels just before minute, ten-minute and hour boundaries at
  30000/1001, 60000/1001 and 25 fps, leaves the label of frame(label) + n - for n = 1 (the step the SCC reader takes per word)
  as for larger n - so k single steps equal one step of k."""
  from fractions import Fraction as F
  from ..consteval import NotConst, Raised
  from ..rules.minieval import MiniEval
  ix = ctx.ix
  cls = ix.cls("ttconv.time_code:SmpteTimeCode")
  f = cls.methods.get("add_frames")
  if f is None:
    raise AnalysisError("anchor function vanished: ttconv.time_code:SmpteTimeCode.add_frames")
  ctx.unit(f.module)

  def label(n, rate, nominal):
    if rate.denominator == 1001:
      return smpte_drop_frame_label(n, nominal)
    s, fr = divmod(n, nominal)
    return (s // 3600, s // 60 % 60, s % 60, fr)
  bad, und, n_ev = [], None, 0
  for rate, nominal in ((F(30000, 1001), 30), (F(60000, 1001), 60), (F(25), 25)):
    d = nominal // 15 if rate.denominator == 1001 else 0
    permin = nominal * 60 - d
    starts = sorted({k * permin + d + j for k in (1, 2, 9, 10, 11, 59, 60) for j in (-3, -2, -1, 0, 1)} | {0, 5, nominal - 1})
    for n0 in starts:
      if n0 < 0:
        continue
      for step in (1, 2, 7):
        h, m_, s_, fr = label(n0, rate, nominal)
        rec = {"__record__": "SmpteTimeCode", "__class__": cls, "_hours": h, "_minutes": m_, "_seconds": s_, "_frames": fr, "_frame_rate": rate}
        me = MiniEval(ix)
        me.init_modules = {"ttconv.time_code"}
        try:
          me.call(f, [rec, step])
        except Raised:
          bad.append(f"{label(n0, rate, nominal)} + {step} at {rate}: raises")
          n_ev += 1
          continue
        except NotConst as ex:
          und = str(ex)
          break
        n_ev += 1
        got = (rec.get("_hours"), rec.get("_minutes"), rec.get("_seconds"), rec.get("_frames"))
        want = label(n0 + step, rate, nominal)
        if got != want:
          bad.append(f"{label(n0, rate, nominal)} + {step} at {rate}: {got} instead of {want}")
      if und:
        break
    if und:
      break
  if und is not None:
    ctx.undecide("FIN-addframes", f"{f.qualname}: not in the interpreted subset ({und})")
    return
  ctx.check(not bad, "FIN-addframes", f"{f.qualname}|the label of frame + n, for single and larger steps", ctx.where(f.module, f.node), f"interpreted on {n_ev} (label, step, rate) samples",
            "add_frames, interpreted on labels around minute boundaries: " + "; ".join(bad[:4]) + (f" (+{len(bad) - 4} more)" if len(bad) > 4 else "") +
            " - the time code that advances by one frame per SCC word leaves the SMPTE label sequence (a skipped label is produced, or single steps and larger steps disagree)")
