"""C11 - the WebVTT reader reproduces cues, inline markup and cue-setting geometry."""
from __future__ import annotations

import ast
import re

from ..consteval import ConstEval
from ..core import AnalysisError, own_nodes, parent, short, unparse
from ..rules import defs, exa, fmt, lint, nul, shape, match
from . import common

EXPLANATION = (
  "(KEEP-text) the handler that turns a run of cue text into Text nodes has no exit that depends on the content of the text (strip / isspace / a pattern) and stores the text itself: white space between two tags and line breaks stay in the document; "
  "Decides, for every WebVTT input, these clauses: (EXA) cue and inline timestamps reach the model as exact rationals; (DEF) no "
  "reader/tokenizer state is read before assignment on any path (cue without text); (LINT-d) the tokenizer's state enum has no two "
  "members with one value that are both dispatched on (an aliased state silently routes annotation character references through the "
  "data state); (NUL) the None end-of-input marker, the ruby container fields (None outside <ruby>) and regex match results are never "
  "dereferenced unguarded; (NUL-parent) an unmatched end tag cannot move the insertion point above the paragraph; (FMT) the "
  "timestamps, the arrow and the align/line cue settings the WebVTT writer prints are accepted by the reader (timestamp regex with "
  "groups recovered, setting keys and enumerated values within the literal sets the reader tests)."
  " (STATE-alias / STATE-global) no function of the anchored modules mutates a module- or class-level container, rebinds module / class state or mutates a mutable default argument, so a result never depends on earlier calls;"
  " (LINT-i) as in C04;"
  " (RAISE-guard) no method that always raises (Ruby.push_child) is called on the parser cursor where the cursor can be a Ruby;"
  " (NUL, arithmetic) a timestamp that failed to parse is not used in arithmetic or ordering;"
  ' (DEF-local) no local of the WebVTT reader is read unassigned; (FIN-timeexpr / FIN-pct) timestamp and percentage parsing evaluated on a grid equal the WebVTT grammar; (INV-ruby) the cursor is a Ruby only while both ruby containers are set, so markup inside ruby is routed through rb / rt;'
  ' (ORD-br / PAIR-span) as for SRT; (ORD-settings / TAB-settings / TAB-region-key) cue settings are complete before a region is looked up, every setting has a branch, and regions are shared only on equal settings;'
  ' (TYPESTATE-buffer / TYPESTATE-flush) the tokenizer leaves no state with a non-empty buffer unflushed at end of input or at a state change;'
  ' (FIN-linenum) a line number n >= 0 (0 included) is the offset 100 n / N from the near edge and n < 0 the offset 100 + 100 n / N, evaluated for seven line numbers in both writing directions;'
  " (FIN-cref) in the tokenizer's two reference states the text handed to html.unescape includes the terminating semicolon, so &lrm; / &rlm; are decoded and an unknown reference stays as written;"
  ' (DEP-relative) the begin of a timestamp span is the timestamp minus the sum of the begins of all its ancestors (begins are parent-relative), so nested timestamps stay correct;'
  ' (FIN-position) for every position, position alignment, size and writing direction of a grid the region stays inside the root container along the positioned axis (origin >= 0, origin + extent <= 100);'
  ' (PAIR-level) only the start-tag handler moves the insertion point down a level (one known finding: the timestamp handler does too, so an end tag after a timestamp closes the wrong span);'
  ' (LINT-k) no instance field declared with a numeric type is tested by truthiness (the number 0 would count as `not set`);'
  ' (LINT-l) no tuple / list / set display of the anchored modules lists the same computed component twice and no dict display repeats a key (a key or fingerprint built that way cannot tell apart what the missing component would have);'
  ' (STATE-share) no assignment stores a container field of one object (a field the package updates in place) into a field of another object without copying it, so an in-place update of one object never changes another;'
  " (ITEM-source) an object built once per item of an inner loop is filled only with values that derive from that item or do not vary with the loops, never with a value of the enclosing container standing where the item's own belongs;"
  ' (LOOP-break) no loop over the items of a collection is left by a branch that does nothing but `break` on a test about the item (end-of-input sentinels, flags set in the loop body and searches whose variable is read afterwards excepted): an item that is to be skipped does not end the processing of the items after it;'
  ' (FIN-regex) the WebVTT timestamp, percentage and line-number patterns accept / reject the probe values written from the WebVTT syntax (a line number 0 or -0 is a number);'
  + common.SHARED_CLAUSES['text']
  + " (TAINT, shared with C07) the WebVTT writer passes model text through an escaping function that, interpreted on probe texts (bare & < >, text that already looks like a character reference), escapes every & < > exactly once, so the reader's decoding restores the text;"
  + " (FIN-tokens) the WebVTT cue text tokenizer, interpreted on probe texts, decodes named, decimal and hexadecimal character references (&nbsp; &lrm; &rlm; included), leaves an ampersand that starts no reference as it is, and turns tags into start / end / timestamp tokens with their classes and annotation;"
)
RULE_TEXT = "per call site / function / enum / printed sample"
UNDECIDED = ["cue-setting geometry (line numbers <= 0, position with size)", "tag scoping", "region sharing for equal settings"]
TRUSTED = ["stdlib re / format() on extracted literals", "tabled None sources: _none_terminated items, ruby_rbc/ruby_rtc, regex matches"]

MODS = ["ttconv.vtt.reader", "ttconv.vtt.tokenizer"]


def check_fmt(ctx):
  ix = ctx.ix
  sk = fmt.Skeleton(ix)
  cue = ix.cls("ttconv.vtt.cue:VttCue")
  seps = set()
  for m in cue.methods.values():
    for n in own_nodes(m.node):
      if isinstance(n, ast.Call) and isinstance(n.func, ast.Attribute) and n.func.attr == "set_separator" and n.args \
          and isinstance(n.args[0], ast.Constant):
        seps.add(n.args[0].value)
  if not seps:
    raise AnalysisError("VttCue no longer sets the ClockTime separator (anchor vanished)")
  clock = sk.of_method(ix.func("ttconv.time_code:ClockTime.__str__"), {"self._ms_separator": seps})
  ts_pat = fmt.pattern_literal(ix, ix.mod("ttconv.vtt.reader"), "_VTT_TS_RE")
  conv = ix.func("ttconv.vtt.reader:vtt_timestamp_to_secs")
  meth = None
  for n in own_nodes(conv.node):
    if isinstance(n, ast.Call) and isinstance(n.func, ast.Attribute) and unparse(n.func.value) == "_VTT_TS_RE":
      meth = n.func.attr
  if meth is None:
    raise AnalysisError("vtt_timestamp_to_secs no longer applies _VTT_TS_RE")
  rx = re.compile(ts_pat)
  names = ["self._hours", "self._minutes", "self._seconds", "self._milliseconds"]
  samples = {"self._hours": [0, 7, 23, 100], "self._minutes": [0, 9, 59, 30], "self._seconds": [0, 5, 59, 1], "self._milliseconds": [0, 7, 999, 80]}
  s_fn = ix.func("ttconv.vtt.cue:VttCue.__str__")
  ctx.unit(s_fn.module)
  k = 0
  for text, vals in fmt.instantiate(clock, samples):
    m = getattr(rx, meth)(text)
    got = None
    if m is not None:
      got = [int(m.group("hh") or 0), int(m.group("mm")), int(m.group("ss")), int(m.group("ms"))]
    k += 1
    ctx.check(got == [vals[x] for x in names], "FMT", f"ttconv.vtt.cue:VttCue.__str__|timestamp|{text}", ctx.where(s_fn.module, s_fn.node),
              f"timestamp `{text}` read back as {got}",
              f"the WebVTT writer prints the timestamp `{text}` but _VTT_TS_RE.{meth} recovers {got}")
  ctx.floor("FMT", "sample timestamps", k, 4)

  # the cue timing line: f"{self._begin} --> {self._end}" ; the reader splits on white space and needs >= 3 tokens with "-->" present
  # (whatever builds the line: an f-string, a format string, a concatenation - the separator is a string constant of the function)
  lits = [n.value for n in own_nodes(s_fn.node) if isinstance(n, ast.Constant) and isinstance(n.value, str) and "-->" in n.value]
  arrow_ok = bool(lits) and all(re.search(r"[ \t]-->[ \t]", l) is not None for l in lits)
  ctx.check(arrow_ok, "FMT", "ttconv.vtt.cue:VttCue.__str__|arrow", ctx.where(s_fn.module, s_fn.node),
            "begin and end are separated by ' --> ' (white space on both sides: the reader splits the line on white space)",
            f"the timing line must separate begin and end by ' --> ' with white space on both sides; literals found: {lits}")

  # settings: keys and enumerated values
  reader = ix.func("ttconv.vtt.reader:_get_or_make_region")
  ctx.unit(reader.module)
  reader_keys = set()
  accepted = {}   # variable compared -> literal set, keyed by the setting it came from
  cur_key = None
  for n in own_nodes(reader.node):
    if isinstance(n, ast.Call) and isinstance(n.func, ast.Attribute) and n.func.attr == "get" and unparse(n.func.value) == "cue_settings" \
        and n.args and isinstance(n.args[0], ast.Constant):
      reader_keys.add(n.args[0].value)
  # literal comparisons per setting: walk statements in order, tracking the last cue_settings.get(key)
  for st in reader.node.body:
    for n in ast.walk(st):
      if isinstance(n, ast.Assign) and isinstance(n.value, ast.Call) and isinstance(n.value.func, ast.Attribute) \
          and n.value.func.attr == "get" and unparse(n.value.func.value) == "cue_settings" and n.value.args:
        cur_key = n.value.args[0].value
      if isinstance(n, ast.Compare) and cur_key is not None and len(n.ops) == 1 and isinstance(n.ops[0], (ast.Eq, ast.In)):
        c = n.comparators[0]
        if isinstance(c, (ast.Name, ast.Attribute)):
          c = ix.deref(reader.module, c, cls=reader.cls, func=reader) or c       # a module-level table: membership in a dict is membership in its keys
        if isinstance(c, ast.Dict):
          c = ast.Tuple(elts=[k for k in c.keys if k is not None], ctx=ast.Load())
        vals = [c.value] if isinstance(c, ast.Constant) else [e.value for e in getattr(c, "elts", []) if isinstance(e, ast.Constant)]
        vals = [v for v in vals if isinstance(v, str)]
        if vals:
          accepted.setdefault((cur_key, unparse(n.left)), set()).update(vals)
      # a look-up in a module-level table: `TABLE.get(value)` / `TABLE[value]` accepts the keys of the table
      tbl_, arg_ = None, None
      if isinstance(n, ast.Call) and isinstance(n.func, ast.Attribute) and n.func.attr == "get" and n.args and isinstance(n.func.value, (ast.Name, ast.Attribute, ast.Dict)) and unparse(n.func.value) != "cue_settings":
        tbl_, arg_ = n.func.value, n.args[0]
      elif isinstance(n, ast.Subscript) and isinstance(n.ctx, ast.Load) and isinstance(n.value, (ast.Name, ast.Attribute, ast.Dict)) and isinstance(n.slice, (ast.Name, ast.Attribute)):
        tbl_, arg_ = n.value, n.slice
      if tbl_ is not None and cur_key is not None and isinstance(arg_, (ast.Name, ast.Attribute)):
        d_ = tbl_ if isinstance(tbl_, ast.Dict) else ix.deref(reader.module, tbl_, cls=reader.cls, func=reader)
        if isinstance(d_, ast.Dict):
          keys_ = [k_.value for k_ in d_.keys if isinstance(k_, ast.Constant) and isinstance(k_.value, str)]
          if keys_:
            accepted.setdefault((cur_key, unparse(arg_)), set()).update(keys_)
  ctx.floor("FMT", "cue-setting keys read by the WebVTT reader", len(reader_keys), 4)
  for k in ("vertical", "size", "align", "line", "position"):
    ctx.check(k in reader_keys, "TAB-settings", f"{reader.qualname}|cue setting `{k}` is read", ctx.where(reader.module, reader.node), "read",
              f"the WebVTT cue setting `{k}` is never read: cues that use it are laid out as if it were absent")
  ce = ConstEval(ix)
  # writer side: literal "key:" pieces of VttCue.__str__
  writer_keys = {}
  for n in own_nodes(s_fn.node):
    if isinstance(n, ast.Constant) and isinstance(n.value, str):
      for mm in re.finditer(r"\s([a-z]+):", n.value):
        writer_keys[mm.group(1)] = (n, None)
  ctx.floor("FMT", "cue-setting keys printed by VttCue.__str__", len(writer_keys), 2)
  for key, (node, nxt) in sorted(writer_keys.items()):
    ctx.check(key in reader_keys, "FMT", f"ttconv.vtt.cue:VttCue.__str__|setting-key|{key}", ctx.where(s_fn.module, node),
              f"setting `{key}` is read by the reader", f"the writer prints the cue setting `{key}:` which the reader never reads (keys read: {sorted(reader_keys)})")
  # enumerated values
  for enum_name, setting, var in (("TextAlignment", "align", "value"), ("LineAlignment", "line", "line_align")):
    en = ix.cls(f"ttconv.vtt.cue:VttCue.{enum_name}")
    vals = []
    for name, vexpr in ix.enum_members(en):
      v = ce.try_ev(en.module, vexpr, en)
      vals.append(v)
    acc = accepted.get((setting, var), set())
    if not acc:
      acc = set().union(*[v_ for (k_, _var), v_ in accepted.items() if k_ == setting]) if any(k_ == setting for (k_, _v) in accepted) else set()
    if not acc:
      ctx.undecide("FMT", f"{reader.qualname}: the values the reader accepts for the `{setting}` setting are not compared with literals or looked up in a literal table")
      continue
    for v in vals:
      ctx.check(v in acc, "FMT", f"ttconv.vtt.cue:VttCue.{enum_name}|{v}", ctx.where(en.module, en.node),
                f"`{v}` is a value the reader accepts for `{setting}`",
                f"VttCue.{enum_name} value `{v}` is printed for the `{setting}` setting but the reader only accepts {sorted(acc)}")
  # line:<N>% must match the reader's percentage pattern
  pct = fmt.pattern_literal(ix, ix.mod("ttconv.vtt.reader"), "_VTT_PCT_RE")
  line_lits = None
  for n in own_nodes(s_fn.node):
    if isinstance(n, ast.JoinedStr) and "self._line" in unparse(n) and "line:" in unparse(n):
      skel = sk.of_expr(s_fn, n, {})
      for text, _ in fmt.instantiate(skel, {"self._line": [0, 7, 100, 50]}):
        val = text.split(":", 1)[1]
        ctx.check(re.fullmatch(pct, val) is not None, "FMT", f"ttconv.vtt.cue:VttCue.__str__|line-value|{val}", ctx.where(s_fn.module, n),
                  f"`{val}` matches {pct!r}", f"the writer prints line:{val} which the reader's percentage pattern {pct!r} rejects")


def check_time_expression(ctx):
  ix = ctx.ix
  f = ix.func("ttconv.vtt.reader:vtt_timestamp_to_secs")
  rets = [r for r in own_nodes(f.node) if isinstance(r, ast.Return) and r.value is not None and not (isinstance(r.value, ast.Constant) and r.value.value is None)]
  if len(rets) != 1:
    raise AnalysisError("vtt_timestamp_to_secs: expected one value return")
  rows = shape.eval_time_expr(ix, f, rets[0].value, {"h": "hh", "m": "mm", "s": "ss", "ms": "ms"})
  wrong = [(s, v, w) for s, v, w in rows if v != w]
  ctx.check(not wrong, "FIN-timeexpr", f"{f.qualname}|seconds = h*3600 + m*60 + s + ms/1000", ctx.where(f.module, rets[0]), f"exact on {len(rows)} sample timestamps",
            "the timestamp value is not h*3600 + m*60 + s + ms/1000 of the printed fields: " + "; ".join(f"{s}: got {v}, want {w}" for s, v, w in wrong[:2]))
  # hours are optional: a missing hh group counts as 0
  from ..consteval import ConstEval
  from ..rules.isdrules import substitute
  e, _mapping = shape.groups_substituted(ix, f, rets[0].value)
  v = ConstEval(ix, symbolic_ok=False).try_ev(f.module, e, None, {"__g_hh": None, "__g_mm": "02", "__g_ss": "03", "__g_ms": "004"})
  from fractions import Fraction
  ctx.check(v == Fraction(123004, 1000), "FIN-timeexpr", f"{f.qualname}|hours optional", ctx.where(f.module, rets[0]), "mm:ss.ttt without hours is accepted",
            f"a timestamp without hours evaluates to {v!r} instead of 123.004")


RUBY_GUARD = "isinstance(self.parent, model.Ruby)"
RUBY_INV_OK = [False]    # set by run() when INV-ruby holds


def check_ruby_invariant(ctx):
  """INV-ruby: in _TextCueParser, `self.parent is a Ruby`  =>  ruby_rbc and ruby_rtc are not None.
  Supporting facts: (1) the only store of a Ruby into self.parent is preceded, in the same block, by
  non-None stores into both fields; (2) every store of None into either field is inside a branch
  guarded by isinstance(self.parent, model.Ruby) and the function then pops self.parent."""
  ix = ctx.ix
  c = ix.cls("ttconv.vtt.reader:_TextCueParser")
  ctx.unit(c.module)
  ok1 = ok2 = True
  why = []
  n_none = 0
  for m in c.methods.values():
    if m.name == "__init__":
      continue
    for st in own_nodes(m.node):
      if isinstance(st, ast.Assign) and len(st.targets) == 1 and unparse(st.targets[0]) in ("self.ruby_rbc", "self.ruby_rtc"):
        if isinstance(st.value, ast.Constant) and st.value.value is None:
          n_none += 1
          par = getattr(st, "_parent", None)
          guarded = isinstance(par, ast.If) and unparse(par.test) == RUBY_GUARD and st in par.body
          pops = any(isinstance(x, ast.Assign) and unparse(x) == "self.parent = self.parent.parent()" for x in m.node.body)
          if not (guarded and pops):
            ok2 = False
            why.append(f"{m.short}: `{unparse(st)}` outside the Ruby guard or without the following pop")
    # stores of a Ruby into self.parent: look at the block that constructs the Ruby
    for st0 in own_nodes(m.node):
      if isinstance(st0, ast.Assign) and isinstance(st0.value, ast.Call) and unparse(st0.value.func) in ("model.Ruby",) \
          and isinstance(st0.targets[0], ast.Name):
        var = st0.targets[0].id
        blk = getattr(st0, "_parent", None)
        body = getattr(blk, "body", [])
        if st0 not in body:
          continue
        have = set()
        for x in body[body.index(st0) + 1:]:
          if isinstance(x, ast.Assign) and isinstance(x.targets[0], ast.Name) and x.targets[0].id == var:
            break
          if isinstance(x, ast.Assign) and isinstance(x.value, ast.Call) and unparse(x.targets[0]) in ("self.ruby_rbc", "self.ruby_rtc"):
            have.add(unparse(x.targets[0]))
          if isinstance(x, ast.Assign) and unparse(x.targets[0]) == "self.parent" and isinstance(x.value, ast.Name) and x.value.id == var:
            if not {"self.ruby_rbc", "self.ruby_rtc"} <= have:
              ok1 = False
              why.append(f"{m.short}: self.parent becomes a Ruby before both container fields are set")
  ctx.floor("INV-ruby", "None stores into the ruby container fields", n_none, 2)
  ctx.check(ok1 and ok2, "INV-ruby", "ttconv.vtt.reader:_TextCueParser|parent-is-Ruby=>containers-set", ctx.where(c.module, c.node),
            "the ruby container fields are non-None whenever the insertion point is a Ruby",
            "the class invariant `self.parent is a Ruby => ruby_rbc/ruby_rtc are set` no longer holds: " + "; ".join(why))
  return ok1 and ok2


def check_percentages(ctx):
  """FIN-pct: every WebVTT percentage from 0% to 100% inclusive is read as that number (the writer
  itself prints `line:100%,end`); evaluated on the statements of parse_vtt_pct with the matched
  digits as the variable."""
  from ..consteval import FuncEval, NotConst, Raised, _CallingConstEval
  from ..rules import match
  ix = ctx.ix
  f = ix.func("ttconv.vtt.reader:parse_vtt_pct")
  ctx.unit(f.module)
  mvars = [st.targets[0].id for st in own_nodes(f.node) if isinstance(st, ast.Assign) and isinstance(st.targets[0], ast.Name) and isinstance(st.value, ast.Call)
           and isinstance(st.value.func, ast.Attribute) and st.value.func.attr in ("fullmatch", "match")]
  if len(mvars) != 1:
    raise AnalysisError(f"{f.qualname}: the regular-expression match was not found")
  mv = mvars[0]
  body = [st for st in f.node.body if not (isinstance(st, ast.Assign) and isinstance(st.targets[0], ast.Name) and st.targets[0].id == mv)]
  body = match.replace_exprs(body, {f"{mv}.group(1)": "__digits", f"{mv} is not None": "__matched", f"{mv} is None": "__unmatched", mv: "__matched"})
  fe = FuncEval(ix)
  wrong = []
  for digits, want in (("0", 0), ("7", 7), ("50", 50), ("99.4", 99), ("100", 100), ("100.0", 100)):
    env = {"__digits": digits, "__matched": True, "__unmatched": False}
    try:
      got = fe._block(_CallingConstEval(ix, fe, f, 0, None), f, body, env)
    except Exception as e:
      if type(e).__name__ == "_Return":
        got = e.value
      elif isinstance(e, (NotConst, Raised)):
        raise AnalysisError(f"{f.qualname}: leaves the evaluable subset on {digits!r} ({e})")
      else:
        raise
    if got != want:
      wrong.append(f"{digits}% is read as {got!r}, expected {want}")
  ctx.check(not wrong, "FIN-pct", f"{f.qualname}|0% .. 100% inclusive", ctx.where(f.module, f.node), "6 values", "; ".join(wrong) + " - cue settings such as line:100%,end (which the writer prints) are ignored")


def check_line_numbers(ctx):
  """FIN-linenum: a `line` setting given as a line number n is the offset of that line from the top (or the
  start edge, in vertical text) when n >= 0 - line 0 is the first line - and counts from the far edge when
  n < 0 (line -1 is the last line): 100 * n / N and 100 + 100 * n / N for N lines.  Every assignment computed
  from the parsed line number is evaluated for n in -N .. N."""
  from fractions import Fraction as F
  from ..consteval import ConstEval, NotConst
  ix = ctx.ix
  f = ix.func("ttconv.vtt.reader:_get_or_make_region")
  ctx.unit(f.module)
  nvars = {st.targets[0].id for st in own_nodes(f.node) if isinstance(st, ast.Assign) and len(st.targets) == 1 and isinstance(st.targets[0], ast.Name)
           and isinstance(st.value, ast.Call) and unparse(st.value.func).endswith("parse_vtt_int")}
  if len(nvars) != 1:
    raise AnalysisError(f"{f.qualname}: the parsed line number was not found")
  nv = next(iter(nvars))
  sites = [st for st in own_nodes(f.node) if isinstance(st, ast.Assign) and len(st.targets) == 1 and isinstance(st.targets[0], ast.Name)
           and st.targets[0].id != nv and any(isinstance(x, ast.Name) and x.id == nv for x in ast.walk(st.value))]
  ctx.floor("FIN-linenum", "offsets computed from a line number", len(sites), 2)
  ce = ConstEval(ix, symbolic_ok=False)
  for st in sites:
    totals = [ce.try_ev(f.module, x, None, default=None) for x in ast.walk(st.value) if isinstance(x, ast.Name) and x.id.startswith("_DEFAULT_")]
    totals = [t for t in totals if isinstance(t, int)]
    if len(set(totals)) != 1:
      raise AnalysisError(f"{f.qualname}: `{short(st.value, 60)}` does not divide by one line count")
    N = totals[0]
    wrong = []
    for n in (-N, -3, -1, 0, 1, 5, N - 1):
      try:
        got = ce.ev(f.module, st.value, None, {nv: n})
      except NotConst as e:
        raise AnalysisError(f"{f.qualname}: `{short(st.value, 60)}` leaves the evaluable subset ({e})")
      want = F(100 * n, N) if n >= 0 else 100 + F(100 * n, N)
      if abs(F(got) - want) > F(1, 10**9):
        wrong.append(f"line {n} of {N}: offset {float(got):.2f}%, must be {float(want):.2f}%")
    ctx.check(not wrong, "FIN-linenum", f"{f.qualname}|{short(st.value, 70)}", ctx.where(f.module, st), f"7 line numbers of {N} agree",
              "; ".join(wrong[:3]) + ": the region starts outside the root container or has a negative extent")


def check_cref_terminator(ctx):
  """FIN-cref: a character reference is `&name;` including its semicolon.  html.unescape decodes
  most names only when the semicolon is present (`&lrm;`, `&rlm;`; a few legacy names such as
  `&amp` also decode without), and a reference that is not decoded must be left in the text as it
  was written.  In each branch of the tokenizer that handles the terminating `;`, the buffer whose
  text is handed to html.unescape therefore receives the `;` (or the argument appends it) before the
  call."""
  ix = ctx.ix
  f = ix.func("ttconv.vtt.tokenizer:CueTextTokenizer")
  ctx.unit(f.module)
  calls = [c for c in own_nodes(f.node) if isinstance(c, ast.Call) and unparse(c.func).endswith("unescape") and c.args]
  ctx.floor("FIN-cref", "character-reference decoding sites", len(calls), 2)

  def is_semicolon(e):
    return (isinstance(e, ast.Constant) and e.value == ";") or (isinstance(e, ast.Call) and isinstance(e.func, ast.Name) and e.func.id == "chr" and e.args and unparse(e.args[0]) == "c")
  for c in calls:
    arg = match.inline_locals_deep(f.node, c.args[0], depth=1)
    bufs = {x.args[0].id for x in ast.walk(arg) if isinstance(x, ast.Call) and isinstance(x.func, ast.Name) and x.func.id == "str" and x.args and isinstance(x.args[0], ast.Name)}
    direct = any(isinstance(x, ast.BinOp) and isinstance(x.op, ast.Add) and is_semicolon(x.right) for x in ast.walk(arg)) or \
      any(isinstance(x, ast.JoinedStr) and x.values and isinstance(x.values[-1], ast.Constant) and str(x.values[-1].value).endswith(";") for x in ast.walk(arg))
    # the statements of the same block that precede the call
    st = c
    while not isinstance(parent(st), (ast.If, ast.For, ast.While, ast.FunctionDef)) or not any(x is st for fld in ("body", "orelse") for x in getattr(parent(st), fld, [])):
      st = parent(st)
    blk = next(getattr(parent(st), fld) for fld in ("body", "orelse") if any(x is st for x in getattr(parent(st), fld, [])))
    before = blk[:next(k for k, x in enumerate(blk) if x is st)]
    appended = any(isinstance(x, ast.Call) and isinstance(x.func, ast.Attribute) and x.func.attr == "append" and isinstance(x.func.value, ast.Name) and x.func.value.id in bufs
                   and x.args and is_semicolon(x.args[0]) for b in before for x in ast.walk(b))
    state_name = next((unparse(t).split(".")[-1] for t, pol in match.enclosing_conditions(c, f.node) if pol and "state" in unparse(t) and "_State." in unparse(t)), "?")
    ctx.check(direct or appended, "FIN-cref", f"{f.qualname}|{short(c, 50)} in state {state_name}", ctx.where(f.module, c), "the reference is decoded together with its `;`",
              f"`{short(c, 50)}` decodes the reference without its terminating `;`: html.unescape leaves `&lrm` / `&rlm` undecoded, and the semicolon of every undecoded reference is lost from the text")


def check_timestamp_base(ctx):
  """DEP-relative: begin times in the model are relative to the parent element.  An inline timestamp
  `<hh:mm:ss.ttt>` is absolute, so the begin stored on its span is the timestamp minus the absolute
  begin of the insertion point, i.e. minus the SUM of the begins of all its ancestors.  The ancestor
  walk in the timestamp handler must therefore visit every ancestor and add up what it finds; a walk
  that stops at the first ancestor with a begin takes a relative time for an absolute one as soon as
  a second timestamp is nested in the first."""
  ix = ctx.ix
  c = ix.cls("ttconv.vtt.reader:_TextCueParser")
  ctx.unit(c.module)
  cands = [m for m in c.methods.values() if any(isinstance(x, ast.Call) and unparse(x.func).endswith("vtt_timestamp_to_secs") for x in own_nodes(m.node))]
  if len(cands) != 1:
    raise AnalysisError("the timestamp-tag handler of _TextCueParser was not found")
  f = cands[0]
  walks = [lp for lp in own_nodes(f.node) if isinstance(lp, (ast.While, ast.For)) and any(isinstance(x, ast.Call) and isinstance(x.func, ast.Attribute) and x.func.attr == "parent" for x in ast.walk(lp))
           and any(isinstance(x, ast.Call) and isinstance(x.func, ast.Attribute) and x.func.attr == "get_begin" for x in ast.walk(lp))]
  if len(walks) != 1:
    raise AnalysisError(f"{f.qualname}: expected one walk over the ancestors that reads get_begin(), found {len(walks)}")
  lp = walks[0]
  stops = [x for x in ast.walk(lp) if isinstance(x, (ast.Break, ast.Return))]
  sums = [x for x in ast.walk(lp) if (isinstance(x, ast.AugAssign) and isinstance(x.op, ast.Add)) or
          (isinstance(x, ast.Assign) and isinstance(x.targets[0], ast.Name) and any(isinstance(b, ast.BinOp) and isinstance(b.op, ast.Add) and
                                                                                    any(isinstance(n, ast.Name) and n.id == x.targets[0].id for n in ast.walk(b)) for b in ast.walk(x.value)))]
  ctx.check(not stops and bool(sums), "DEP-relative", f"{f.qualname}|a timestamp is made relative to the absolute begin of its parent", ctx.where(f.module, lp),
            "the ancestor walk adds up every begin it finds",
            "the walk over the ancestors " + ("stops at the first begin it finds" if stops else "does not add up the begins") +
            ": that begin is relative to its own parent, so a timestamp nested in another timestamp's span (`a<00:01.500>b<00:01.800>c`) gets a begin that is too late")


def check_position_box(ctx):
  """FIN-position: whatever `position`, position alignment and `size` a cue asks for, the region lies
  inside the root container along the axis the position applies to: 0 <= origin, origin + extent <= 100,
  extent >= 0 (WebVTT limits the size to what fits on the side(s) of the position).  The statements that
  run when a position was parsed are evaluated on a grid of positions, sizes, alignments and both
  writing directions."""
  import itertools
  from fractions import Fraction as F
  from ..consteval import ConstEval, EnumMember
  from ..rules import fineval
  ix = ctx.ix
  f = ix.func("ttconv.vtt.reader:_get_or_make_region")
  ctx.unit(f.module)
  # roles
  ext = next((c for c in own_nodes(f.node) if isinstance(c, ast.Call) and unparse(c.func).endswith("ExtentType")), None)
  org = next((c for c in own_nodes(f.node) if isinstance(c, ast.Call) and unparse(c.func).endswith("CoordinateType")), None)
  if ext is None or org is None:
    raise AnalysisError(f"{f.qualname}: the extent / origin construction was not found")

  def var_of(call, kw):
    v = next((k.value for k in call.keywords if k.arg == kw), None)
    names = [n.id for n in ast.walk(v) if isinstance(n, ast.Name) and n.id != "styles"] if v is not None else []
    return names[0] if names else None
  ew, eh, ox, oy = var_of(ext, "width"), var_of(ext, "height"), var_of(org, "x"), var_of(org, "y")
  if None in (ew, eh, ox, oy):
    raise AnalysisError(f"{f.qualname}: the locals behind the region's extent and origin were not found")
  blocks = [st for st in own_nodes(f.node) if isinstance(st, ast.If) and match.is_none_test(st.test, lambda x: isinstance(x, ast.Name)) is False
            and any(isinstance(t, ast.Name) and t.id in (ox, oy) and isinstance(t.ctx, ast.Store) for t in ast.walk(st))
            and any(isinstance(x, ast.Constant) and x.value == "line-left" for x in ast.walk(st))]
  blocks = [b for b in blocks if not any(o is not b and any(x is o for x in ast.walk(b)) for o in blocks)]      # the innermost one
  if len(blocks) != 1:
    raise AnalysisError(f"{f.qualname}: the statements that apply a parsed position were not found")
  blk = blocks[0]
  pos = next(n.id for n in ast.walk(blk.test) if isinstance(n, ast.Name))
  la = next((unparse(c.left) for c in ast.walk(blk) if isinstance(c, ast.Compare) and isinstance(c.comparators[0], ast.Constant) and c.comparators[0].value in ("center", "line-left", "line-right")), None)
  wm = next((n.id for c in ast.walk(blk) if isinstance(c, ast.Compare) and "WritingModeType" in unparse(c) for n in ast.walk(c.left) if isinstance(n, ast.Name)), None)
  if la is None or wm is None:
    raise AnalysisError(f"{f.qualname}: the alignment / writing-mode locals of the position block were not found")
  ce = ConstEval(ix)
  modes = {m_: ce.ev(f.module, ast.parse(f"styles.WritingModeType.{m_}", mode="eval").body) for m_ in ("lrtb", "tbrl")}
  wrong, n = [], 0
  for p, size, al, m_ in itertools.product((0, 10, 50, 90, 100), (20, 95, 100), ("center", "line-left", "line-right"), ("lrtb", "tbrl")):
    env = {pos: F(p), ew: F(95), eh: F(95), ox: F(5, 2), oy: F(5, 2), la: al, wm: modes[m_]}
    env[ew if m_ == "lrtb" else eh] = F(size)
    eff = fineval.collect(ix, f, blk.body, env, "__none__")
    if eff.skipped:
      raise AnalysisError(f"{f.qualname}: a test of the position block could not be evaluated ({eff.skipped[0]})")
    o, e = (eff.env.get(ox), eff.env.get(ew)) if m_ == "lrtb" else (eff.env.get(oy), eff.env.get(eh))
    n += 1
    if not (isinstance(o, (int, F, float)) and isinstance(e, (int, F, float))):
      raise AnalysisError(f"{f.qualname}: origin / extent after the position block are not numbers")
    if o < 0 or e < 0 or o + e > 100 + F(1, 10**6):
      wrong.append(f"position:{p}%,{al} size:{size}% ({m_}): origin {float(o):.1f}%, extent {float(e):.1f}%")
  ctx.check(not wrong, "FIN-position", f"{f.qualname}|the positioned cue box lies inside the root container", ctx.where(f.module, blk), f"{n} combinations",
            f"{len(wrong)} of {n} combinations leave the root container, e.g. " + "; ".join(wrong[:3]))


def check_level_owners(ctx):
  """PAIR-level: the insertion point moves down one level for a start tag and up one level for the
  matching end tag; the two handlers are the only ones that may move it (PAIR-span checks that they
  do so once each).  A handler of a token that has no end tag (a timestamp) and yet descends into a
  new span breaks the pairing: the next end tag closes that span instead of its own element, and the
  text after the end tag stays inside the element."""
  ix = ctx.ix
  c = ix.cls("ttconv.vtt.reader:_TextCueParser")
  ctx.unit(c.module)
  n = 0
  for name, m in sorted(c.methods.items()):
    if name in ("__init__",):
      continue
    downs = [st for st in own_nodes(m.node) if isinstance(st, ast.Assign) and unparse(st.targets[0]) == "self.parent" and ".parent()" not in unparse(st.value)]
    if not downs:
      continue
    n += 1
    is_start = any(isinstance(a.annotation, ast.Name) and a.annotation.id == "StartTagToken" for a in m.node.args.args if a.annotation is not None) or "starttag" in name
    ctx.check(is_start, "PAIR-level", f"{m.qualname}|{short(downs[0], 40)}", ctx.where(m.module, downs[0]), "descends for a start tag, which has an end tag",
              f"{m.short} makes a new span the insertion point although its token has no end tag: the following end tag pops this span, not the element it belongs to "
              "(`<i>x<00:00:01.500>y</i>z` leaves z inside the italic span)")
  ctx.floor("PAIR-level", "handlers that move the insertion point down", n, 1)


def run(ctx):
  ctx.floor("KEEP-text", "cue text handlers", common.check_text_handlers(ctx, ["ttconv.vtt.reader:_TextCueParser._handle_string"]), 1)
  from ..rules import probes as _probes
  ctx.floor("FIN-tokens", "probe texts decided", _probes.check_cue_tokens(ctx), 12)
  common.check_shared_helpers(ctx, text=True)
  # the other half of the round trip: what the writer escapes is what the reader's tokenizer decodes (as in C07)
  from . import c07 as _c07
  _c07.check_escaping(ctx)
  ix = ctx.ix
  nul.IMPLICATIONS.clear()
  RUBY_INV_OK[0] = bool(check_ruby_invariant(ctx))
  if RUBY_INV_OK[0]:
    nul.IMPLICATIONS.append((RUBY_GUARD, True, {"self.ruby_rbc", "self.ruby_rtc"}))
  fs = common.funcs(ctx, MODS)
  ms = common.mods(ctx, MODS)
  n = exa.check_exactness(ctx, fs, rule="EXA", exempt=common.EXA_EXEMPT, trunc_scope=common.time_trunc_scope(ctx))
  ctx.floor("EXA", "time sinks in the WebVTT reader", n, 3)
  nf = defs.check_def_local(ctx, fs, rule="DEF-local", exempt=common.DEF_EXEMPT)
  ctx.floor("DEF-local", "functions with locals in vtt/reader.py + tokenizer.py", nf, 8)
  ne = lint.enum_alias_dispatch(ctx, ms, rule="LINT-d")
  ctx.floor("LINT-d", "enums in the WebVTT reader and tokenizer", ne, 2)
  src = nul.NullSources(call_names={"vtt_timestamp_to_secs"}, regex_methods=True, iter_funcs={"_none_terminated"}, fields={"ruby_rbc", "ruby_rtc"})
  nt = nul.check_sources(ctx, fs, src, rule="NUL")
  ctx.floor("NUL", "dereferences of tabled nullable values", nt, 8)
  np_ = nul.check_parent_walk(ctx, [ix.cls("ttconv.vtt.reader:_TextCueParser")])
  ctx.floor("NUL-parent", "parent() stores in the WebVTT cue parser", np_, 2)
  check_fmt(ctx)
  check_time_expression(ctx)
  shape.check_line_breaks(ctx, ix.func("ttconv.vtt.reader:_TextCueParser._handle_string"))
  shape.check_span_pairing(ctx, ix.func("ttconv.vtt.reader:_TextCueParser._handle_starttag"), ix.func("ttconv.vtt.reader:_TextCueParser._handle_endtag"))
  gr = ix.func("ttconv.vtt.reader:_get_or_make_region")
  shape.check_region_key(ctx, gr)
  # every local that ends up in a style of the region (looked up or set) must have its final value before another
  # setting block consults it: `position` anchors with the extent that `size` and `line` decide, `align` reads the writing mode, ...
  result_vars = set()
  from ..rules import match as _m
  from ..core import ancestors as _anc
  ldefs = _m.local_defs(gr.node)

  def through_rows(call, name):
    """a loop variable over a local table of (property, value) rows stands for the names in its column"""
    for lp in _anc(call):
      if isinstance(lp, ast.For) and isinstance(lp.target, (ast.Tuple, ast.List)) and \
          ((isinstance(lp.iter, ast.Name) and len(ldefs.get(lp.iter.id, [])) == 1) or isinstance(lp.iter, (ast.Tuple, ast.List))):
        tn = [t.id if isinstance(t, ast.Name) else None for t in lp.target.elts]
        tab = ldefs[lp.iter.id][0] if isinstance(lp.iter, ast.Name) else lp.iter
        if name in tn and isinstance(tab, (ast.Tuple, ast.List)) and all(isinstance(r, (ast.Tuple, ast.List)) and len(r.elts) == len(tn) for r in tab.elts):
          return {x.id for r in tab.elts for x in ast.walk(r.elts[tn.index(name)]) if isinstance(x, ast.Name) and isinstance(x.ctx, ast.Load)}
    return {name}
  for c in own_nodes(gr.node):
    if isinstance(c, ast.Call) and isinstance(c.func, ast.Attribute) and c.func.attr == "set_style" and len(c.args) == 2:
      for n in ast.walk(c.args[1]):
        if isinstance(n, ast.Name) and isinstance(n.ctx, ast.Load):
          result_vars |= through_rows(c, n.id)
  for _ in range(3):      # through locals that only package other locals (extent = ExtentType(height=..extent_height.., ...))
    result_vars |= {n.id for v in list(result_vars) if len(ldefs.get(v, [])) == 1 for n in ast.walk(ldefs[v][0]) if isinstance(n, ast.Name) and isinstance(n.ctx, ast.Load)}
  top_stores = {n.id for st in gr.node.body for n in ast.walk(st) if isinstance(n, ast.Name) and isinstance(n.ctx, ast.Store)}
  result_vars = sorted(v for v in result_vars & top_stores if v not in gr.params)
  ctx.floor("ORD-settings", "locals that reach a region style", len(result_vars), 7)
  for var in result_vars:
    shape.check_final_before_use(ctx, gr, var)
  # dependency order of the setting blocks: a block that reads a result local which a LATER block replaces - while that
  # later block needs nothing this one produces - has consumed a value that was not final (`position` anchoring with the
  # extent before `size` sets it)
  rset = set(result_vars)
  tops = [st for st in gr.node.body if isinstance(st, ast.If)]
  def reads(st):
    return {n.id for n in ast.walk(st) if isinstance(n, ast.Name) and isinstance(n.ctx, ast.Load) and n.id in rset}
  def writes(st):
    return {n.id for n in ast.walk(st) if isinstance(n, ast.Name) and isinstance(n.ctx, ast.Store) and n.id in rset}
  npairs = 0
  for a_i, sa in enumerate(tops):
    for sb in tops[a_i + 1:]:
      stale = reads(sa) & writes(sb)
      if not stale:
        continue
      npairs += 1
      independent = not (reads(sb) & writes(sa))
      ctx.check(not independent, "ORD-settings", f"{gr.qualname}|block at `{short(sa.test, 30)}` before block at `{short(sb.test, 30)}` ({', '.join(sorted(stale))})", ctx.where(gr.module, sb),
                "the later block builds on what the earlier one produced",
                f"the block guarded by `{short(sa.test, 40)}` reads {sorted(stale)}, which the later block guarded by `{short(sb.test, 40)}` replaces without needing anything from the earlier one: "
                "the earlier block worked with a value that was not final yet (the blocks are in the wrong order)")
  nt2 = shape.check_state_buffers(ctx, ix.func("ttconv.vtt.tokenizer:CueTextTokenizer"), buffers=("buffer",),
                                 continuation={("start_tag_annot", "annot_cref"): "buffer", ("annot_cref", "start_tag_annot"): "buffer"})
  ctx.floor("TYPESTATE-buffer", "state transitions sharing an accumulator", nt2, 2)
  lint.falsy_numeric_default(ctx, common.mods(ctx, ["ttconv.vtt.reader", "ttconv.vtt.tokenizer", "ttconv.utils"]))
  from ..rules import forbid
  def _no_ruby_open(test, pol):
    # INV-ruby (verified above): self.parent is a Ruby => ruby_rbc and ruby_rtc are set; so where both are None the cursor is not a Ruby
    from ..rules import match as _m
    parts = test.values if isinstance(test, ast.BoolOp) and isinstance(test.op, ast.Or) and not pol else ([test] if not pol else [])
    return any(_m.is_none_test(p_, lambda e: unparse(e) in ("self.ruby_rbc", "self.ruby_rtc")) is False for p_ in parts)
  nfr = forbid.check_forbidden_receivers(ctx, ctx.ix.cls("ttconv.vtt.reader:_TextCueParser"), implications={"Ruby": _no_ruby_open} if RUBY_INV_OK[0] else None) + forbid.check_forbidden_receivers(ctx, ctx.ix.cls("ttconv.srt.reader:_TextParser"))
  ctx.floor("RAISE-guard", "calls on the parsers' cursor of methods that always raise for a class the cursor can hold", nfr, 1)
  check_percentages(ctx)
  nfl = shape.check_state_flush(ctx, ix.func("ttconv.vtt.tokenizer:CueTextTokenizer"), continuation={("start_tag_annot", "annot_cref"), ("annot_cref", "start_tag_annot")})
  ctx.note(f"TYPESTATE-flush: {nfl} leaving branches of buffer-filling states")
  common.check_item_handlers(ctx, ["ttconv.vtt.reader", "ttconv.vtt.tokenizer", "ttconv.utils"])
  check_line_numbers(ctx)
  check_cref_terminator(ctx)
  check_timestamp_base(ctx)
  check_position_box(ctx)
  check_level_owners(ctx)
  common.check_numeric_fields(ctx, ["ttconv.vtt.reader", "ttconv.vtt.tokenizer", "ttconv.vtt.cue"])
  common.check_regex_probes(ctx, ["ttconv.vtt.reader"], floor=3)
  common.check_history_independence(ctx, ["ttconv.vtt.reader", "ttconv.vtt.tokenizer", "ttconv.utils"])
