"""C14 - snapshot acceleration and repeated use never change results or the source."""
from __future__ import annotations

import ast

from ..cfg import CFG
from ..core import AnalysisError, own_nodes, parent, short, unparse
from ..modelfacts import ModelFacts
from ..rules import trav, isdrules, live, pur, shape
from ..typing_lite import Typer
from . import common

EXPLANATION = (
  "Decides structural necessary conditions of C14 for every document, time and call interleaving: (PUR) in isd.py, the ISD filters "
  "and the SRT/VTT writers, no model mutator is applied to - and no mutating callee receives - a value whose provenance may be the "
  "caller's source document (provenance: source / ISD-owned / fresh clone, joined over call sites; constructors with an ISD as "
  "owner give ISD-owned objects); (CMP-prune) the cached per-region clone uses the same region association and pruning predicate as "
  "the uncached path; (DSP-copy) every copy_to variant copies every non-structural field of its class (timing, id, language, space, "
  "styles, animation steps; document parameters and initial values), so a clone renders like its original; (ORD-anim) a function that "
  "concludes from specified style values that a region paints nothing consults the region's animation steps before returning False; "
  "(STATE) snapshot code keeps no module- or class-level mutable state, the interval/activity caches are created per call."
  " (READ-COVER) as in C02 for the region-background predicate;"
  " (PUR, IMSC writer) the from_model functions of the IMSC writer never call a mutator on the source document or its elements;"
  " (STATE-alias / STATE-global) no function of the anchored modules mutates a module- or class-level container, rebinds module / class state or mutates a mutable default argument, so a result never depends on earlier calls;"
  " (DEP-frame, body) as in C01;"
  " (MEMO-key) as in C03;"
  ' (FIN-hull) as in C02: the content interval of a one-region document is the hull of its element intervals;'
  ' (CLONE-prune) the per-region clone leaves content out by region association only, never because of a specified style value that animation could change;'
  ' (LINT-l) no tuple / list / set display of the anchored modules lists the same computed component twice and no dict display repeats a key (a key or fingerprint built that way cannot tell apart what the missing component would have);'
  ' (STATE-share) no assignment stores a container field of one object (a field the package updates in place) into a field of another object without copying it, so an in-place update of one object never changes another;'
  " (ITEM-source) an object built once per item of an inner loop is filled only with values that derive from that item or do not vary with the loops, never with a value of the enclosing container standing where the item's own belongs;"
  ' (COVER-content) the test that decides which elements extend the cached content interval covers every leaf kind that snapshot generation treats as text (line breaks, text nodes), directly or through every kind that may contain it;'
  ' (LOOP-break) no loop over the items of a collection is left by a branch that does nothing but `break` on a test about the item (end-of-input sentinels, flags set in the loop body and searches whose variable is read afterwards excepted): an item that is to be skipped does not end the processing of the items after it;'
  " (ABSENT-style) the region-background predicate, interpreted on a region that specifies no style, does not conclude that the region paints nothing (the document's initial values are applied only in the snapshot);"
  + common.SHARED_CLAUSES['truthy']
  + " (FIN-cacheskip) ISD.from_model, interpreted with and without a SignificantTimes object (_process_element replaced by a recorder), processes the same regions for every offset inside a cached document's content interval - offsets after the last significant time included - and skips a document only outside that interval;"
  + " (COVER-regions) ISD.significant_times, interpreted with the per-region clone and the collector replaced by recorders, gives every region of the document - whatever it specifies, display=none included - its own single-region document and lets the collector visit that region and the body;"
  + " (PRUNE-sites) every `return None` of ISD._process_element is one of the grounds for leaving an element out of a snapshot (inactive, another region, display=none, the final emptiness rule) or anticipates the final rule, and every `return <element>` comes after the activity test and the region test: nothing inactive and nothing of another region is handed to the snapshot and to the cues;"
)
RULE_TEXT = "per mutator call / mutating call argument, per copy_to variant x field, per early return, per module-level store"
UNDECIDED = ["equality of cached and uncached results over all documents and times", "equality of repeated calls as values",
             "source mutation through functions outside the tabled entry points' call trees"]
TRUSTED = ["provenance abstraction of rules/pur.py", "entry-point role table: doc parameters of the public entry points are the source"]

ENTRY_ROLES = {
  ("ttconv.isd:ISD.from_model", "doc"): pur.SOURCE,
  ("ttconv.isd:ISD.significant_times", "doc"): pur.SOURCE,
  ("ttconv.isd:ISD.generate_isd_sequence", "doc"): pur.SOURCE,
  ("ttconv.isd:ISD.__init__", "doc"): pur.SOURCE,
  ("ttconv.isd:_clone_doc_with_one_region", "doc"): pur.SOURCE,
  ("ttconv.srt.writer:from_model", "doc"): pur.SOURCE,
  ("ttconv.vtt.writer:from_model", "doc"): pur.SOURCE,
}
MODS = ["ttconv.isd", "ttconv.srt.writer", "ttconv.vtt.writer", "ttconv.srt.style", "ttconv.vtt.style"] + common.ISD_FILTERS

COPY_REQUIRED = {
  "ttconv.model:ContentElement.copy_to": {"set_begin", "set_end", "set_id", "set_lang", "set_space", "set_style", "add_animation_step"},
  "ttconv.model:Br.copy_to": {"set_id", "set_lang", "set_space", "set_style", "add_animation_step"},
  "ttconv.model:Region.copy_to": {"set_begin", "set_end", "set_lang", "set_space", "set_style", "add_animation_step"},
  "ttconv.model:Text.copy_to": {"set_text"},
  "ttconv.model:Document.copy_to": {"set_active_area", "set_cell_resolution", "set_display_aspect_ratio", "set_lang", "set_px_resolution"},
  "ttconv.model:ContentDocument.copy_to": {"put_initial_value"},
}


def build_provenance(ctx, extra_roles=None):
  ix = ctx.ix
  fs = common.funcs(ctx, MODS)
  # the IMSC writer: every from_model* function of imsc/elements.py and imsc/writer.py receives source objects in its model_* parameters
  imsc_roles = {}
  for mn in ("ttconv.imsc.writer", "ttconv.imsc.elements"):
    for g in ix.funcs_in(mn):
      if g.name.startswith("from_model"):
        fs.append(g)
        for p_ in g.params:
          if p_.startswith("model_"):
            imsc_roles[(g.qualname, p_)] = pur.SOURCE
  if len(imsc_roles) < 15:
    raise AnalysisError(f"IMSC writer: only {len(imsc_roles)} from_model parameters found (anchor changed)")
  mf = ModelFacts(ix)
  ty = Typer(ix)
  roles = dict(ENTRY_ROLES)
  roles.update(imsc_roles)
  if extra_roles:
    roles.update(extra_roles)
  for k in roles:
    ix.func(k[0])
  prov = pur.Provenance(ix, fs, roles, mf=mf, ty=ty)
  ps = live.ParamSummaries(ix, mf, ty)
  return prov, ps, fs


def _anc(node, stop):
  cur = parent(node)
  while cur is not None and cur is not stop:
    yield cur
    cur = parent(cur)


def check_copy_to(ctx):
  ix = ctx.ix
  for q, need in COPY_REQUIRED.items():
    f = ix.func(q)
    ctx.unit(f.module)
    dest = f.params[1]
    calls = {c.func.attr for c in own_nodes(f.node) if isinstance(c, ast.Call) and isinstance(c.func, ast.Attribute) and unparse(c.func.value) == dest}
    if q.endswith("ContentDocument.copy_to"):
      sup = any(isinstance(c, ast.Call) and "super().copy_to" in unparse(c.func) for c in own_nodes(f.node))
      ctx.check(sup, "DSP-copy", f"{q}|calls Document.copy_to", ctx.where(f.module, f.node), "document parameters copied by the base class",
                "ContentDocument.copy_to no longer copies the document parameters (super().copy_to)")
    missing = need - calls
    ctx.check(not missing, "DSP-copy", f"{q}|copies {sorted(need)}", ctx.where(f.module, f.node), f"calls {sorted(calls)} on `{dest}`",
              f"{f.short} does not copy {sorted(missing)}: a per-region clone of the document loses that information and snapshots taken with "
              "the significant-times cache differ from those taken without it")
    # each of those calls copies everything: it runs unconditionally, or once per item of one loop over a view of the source -
    # not under a test on the item and not inside a second loop (which would copy only the items that pair up)
    for c in [c for c in own_nodes(f.node) if isinstance(c, ast.Call) and isinstance(c.func, ast.Attribute) and unparse(c.func.value) == dest and c.func.attr in need]:
      ctl = [a for a in _anc(c, f.node) if isinstance(a, (ast.For, ast.While, ast.If, ast.Try, ast.IfExp, ast.comprehension))]
      loops = [a for a in ctl if isinstance(a, (ast.For, ast.While))]
      loop_vars = {n_.id for l_ in loops if isinstance(l_, ast.For) for n_ in ast.walk(l_.target) if isinstance(n_, ast.Name)}
      filt = [a for a in ctl if isinstance(a, (ast.If, ast.IfExp)) and any(isinstance(n_, ast.Name) and n_.id in loop_vars for n_ in ast.walk(a.test))]
      key = f"{q}|{c.func.attr} is reached for every item"
      if len(loops) > 1 or filt:
        why = f"inside {len(loops)} nested loops" if len(loops) > 1 else f"under the test `{short(filt[0].test, 50)}` on the item"
        ctx.bad("DSP-copy", key, ctx.where(f.module, c), f"{f.short} calls `{short(c, 60)}` {why}: only some of the source's items are copied, so a per-region clone "
                "(significant times, cached snapshots) differs from the document")
      elif any(isinstance(a, (ast.If, ast.IfExp, ast.Try, ast.While)) for a in ctl):
        ctx.undecide("DSP-copy", f"{f.qualname}: `{short(c, 60)}` is conditional; whether everything is still copied is not decided")
      else:
        ctx.ok("DSP-copy", key, ctx.where(f.module, c), "unconditional" if not loops else f"once per item of `{short(loops[0].iter, 40)}`")
  # ContentDocument.copy_to interpreted on a sample document: every initial value arrives at the destination, also one that restates
  # the property's default (an explicit initial tts:position overrides tts:origin, an absent one does not)
  from ..consteval import NotConst as _NC, Raised as _R
  from ..rules.minieval import MiniEval, Node
  cd = ix.func("ttconv.model:ContentDocument.copy_to")
  sp_ = ix.cls("ttconv.style_properties:StyleProperties")
  props_ = [sp_.nested[k_] for k_ in ("Color", "Position", "Display", "FontSize", "Opacity") if k_ in sp_.nested]
  values_ = []
  for pc_ in props_:
    try:
      values_.append((pc_, MiniEval(ix).call(pc_.methods["make_initial_value"], [])))
    except (_NC, _R, KeyError):
      pass
  values_.append((sp_.nested.get("LineHeight"), "custom"))
  src_ = Node("ContentDocument", "src", (), initial_values=list(values_))
  dst_ = Node("ContentDocument", "dst", ())
  put_ = []
  methods_ = {"iter_initial_values": lambda n_: list(n_.fields.get("initial_values", [])), "put_initial_value": lambda n_, p_, v_: put_.append((getattr(p_, "name", p_), v_)),
              "get_active_area": lambda n_: None, "get_cell_resolution": lambda n_: None, "get_display_aspect_ratio": lambda n_: None, "get_lang": lambda n_: "", "get_px_resolution": lambda n_: None,
              "has_initial_value": lambda n_, p_: False, "get_initial_value": lambda n_, p_: None,
              "set_active_area": lambda n_, v_: None, "set_cell_resolution": lambda n_, v_: None, "set_display_aspect_ratio": lambda n_, v_: None, "set_lang": lambda n_, v_: None,
              "set_px_resolution": lambda n_, v_: None}
  key_ = f"{cd.qualname}|every initial value is copied"
  try:
    MiniEval(ix, node_methods=methods_, node_classes={"ContentDocument": ix.cls("ttconv.model:ContentDocument")}).call(cd, [src_, dst_])
    want_ = [(getattr(p_, "name", p_), v_) for p_, v_ in values_]
    ctx.check(put_ == want_, "DSP-copy", key_, ctx.where(cd.module, cd.node), f"interpreted on a sample document with {len(want_)} initial values (defaults restated included)",
              f"interpreted on a sample document whose initial values are {[k_ for k_, _v in want_]} (the first ones restating the TTML defaults), copy_to puts {[k_ for k_, _v in put_]} on the destination: "
              "a per-region clone loses initial values the document sets - an explicit initial tts:position, even 0% 0%, overrides tts:origin, so cached and uncached snapshots place regions differently")
  except _R:
    ctx.bad("DSP-copy", key_, ctx.where(cd.module, cd.node), "interpreted on a sample document, ContentDocument.copy_to raises")
  except _NC as ex_:
    ctx.undecide("DSP-copy", f"{cd.qualname}: not in the interpreted subset ({ex_})")
  # the clone uses copy_to for documents, regions and elements and restores region references
  cl = ix.func("ttconv.isd:_clone_doc_with_one_region")
  txt = unparse(cl.node)
  for what, pat in (("document parameters and initial values", "doc.copy_to(new_doc)"), ("the selected region", "region.copy_to(new_region)"),
                    ("each element", "element.copy_to(new_element)"), ("region references", "new_element.set_region(new_doc.get_region("),
                    ("the region registry", "new_doc.put_region(new_region)"), ("the body", "new_doc.set_body(new_body)")):
    ctx.check(pat in txt, "DSP-copy", f"{cl.qualname}|clones {what}", ctx.where(cl.module, cl.node), f"`{pat}...`", f"the per-region clone no longer copies {what} (`{pat}`)")


def check_region_background(ctx):
  ix = ctx.ix
  f = ix.func("ttconv.isd:ISD._region_always_has_background")
  ctx.unit(f.module)
  cfg = CFG(f.node)
  dom = cfg.dominators()
  falses = [r for r in own_nodes(f.node) if isinstance(r, ast.Return) and isinstance(r.value, ast.Constant) and r.value.value is False]
  if not falses:
    raise AnalysisError("_region_always_has_background has no `return False` (anchor changed)")
  anim = [n for n in cfg.nodes if n.ast is not None and n.kind in ("for", "test", "stmt") and "iter_animation_steps" in "".join(unparse(e) for e in _hdr(n))]
  ok = bool(anim) and all(any(a.id in dom.get(cfg.node_of(r), ()) for a in anim) for r in falses)
  ctx.check(ok, "ORD-anim", f"{f.qualname}|consults animation", ctx.where(f.module, f.node),
            "animation steps are consulted before any `return False`",
            "_region_always_has_background concludes from the specified styles alone that a region paints nothing: a region whose background is "
            "made visible by a set step is dropped from cached snapshots")
  trav.check_anim_cover(ctx, f, f.params[0])
  # a region that specifies nothing may still paint (the document's initial values apply to it in the snapshot): the predicate,
  # interpreted on a region without any specified style or animation step, must not conclude that it paints nothing
  from ..consteval import NotConst as _NC, Raised as _R
  from ..rules.minieval import MiniEval, Node
  bare = Node("Region", "bare_region", (), animation_steps=[])
  try:
    r_ = MiniEval(ix, node_methods={"get_style": lambda n_, p_: None, "has_style": lambda n_, p_: False}).call(f, [bare])
    ctx.check(r_ is True, "ABSENT-style", f"{f.qualname}|a region without specified styles is not concluded to paint nothing", ctx.where(f.module, f.node),
              "interpreted on a region with no specified style: True (the initial values of the document decide in the snapshot)",
              f"interpreted on a region that specifies no style and has no animation step, the predicate returns {r_!r}: it concludes from absent values (i.e. from the TTML defaults) "
              "that the region paints nothing, while the snapshot applies the document's initial values - a region painted through <initial> values is dropped from cached snapshots")
  except _R:
    ctx.bad("ABSENT-style", f"{f.qualname}|a region without specified styles is not concluded to paint nothing", ctx.where(f.module, f.node), "interpreted on a region with no specified style, the predicate raises")
  except _NC as ex_:
    ctx.undecide("ABSENT-style", f"{f.qualname}: not in the interpreted subset ({ex_})")
  # and the content interval uses it only to *extend* the interval
  st = ix.func("ttconv.isd:ISD.significant_times.<locals>.compute_sig_times")
  # (the call, on whatever name holds the element, inside the test that extends the content interval)
  uses_pred = any(isinstance(t_, ast.If) and "content_interval" in unparse(t_) and any(isinstance(c_, ast.Call) and unparse(c_.func).endswith("_region_always_has_background") for c_ in ast.walk(t_.test))
                  for t_ in own_nodes(st.node))
  ctx.check(uses_pred, "ORD-anim", f"{st.qualname}|regions with background extend the content interval",
            ctx.where(st.module, st.node), "used", "regions that always paint a background no longer extend the content interval")


def _hdr(node):
  from ..cfg import header_exprs
  return header_exprs(node)


def check_no_shared_state(ctx, fs):
  """STATE: no stores to module-level names or class attributes from snapshot / writer code,
  and the caches are fresh per call."""
  ix = ctx.ix
  n = 0
  for f in fs:
    for node in own_nodes(f.node):
      if isinstance(node, (ast.Global, ast.Nonlocal)) and isinstance(node, ast.Global):
        n += 1
        ctx.bad("STATE", f"{f.qualname}|global {','.join(node.names)}", ctx.where(f.module, node), "snapshot / writer code rebinds a module-level name: results may depend on earlier calls")
      if isinstance(node, ast.Attribute) and isinstance(node.ctx, ast.Store):
        r = ix.resolve(f.module, node.value, cls=f.cls, func=f) if isinstance(node.value, (ast.Name, ast.Attribute)) else None
        from ..core import ClassInfo, Module
        if isinstance(r, (ClassInfo, Module)) and not (isinstance(node.value, ast.Name) and node.value.id in ("self", "cls")):
          n += 1
          ctx.bad("STATE", f"{f.qualname}|{unparse(node)}", ctx.where(f.module, node), f"`{unparse(node)}` stores into class / module state from snapshot or writer code")
  fm = ix.func("ttconv.isd:ISD.from_model")
  fresh = any(isinstance(st, ast.Assign) and unparse(st.targets[0]) == "activity_cache" and unparse(st.value) == "{}" for st in own_nodes(fm.node))
  ctx.check(fresh, "STATE", f"{fm.qualname}|activity cache is created per call", ctx.where(fm.module, fm.node), "activity_cache = {} inside from_model",
            "the activity cache is no longer created per snapshot: activity at one time leaks into snapshots at other times")
  n += 1
  unc = any(isinstance(st, ast.Assign) and unparse(st.targets[0]) == "cache" and "_SingleRegionDocumentCache({}, doc, None)" in unparse(st.value) for st in own_nodes(fm.node))
  ctx.check(unc, "STATE", f"{fm.qualname}|uncached path uses an empty interval cache and no content interval", ctx.where(fm.module, fm.node),
            "(_SingleRegionDocumentCache({}, doc, None),) when no SignificantTimes is given", "the uncached path no longer starts from an empty interval cache")
  # writers' class-level filter tuple is never mutated
  return n + 1


def run(ctx):
  from ..rules import isdrules as _isdr5
  ctx.floor("PRUNE-sites", "return sites of _process_element", _isdr5.check_prune_sites(ctx, ctx.ix.func("ttconv.isd:ISD._process_element")), 6)
  from ..rules import isdrules as _isdr3
  ctx.floor("COVER-regions", "sample documents decided", _isdr3.check_region_docs_cover(ctx), 3)
  from ..rules import isdrules as _isdr2
  ctx.floor("FIN-cacheskip", "(cache, offset) samples decided", _isdr2.check_cached_snapshot_calls(ctx), 10)
  common.check_shared_helpers(ctx, truthy_modules=["ttconv.model", "ttconv.isd"])
  ix = ctx.ix
  prov, ps, fs = build_provenance(ctx)
  n = pur.check_purity(ctx, prov, fs, ps)
  ctx.floor("PUR", "mutator calls / mutating arguments with model provenance", n, 20)
  cc = ix.func("ttconv.isd:_clone_doc_with_one_region.<locals>._copy_content_element")
  pe = ix.func("ttconv.isd:ISD._process_element")
  isdrules.check_prune_predicate(ctx, pe, has_region_atom=True)
  isdrules.check_prune_predicate(ctx, cc, has_region_atom=False)
  check_copy_to(ctx)
  check_region_background(ctx)
  shape.check_content_interval_hull(ctx)
  isdrules.check_content_kinds(ctx)
  check_no_shared_state(ctx, fs)
  # positive fixture for the zero-expected PUR rule
  from ..selfcheck import pur_fixture_matches
  ctx.check(pur_fixture_matches(ix), "PUR", "fixture|mutation of a source element is detected", "ttverif/fixtures/source_mutation.py",
            "the rule still matches its positive fixture", "PUR no longer matches its positive fixture (rule broken)")
  shape.check_cache_keys(ctx, common.funcs(ctx, ["ttconv.isd"]))
  isdrules.check_body_frame(ctx)
  ncp = isdrules.check_clone_pruning(ctx)
  ctx.floor("CLONE-prune", "pruning guards of the per-region clone", ncp, 1)
  common.check_history_independence(ctx, common.CORE + common.WRITERS + common.ISD_FILTERS + ["ttconv.imsc.elements", "ttconv.imsc.attributes", "ttconv.imsc.style_properties"])
