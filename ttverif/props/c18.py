"""C18 - readers and writers fail only in documented ways, on any input (selected clauses)."""
from __future__ import annotations

import ast
import typing

from ..cfg import CFG
from ..core import AnalysisError, own_nodes, parent, short, unparse
from ..rules import shape, idx, defs, dsp, exc, lint, nul
from ..typing_lite import Typer
from . import c04, c11, common

EXPLANATION = (
  "Decides these clauses for arbitrary input: (DEF-local / DEF-init) in every reader, writer and ISD module no local is read before "
  "assignment on any path (UnboundLocalError) and no instance attribute read by other methods is left unassigned on a path through "
  "__init__ (AttributeError); (NUL) values from the hand-confirmed table of None sources - SccContext.get_caption_to_process(), items "
  "of _none_terminated(...), the WebVTT ruby container fields, regex match results, ContentDocument.get_body() in filters and in "
  "tt.py - are never dereferenced without a dominating None guard; (NUL-parent) text parsers never walk above the paragraph on an "
  "unmatched end tag; (NUL-arith) optional temporal quantities of the IMSC parsing context are guarded before arithmetic (TypeError); "
  "(EXC-attr) no KeyError / IndexError / ZeroDivisionError / TypeError from attribute parsing escapes the IMSC reader's extraction "
  "sites; (EXC-raise) the reader modules raise only documented input-error classes explicitly, the two tabled RuntimeErrors being "
  "unreachable (guarded call site / exhaustive state dispatch); (LINT-g) no attribute that is not a field of the namedtuple it is "
  "read from; (INV-nonempty) the invariant behind the single DEF exemption (SccCaptionLine._texts is never empty) holds."
  " (NUL-optfield) optional fields of the style value types are tested for None before being dereferenced;"
  " (IDX-lookahead) every subscript seq[i + k] has a dominating bound i + k < len(seq);"
  " (ORD-compute) style processors called outside isd.py run after the processors whose results they assert on;"
  " (STATE-alias / STATE-global) no function of the anchored modules mutates a module- or class-level container, rebinds module / class state or mutates a mutable default argument, so a result never depends on earlier calls;"
  " (RAISE-guard) as in C11;"
  " (EXC-ruby) ISD generation hands a pruned child list to push_children of element kinds that accept only complete sequences (two known findings);"
  " (NUL-field) as in C09;"
  " (TAB-compute-order) as in C13;"
  " (NUL, arithmetic) as in C11;"
  ' (FRESH) a model element pushed inside a loop is constructed inside that loop, so no iteration pushes an element that already has a parent; (INV-ruby) in the WebVTT cue parser the cursor is a Ruby only while both ruby containers are set; (NONZERO) frame and tick rates reaching the time-expression parser are positive;'
  ' (RAISE-interval) the cue serialisers refuse end <= begin, so add_isd passes an interval on only after a test on the rounded end and begin has excluded an interval that is empty at millisecond resolution (an interval shorter than the time-code resolution is skipped, never an exception);'
  ' (EXC-fallback) in every attribute extractor that reads one raw value, each path on which an error is logged returns what the extractor returns for an absent attribute: a malformed value is ignored, it never turns into another value;'
  " (PAIR-default-end) where the merging filters are not applied unconditionally the writer's finish() gives the default end to every cue that has none, not to the last list entry only;"
  ' (NUL-htmlattr) in subclasses of HTMLParser the value of an attribute, which is None for an attribute written without a value, is tested against None before it is passed on or dereferenced;'
  ' (LINT-k) no instance field declared with a numeric type is tested by truthiness (the number 0 would count as `not set`);'
  ' (LINT-l) no tuple / list / set display of the anchored modules lists the same computed component twice and no dict display repeats a key (a key or fingerprint built that way cannot tell apart what the missing component would have);'
  ' (STATE-share) no assignment stores a container field of one object (a field the package updates in place) into a field of another object without copying it, so an in-place update of one object never changes another;'
  " (ITEM-source) an object built once per item of an inner loop is filled only with values that derive from that item or do not vary with the loops, never with a value of the enclosing container standing where the item's own belongs;"
  " (FIN-blocks, shared with C09) the guards of process_tti_block that skip user-data and comment blocks return without touching the reader's state (a skipped block between the parts of an extension sequence leaves the accumulated text in place);"
  " (FIN-color, shared) the colour parser refuses a malformed <color> with the ValueError the readers catch, not through an operation that fails on the way (int(None), a missing group: TypeError / IndexError abort the read);"
  " (NUL-optarg) a field that a record of the package fills from an Optional constructor parameter (the annotation of a WebVTT start tag, ...) is passed to a function only under a None test, or to a function that neither dereferences that parameter unguarded nor rejects a non-instance with an exception;"
  " (NUL-arg) the result of a getter that returns None for a missing entry (get_style, get_initial_value, ...) is never passed straight into a function that dereferences that parameter without a None test, unless the key is drawn from the same container's own keys;"
  " (FIN-resume) the codec error handler of the STL reader, evaluated on the ranges the package's decoders report (including a two-byte range that ends past the buffer), returns the resume position error.end and does not fail;"
  ' (COND-supported) as in C07: under every option assignment the properties the cue writers read are kept by the whitelist built for that assignment, so no read yields an unexpected None;'
  ' (NUL-known) no local is dereferenced at a point where a dominating test has established that it is None and nothing has assigned it since (the test and the dereference would contradict each other);'
  ' (DIV-parsed) no count that the STL reader parses from the file or takes from its caller (number of TTI blocks, maximum number of rows) is used as a divisor unless it has been made positive after it was set, so a count of 0 cannot raise ZeroDivisionError;'
  ' (LOOP-break) no loop over the items of a collection is left by a branch that does nothing but `break` on a test about the item (end-of-input sentinels, flags set in the loop body and searches whose variable is read afterwards excepted): an item that is to be skipped does not end the processing of the items after it;'
  " (TERM-refs) merge_chained_styles takes a style reference out of the element's list before it follows it, so a cycle of style references ends instead of recursing until RecursionError;"
  + " (PRUNE-sites) every `return None` of ISD._process_element is one of the grounds for leaving an element out of a snapshot - inactive at the offset, another region, display=none, the final emptiness rule; any other site, evaluated over every element kind with and without children, drops only what the final rule would drop (never an element with children, never an empty part of a ruby container);"
  + " (DSP-units, shared with C03) _compute_length converts every relative unit and returns root-relative lengths (rh, rw) unchanged;"
  + " (LIVE-alias) a model method that iterates a list-backed view of `self` while adding to the same list of another parameter declared with its own class (copy_to) first returns when that parameter is the object itself: `x.copy_to(x)` ends;"
)
RULE_TEXT = "per function / class / dereference / extraction site / raise statement"
UNDECIDED = ["termination", "RecursionError (input-depth recursion exists in from_xml, dfs_iterator, _process_element)", "TypeError / AssertionError guarded by data-dependent invariants",
             "every returned document can be written under every configuration, as a whole (decided only for the enumerated exception sources: RAISE-interval, RAISE-guard, EXC-ruby, NUL-*, IDX-*)"]
TRUSTED = ["hand-confirmed table of None sources", "may-raise summaries of rules/exc.py"]

DOCUMENTED = {"ValueError", "UnicodeDecodeError", "NotImplementedError", "StopIteration"}
READER_RAISE_MODULES = ["ttconv.imsc.reader", "ttconv.imsc.elements", "ttconv.imsc.attributes", "ttconv.imsc.utils", "ttconv.utils",
                        "ttconv.scc.reader", "ttconv.scc.line", "ttconv.scc.context", "ttconv.scc.caption_paragraph", "ttconv.scc.caption_line", "ttconv.scc.caption_text",
                        "ttconv.scc.word", "ttconv.stl.reader", "ttconv.stl.datafile", "ttconv.stl.tf", "ttconv.stl.iso6937", "ttconv.srt.reader", "ttconv.vtt.reader", "ttconv.vtt.tokenizer"]
MODS = common.READERS + common.WRITERS + common.ISD_FILTERS + common.DOC_FILTERS + ["ttconv.isd", "ttconv.tt", "ttconv.config", "ttconv.time_code"]


def check_explicit_raises(ctx):
  ix = ctx.ix
  n = 0
  for mn in READER_RAISE_MODULES:
    m = ix.mod(mn)
    ctx.unit(m)
    for node in ast.walk(m.tree):
      if isinstance(node, ast.Raise) and node.exc is not None:
        name = unparse(node.exc.func if isinstance(node.exc, ast.Call) else node.exc).split(".")[-1]
        n += 1
        scope = ix.scope_name(m, node)
        key = f"{scope}|raise {name}"
        if name in DOCUMENTED:
          ctx.ok("EXC-raise", key, ctx.where(m, node), "documented input-error class")
        elif scope == "ttconv.scc.caption_paragraph:SccCaptionParagraph.roll_up" and name == "RuntimeError":
          ctx.check(rollup_guarded(ix), "EXC-raise", key + "|guarded call site", ctx.where(m, node),
                    "the only call of roll_up() in the reader is dominated by a test that the caption style is RollUp",
                    "SccCaptionParagraph.roll_up raises RuntimeError for non-roll-up captions and a call site in the reader no longer checks the style first")
        elif scope == "ttconv.vtt.tokenizer:CueTextTokenizer" and name == "RuntimeError":
          se = states_exhaustive(ix)
          if se is None:
            raise AnalysisError("CueTextTokenizer: the state enumeration compared against the state variable was not found")
          ctx.check(se, "EXC-raise", key + "|unreachable: every state has a branch", ctx.where(m, node),
                    "the final else of the state dispatch is unreachable: every _State member has its own branch",
                    "the tokenizer's `Bad state` RuntimeError is reachable: a _State member has no branch in the dispatch chain")
        else:
          ctx.bad("EXC-raise", key, ctx.where(m, node), f"reader code raises {name}, which is not a documented input-format error (ValueError, struct.error, UnicodeDecodeError)")
  return n


def rollup_guarded(ix) -> bool:
  f = ix.func("ttconv.scc.context:SccContext.process_control_code")
  cfg = CFG(f.node)
  dom = cfg.dominators()
  calls = [c for c in own_nodes(f.node) if isinstance(c, ast.Call) and isinstance(c.func, ast.Attribute) and c.func.attr == "roll_up"]
  others = [c for fn in ix.funcs.values() if fn.module.name.startswith("ttconv.scc") and fn is not f for c in own_nodes(fn.node)
            if isinstance(c, ast.Call) and isinstance(c.func, ast.Attribute) and c.func.attr == "roll_up" and fn.name != "roll_up"]
  if others or not calls:
    return False
  for c in calls:
    nid = cfg.stmt_node_containing(c)
    ok = False
    for g in dom.get(nid, ()):
      gn = cfg.nodes[g]
      if gn.kind == "test" and isinstance(gn.ast, ast.If) and "get_caption_style() is not SccCaptionStyle.RollUp" in unparse(gn.ast.test) and isinstance(gn.ast.body[-1], ast.Return):
        ok = True
    if not ok:
      return False
  return True


def states_exhaustive(ix) -> typing.Optional[bool]:
  """Every member of the tokenizer's state enumeration has its own `state is <member>` branch, and
  only members are ever assigned to the state variable (None: the enumeration was not found)."""
  from ..core import ClassInfo
  f = ix.func("ttconv.vtt.tokenizer:CueTextTokenizer")
  # the state variable: the local compared with `is` against members of one Enum class
  cands = {}
  for n in own_nodes(f.node):
    if isinstance(n, ast.Compare) and isinstance(n.left, ast.Name) and len(n.ops) == 1 and isinstance(n.ops[0], (ast.Is, ast.Eq)) and isinstance(n.comparators[0], ast.Attribute):
      cexpr = n.comparators[0].value
      r = ix.resolve(f.module, cexpr, func=f)
      if r is None and isinstance(cexpr, ast.Name):
        r = ix.classes.get(f"{f.qualname}.<locals>.{cexpr.id}")
      if isinstance(r, ClassInfo) and ix.is_enum(r):
        cands.setdefault((n.left.id, r.qualname), set()).add(n.comparators[0].attr)
  if not cands:
    return None
  (var, cq), tested = max(cands.items(), key=lambda kv: len(kv[1]))
  st = ix.classes[cq]
  members = {n for n, _ in ix.enum_members(st)}
  assigned = set()
  for n in own_nodes(f.node):
    if isinstance(n, ast.Assign) and unparse(n.targets[0]) == var:
      assigned.add(unparse(n.value).split(".")[-1])
  return members <= tested and assigned <= members


def check_texts_nonempty(ctx):
  """INV-nonempty: SccCaptionLine._texts always holds at least one element."""
  ix = ctx.ix
  c = ix.cls("ttconv.scc.caption_line:SccCaptionLine")
  ctx.unit(c.module)
  problems = []
  for m in c.methods.values():
    body = list(own_nodes(m.node))
    for i, st in enumerate(body):
      if isinstance(st, ast.Assign) and unparse(st.targets[0]) == "self._texts":
        if not (isinstance(st.value, ast.List) and len(st.value.elts) >= 1):
          problems.append(f"{m.name}: `{short(st)}` may assign an empty list")
      if isinstance(st, ast.Call) and isinstance(st.func, ast.Attribute) and unparse(st.func.value) == "self._texts" and st.func.attr in ("clear", "pop", "remove"):
        # must be followed (in the same function) by a non-empty reassignment
        later = [x for x in m.node.body if getattr(x, "lineno", 0) > st.lineno and isinstance(x, ast.Assign) and unparse(x.targets[0]) == "self._texts"
                 and isinstance(x.value, ast.List) and len(x.value.elts) >= 1]
        if not later:
          problems.append(f"{m.name}: `{short(st)}` can leave _texts empty")
  # no external mutation through get_texts()
  for f in ix.funcs.values():
    if f.cls is c:
      continue
    for n in own_nodes(f.node):
      if isinstance(n, ast.Call) and isinstance(n.func, ast.Attribute) and n.func.attr in ("clear", "pop", "remove") and "get_texts()" in unparse(n.func.value):
        problems.append(f"{f.short}: mutates the list returned by get_texts()")
      if isinstance(n, ast.Attribute) and n.attr == "_texts" and not (isinstance(n.value, ast.Name) and n.value.id == "self"):
        problems.append(f"{f.short}: touches _texts from outside the class")
  ctx.check(not problems, "INV-nonempty", "ttconv.scc.caption_line:SccCaptionLine|_texts is never empty", ctx.where(c.module, c.node),
            "every assignment is a non-empty list display; clear() is followed by re-seeding; no outside mutation",
            "the invariant behind the DEF exemption for get_leading_spaces no longer holds: " + "; ".join(problems))


from . import c16  # noqa: E402


def check_filtered_bulk_insert(ctx):
  """EXC-ruby: ISD generation prunes children (inactive at t, display=none, other region) and then
  hands what is left to push_children.  For element kinds whose push_children accepts only a closed
  set of child sequences (Ruby: rb rt | rb rp rt rp | rbc rtc [rtc]; Rtc: [rp] rt* [rp]) a pruned
  list is rejected with ValueError, which nothing catches: the snapshot fails."""
  ix = ctx.ix
  pe = ix.func("ttconv.isd:ISD._process_element")
  ctx.unit(pe.module)
  calls = [c for c in own_nodes(pe.node) if isinstance(c, ast.Call) and isinstance(c.func, ast.Attribute) and c.func.attr == "push_children" and len(c.args) == 1 and isinstance(c.args[0], ast.Name)]
  if not calls:
    raise AnalysisError("_process_element: no push_children(<list>) call found")
  call = calls[0]
  lst = call.args[0].id
  filtered = any(isinstance(a, ast.Call) and isinstance(a.func, ast.Attribute) and a.func.attr == "append" and unparse(a.func.value) == lst and
                 any(isinstance(p_, ast.If) for p_ in _ancestors(a, pe.node)) for a in own_nodes(pe.node))
  caught = any(isinstance(t, ast.Try) and any(x is call for x in ast.walk(t)) for t in own_nodes(pe.node))
  base = ix.cls("ttconv.model:ContentElement")
  strict = []
  for c in ix.all_subclasses(base):
    m = c.methods.get("push_children")
    if m is not None and any(isinstance(r, ast.Raise) and r.exc is not None and "ValueError" in unparse(r.exc) for r in own_nodes(m.node)):
      strict.append(c)
  ctx.floor("EXC-ruby", "element kinds whose push_children validates the child sequence", len(strict), 1)
  for c in sorted(strict, key=lambda k: k.name):
    ctx.check(not filtered or caught, "EXC-ruby", f"{pe.qualname}|{short(call, 60)}|{c.name}", ctx.where(pe.module, call), "the child list is complete (or the rejection is handled)",
              f"`{short(call, 60)}` receives the children that survived pruning; {c.name}.push_children raises ValueError unless they form one of its complete sequences, and no handler encloses the call: "
              f"a {c.name.lower()} with a part that is inactive at the snapshot time (or that never had one, e.g. WebVTT <ruby> without <rt>) makes ISD generation fail")


def _ancestors(n, stop):
  from ..core import parent as _p
  out = []
  n = _p(n)
  while n is not None and n is not stop:
    out.append(n)
    n = _p(n)
  return out


def optional_field_names(ix):
  """Names of dataclass fields of the model / style value types that may hold None (annotated
  Optional or defaulting to None) in every dataclass that declares a field of that name."""
  opt, non = {}, set()
  for c in ix.classes.values():
    if not c.is_dataclass or c.module.name not in ("ttconv.style_properties", "ttconv.model"):
      continue
    for name, ann in c.ann.items():
      d = c.assigns.get(name)
      is_opt = "Optional" in unparse(ann) or (isinstance(d, ast.Constant) and d.value is None)
      if is_opt:
        opt.setdefault(name, []).append(c.short)
      else:
        non.add(name)
  return {n: f"`{n}` is an optional field of {', '.join(cs)}" for n, cs in opt.items() if n not in non and n not in ("begin", "end")}


def check_optional_fields(ctx):
  """NUL-optfield: optional fields of the style value types are tested for None before they are
  dereferenced, in the IMSC reader / writer, the snapshot generator, the filters and the writers."""
  ix = ctx.ix
  names = optional_field_names(ix)
  if len(names) < 3:
    raise AnalysisError(f"optional dataclass fields: only {sorted(names)} found (anchor changed)")
  src = nul.NullSources(attr_suffixes=names)
  fs = common.funcs(ctx, ["ttconv.imsc.style_properties", "ttconv.imsc.elements", "ttconv.isd", "ttconv.filters.doc.lcd"] + common.WRITERS + common.ISD_FILTERS)
  n = nul.check_sources(ctx, fs, src, rule="NUL-optfield")
  ctx.floor("NUL-optfield", "dereferences of optional value-type fields", n, 2)


def run(ctx):
  common.check_shared_helpers(ctx, color=True)
  from . import c09 as _c09b
  _c09b.check_block_filter(ctx)
  from ..rules import live as _live_a
  ctx.floor("LIVE-alias", "loops of the model that read a view of self and fill another object of the same class", _live_a.check_live_self_alias(ctx, ctx.ix.funcs_in("ttconv.model")), 3)
  from . import c03 as _c03u
  _c03u.check_units(ctx)
  from ..rules import isdrules as _isdr
  ctx.floor("PRUNE-sites", "`return None` sites of _process_element", _isdr.check_prune_sites(ctx, ctx.ix.func("ttconv.isd:ISD._process_element")), 4)
  ix = ctx.ix
  ty = Typer(ix)
  fs = common.scope_funcs(ctx, MODS)
  nf = defs.check_def_local(ctx, fs, rule="DEF-local", exempt=common.DEF_EXEMPT)
  ctx.floor("DEF-local", "functions with locals in reader / writer / ISD modules", nf, 120)
  mods = common.scope(ctx, MODS)
  classes = [c for c in ix.classes.values() if c.module in mods]
  nd = defs.check_def_init(ctx, classes, rule="DEF-init")
  ctx.floor("DEF-init", "instance attributes read outside __init__", nd, 60)
  check_texts_nonempty(ctx)
  # NUL
  nul.IMPLICATIONS.clear()
  RUBY_INV_OK = c11.RUBY_INV_OK
  RUBY_INV_OK[0] = bool(c11.check_ruby_invariant(ctx))
  if RUBY_INV_OK[0]:
    nul.IMPLICATIONS.append((c11.RUBY_GUARD, True, {"self.ruby_rbc", "self.ruby_rtc"}))
  src = nul.NullSources(call_names={"get_caption_to_process", "vtt_timestamp_to_secs"}, regex_methods=True, iter_funcs={"_none_terminated"}, fields={"ruby_rbc", "ruby_rtc"},
                        getter_paths={"get_caption_to_process()"})
  reader_fs = common.funcs(ctx, common.READERS)
  nt = nul.check_sources(ctx, reader_fs, src, rule="NUL")
  src2 = nul.NullSources(getter_paths={"get_body()"})
  nt += nul.check_sources(ctx, common.funcs(ctx, common.DOC_FILTERS + common.ISD_FILTERS + ["ttconv.tt"]), src2, rule="NUL")
  ctx.floor("NUL", "dereferences of tabled nullable values", nt, 25)
  np_ = nul.check_parent_walk(ctx, [ix.cls("ttconv.srt.reader:_TextParser"), ix.cls("ttconv.vtt.reader:_TextCueParser")])
  ctx.floor("NUL-parent", "parent() stores in the text parsers", np_, 2)
  c04.check_optional_arithmetic(ctx, common.funcs(ctx, ["ttconv.imsc.elements"]))
  check_optional_fields(ctx)
  # the paragraph under construction does not exist before the first block that opens a subtitle
  ncp = nul.check_sources(ctx, [m_ for m_ in ctx.ix.cls("ttconv.stl.datafile:DataFile").methods.values() if m_.name != "__init__"], nul.NullSources(fields={"cur_p_element"}), rule="NUL-field")
  ctx.floor("NUL-field", "dereferences of DataFile.cur_p_element", ncp, 3)
  check_filtered_bulk_insert(ctx)
  nfp = shape.check_fresh_per_iteration(ctx, common.funcs(ctx, common.ISD_FILTERS + common.READERS + ["ttconv.filters.doc.lcd", "ttconv.isd"]))
  ctx.floor("FRESH", "elements pushed inside loops", nfp, 5)
  nl = idx.check_lookahead(ctx, common.funcs(ctx, common.READERS + common.WRITERS + ['ttconv.isd']))
  ctx.note(f'IDX-lookahead: {nl} look-ahead subscripts in reader / writer modules')
  # EXC
  r = exc.Raises(ix, ty)
  c04.check_nonzero_rates(ctx, r)
  n = c04.check_exceptions(ctx, r, common.funcs(ctx, ["ttconv.imsc.elements", "ttconv.imsc.reader"]), allowed_classes={"ValueError"}, rule="EXC-attr")
  ctx.floor("EXC-attr", "attribute extraction call sites in the IMSC reader", n, 18)
  check_explicit_raises(ctx)
  ng = lint.namedtuple_attrs(ctx, common.mods(ctx, ["ttconv.stl.datafile"]), rule="LINT-g")
  ctx.floor("LINT-g", "namedtuple attribute accesses", ng, 30)
  # inside isd.py the same dependencies are honoured by the order of _ORDERED_STYLE_PROPS (AssertionError otherwise)
  from ..rules import isdrules as _isd
  _isd.check_compute_order(ctx)
  # style processors called outside isd.py assert on already-computed dependencies (AssertionError / AttributeError otherwise)
  nco = c16.check_compute_order(ctx, list(ix.funcs.values()))
  ctx.floor("ORD-compute", "external StyleProcessors.*.compute call sites", nco, 1)
  from ..rules import forbid
  def _no_ruby_open(test, pol):
    # INV-ruby (verified above): self.parent is a Ruby => ruby_rbc and ruby_rtc are set; so where both are None the cursor is not a Ruby
    from ..rules import match as _m
    parts = test.values if isinstance(test, ast.BoolOp) and isinstance(test.op, ast.Or) and not pol else ([test] if not pol else [])
    return any(_m.is_none_test(p_, lambda e: unparse(e) in ("self.ruby_rbc", "self.ruby_rtc")) is False for p_ in parts)
  nfr = forbid.check_forbidden_receivers(ctx, ctx.ix.cls("ttconv.vtt.reader:_TextCueParser"), implications={"Ruby": _no_ruby_open} if RUBY_INV_OK[0] else None) + forbid.check_forbidden_receivers(ctx, ctx.ix.cls("ttconv.srt.reader:_TextParser"))
  ctx.floor("RAISE-guard", "calls on the parsers' cursor of methods that always raise for a class the cursor can hold", nfr, 1)
  for prod, ref in (("ttconv.srt.writer:SrtContext.add_isd", "ttconv.srt.paragraph:SrtParagraph.to_string"), ("ttconv.vtt.writer:VttContext.add_isd", "ttconv.vtt.cue:VttCue.to_string")):
    shape.check_interval_resolution(ctx, ctx.ix.func(prod), ctx.ix.func(ref))
  common.check_item_handlers(ctx, common.READERS)
  from . import c09 as _c09, c07 as _c07
  _c09.check_codec_error_handlers(ctx)
  _c07.check_supported_per_option(ctx)
  from ..rules import fallback
  nfb = fallback.check_error_fallbacks(ctx, common.funcs(ctx, ["ttconv.imsc.attributes"]), exempt={
    "ttconv.imsc.attributes:ExtentAttribute.extract": "non-integer pixel dimensions are reported and then truncated: the value is used, not ignored (lenient by design, one message)"})
  ctx.floor("EXC-fallback", "attribute extractors with an error path", nfb, 6)
  for q_ in ("ttconv.srt.writer:SrtContext", "ttconv.vtt.writer:VttContext"):
    shape.check_default_end(ctx, ctx.ix.cls(q_))
  nha = nul.check_html_attr_values(ctx, list(ctx.ix.classes.values()))
  ctx.floor("NUL-htmlattr", "uses of HTML attribute values", nha, 1)
  common.check_numeric_fields(ctx, list(ctx.ix.modules))
  common.check_nullable_args(ctx, MODS)
  common.check_known_none(ctx, MODS)
  common.check_optional_field_args(ctx, MODS)
  common.check_parsed_divisors(ctx, ["ttconv.stl.reader", "ttconv.stl.datafile", "ttconv.stl.tf"], floor=3)
  c04.check_reference_recursion(ctx)
  common.check_history_independence(ctx, MODS)
