"""C15 - the canonical model stays a well-formed tree under any sequence of API calls."""
from __future__ import annotations

import ast

from ..cfg import CFG
from ..core import AnalysisError, own_nodes, short, unparse
from ..modelfacts import ModelFacts
from ..oracles import content_model as oracle
from ..rules import shape, atomic, dsp, lint
from . import common

EXPLANATION = (
  "Decides the per-operation preconditions of the inductive well-formedness argument, for every call: (TAB-content) the child kinds "
  "each push_child/push_children guard admits equal the content model of doc/data_model.md (ruby patterns included; ISD regions: one "
  "body); (OWN-links) the five private link fields are written only by ContentElement.__init__/push_child/remove_child, so every "
  "override must go through them; (GUARD) in ContentElement.push_child raising guards for 'child already has a parent', 'different "
  "document' and 'child is an ancestor/root of the receiver' dominate every link write (one parent, one document, acyclic), "
  "remove_child rejects non-children before unlinking, set_region / put_region / set_body validate before storing; (ORD-atomic) in "
  "every single-element mutator no path performs a state write and can afterwards still be rejected (own raise or raising callee); "
  "(VAL-store) every store into the style / initial-value maps is dominated by the property's validate(), animation steps are "
  "type-checked and self-validating, and no validator is vacuous (LINT-b) ; (REG) no discarded lazy iterator (LINT-a), and every "
  "function that deletes or replaces a registry entry re-points or clears the elements that reference it."
  " (STATE-alias / STATE-global) no function of the anchored modules mutates a module- or class-level container, rebinds module / class state or mutates a mutable default argument, so a result never depends on earlier calls;"
  " (INDEP) the first-child and last-child link updates are independent statements;"
  ' (PAIR-detach) every removal clears parent, sibling links and the document of the removed child; (REG-repoint) put_region re-points the elements that used the replaced region;'
  " (FIN-validate) every property's validate(), evaluated on SpecialValues.none and SpecialValues.normal, accepts the special value exactly when it is that property's TTML value;"
  ' (TRAV-rec) every function that walks the tree by calling itself on the children reaches that child loop on every path (the three walkers that prune by design are tabled with the rules that decide their pruning);'
  ' (LINT-l) no tuple / list / set display of the anchored modules lists the same computed component twice and no dict display repeats a key (a key or fingerprint built that way cannot tell apart what the missing component would have);'
  ' (STATE-share) no assignment stores a container field of one object (a field the package updates in place) into a field of another object without copying it, so an in-place update of one object never changes another;'
  " (ITEM-source) an object built once per item of an inner loop is filled only with values that derive from that item or do not vary with the loops, never with a value of the enclosing container standing where the item's own belongs;"
  ' (FIN-links) push_child and remove_child, interpreted on explicit little heaps (1..4 children, removal at every position, one more push), leave the first / last / previous / next / parent fields describing one consistent doubly linked list and the removed child fully detached;'
  ' (LOOP-break) no loop over the items of a collection is left by a branch that does nothing but `break` on a test about the item (end-of-input sentinels, flags set in the loop body and searches whose variable is read afterwards excepted): an item that is to be skipped does not end the processing of the items after it;'
  + common.SHARED_CLAUSES['validators'] + common.SHARED_CLAUSES['truthy']
  + common.SHARED_CLAUSES['rubykids']
  + " (LIVE-alias) a model method that iterates a list-backed view of `self` while adding to the same list of another parameter declared with its own class (copy_to) first returns when that parameter is the object itself: `x.copy_to(x)` ends;"
)
RULE_TEXT = "one instance per element kind, link-field store, guard, mutator, store site, registry writer"
UNDECIDED = ["arbitrary call histories as such (the rules are the per-operation preconditions, not the induction)",
             "sibling-link agreement beyond the interpreted scenarios (lists of up to 4 children)", "copy_to and push_children as multi-element operations (not atomic by design)"]
TRUSTED = ["content-model oracle written from doc/data_model.md", "class-hierarchy resolution of self/super calls"]

LINK_OWNERS = {"ttconv.model:ContentElement.__init__", "ttconv.model:ContentElement.push_child", "ttconv.model:ContentElement.remove_child"}
MULTI_ELEMENT = {"push_children", "remove_children", "copy_to", "__init__", "__post_init__", "__iter__", "__len__", "__getitem__", "dfs_iterator"}
ATOMIC_EXEMPT = {
  ("ttconv.model:ContentDocument.put_region", "e.set_region(region)"):
    "re-pointing after a replacement: the new region was registered by the preceding statement and e is in this document's body, so "
    "neither rejection of set_region (no document / unknown region id) can fire",
}


def check_content_model(ctx):
  ix = ctx.ix
  cm = dsp.ContentModel(ix)
  ctx.unit(ix.mod("ttconv.model"))
  kinds = {c.name for c in cm.kinds}
  ctx.floor("TAB-content", "model element kinds", len(kinds), 13)
  for name in sorted(kinds | set(oracle.ALLOWED_CHILDREN)):
    c = ix.classes.get(f"ttconv.model:{name}")
    where = ctx.where(c.module, c.node) if c else "src/main/python/ttconv/model.py"
    if name not in oracle.ALLOWED_CHILDREN:
      ctx.note(f"element kind {name} is not in the content-model oracle (new kind?)")
      continue
    if c is None:
      ctx.bad("TAB-content", f"ttconv.model:{name}|kind", where, f"element kind {name} of the content model has no class in model.py")
      continue
    got = cm.allowed.get(name, set())
    want = oracle.ALLOWED_CHILDREN[name]
    extra, missing = got - want, want - got
    ctx.check(not extra and not missing, "TAB-content", f"ttconv.model:{name}|children", where,
              f"children admitted: {sorted(got)}",
              f"{name} admits {sorted(got)} but the content model says {sorted(want)}"
              + (f"; wrongly admitted: {sorted(extra)}" if extra else "") + (f"; wrongly rejected: {sorted(missing)}" if missing else ""))
    if not want:
      pc = ix.lookup_method(c, "push_child")
      ok = pc is not None and pc.cls is not ix.cls("ttconv.model:ContentElement") and dsp.ContentModel._always_raises(pc)
      ctx.check(ok, "TAB-content", f"ttconv.model:{name}|no-children", where, "push_child always raises",
                f"{name} must not have children but its push_child does not unconditionally raise")
  # ruby patterns
  pats = {tuple(p) for p in cm.patterns.get("Ruby", [])}
  ctx.check(pats <= oracle.RUBY_GRAMMAR and oracle.RUBY_REQUIRED <= pats, "TAB-content", "ttconv.model:Ruby|patterns",
            ctx.where(ix.cls("ttconv.model:Ruby").module, ix.cls("ttconv.model:Ruby").node),
            f"ruby child patterns {sorted(pats)}",
            f"Ruby.push_children accepts {sorted(pats)}; outside the grammar: {sorted(pats - oracle.RUBY_GRAMMAR)}; "
            f"required forms missing: {sorted(oracle.RUBY_REQUIRED - pats)}")
  # Ruby / Rtc single-child entry points are closed or pattern-checked
  ruby = ix.cls("ttconv.model:Ruby")
  ctx.check(dsp.ContentModel._always_raises(ruby.methods["push_child"]) and dsp.ContentModel._always_raises(ruby.methods["remove_child"]),
            "TAB-content", "ttconv.model:Ruby|single-child-api-closed", ctx.where(ruby.module, ruby.node),
            "Ruby.push_child / remove_child always raise (children only change as a whole pattern)",
            "Ruby.push_child / remove_child no longer raise unconditionally: the ruby pattern can be broken one child at a time")
  # Ruby.push_children refuses when children exist
  pcs = ruby.methods["push_children"]
  first = [s for s in pcs.node.body if not (isinstance(s, ast.Expr) and isinstance(s.value, ast.Constant))][0]
  ctx.check(isinstance(first, ast.If) and "has_children" in unparse(first.test) and isinstance(first.body[-1], ast.Raise),
            "TAB-content", "ttconv.model:Ruby.push_children|refuses-when-nonempty", ctx.where(pcs.module, pcs.node),
            "push_children raises if the ruby already has children", "Ruby.push_children no longer refuses a second pattern on top of existing children")
  # Rtc pattern: Rt* | Rp Rt* Rp  (push_child state machine + push_children)
  rtc = ix.cls("ttconv.model:Rtc")
  pc = rtc.methods["push_child"]
  tested = dsp.isinstance_classes(ix, pc)
  ctx.check({"ttconv.model:Rt", "ttconv.model:Rp"} <= set(tested), "TAB-content", "ttconv.model:Rtc.push_child|state-machine",
            ctx.where(pc.module, pc.node), "Rtc.push_child distinguishes Rt and Rp positions",
            "Rtc.push_child no longer distinguishes Rt / Rp positions")
  # ISD region
  isd_region = ix.cls("ttconv.isd:ISD.Region")
  ctx.unit(isd_region.module)
  pc = isd_region.methods.get("push_child")
  tested = {ix.classes[q].name for q in dsp.isinstance_classes(ix, pc)} if pc else set()
  has_one = pc is not None and any(isinstance(n, ast.If) and "has_children" in unparse(n.test) and isinstance(n.body[-1], ast.Raise) for n in own_nodes(pc.node))
  ctx.check(tested == oracle.ISD_REGION_CHILDREN and has_one, "TAB-content", "ttconv.isd:ISD.Region|children",
            ctx.where(isd_region.module, isd_region.node), "ISD regions admit exactly one Body",
            f"ISD.Region.push_child admits {sorted(tested)} (at-most-one guard: {has_one}); must admit exactly one Body")


def check_guards(ctx, mf):
  ix = ctx.ix
  push = ix.func("ttconv.model:ContentElement.push_child")
  child = push.params[1]

  def is_link_write(st):
    if isinstance(st, ast.Assign):
      return any(isinstance(t, ast.Attribute) and t.attr in mf.link_fields for t in st.targets)
    return False

  atomic.guards_before_first_write(
    ctx, push,
    {
      "already-has-parent": lambda t: f"{child}.parent()" in unparse(t) or f"{child}._parent" in unparse(t),
      "same-document": lambda t: "get_doc()" in unparse(t) and child in unparse(t) and "self" in unparse(t),
      "not-an-ancestor": lambda t: child in unparse(t) and ("root()" in unparse(t) or "ancestor" in unparse(t) or "dfs_iterator" in unparse(t)),
    },
    "GUARD", is_link_write,
    {"already-has-parent": "the child already has a parent (one parent per element)",
     "same-document": "the child belongs to a different document",
     "not-an-ancestor": "the child is the root / an ancestor of the receiver (acyclicity): push_child(d1, d2); push_child(d2, d1) builds a cycle"})
  rem = ix.func("ttconv.model:ContentElement.remove_child")
  atomic.guards_before_first_write(
    ctx, rem, {"is-a-child": lambda t: "not in" in unparse(t) and rem.params[1] in unparse(t)}, "GUARD", is_link_write,
    {"is-a-child": "the element is not a child of the receiver"})

  def is_field_write(name):
    return lambda st: isinstance(st, ast.Assign) and any(unparse(t).startswith(f"self.{name}") for t in st.targets)

  atomic.guards_before_first_write(
    ctx, ix.func("ttconv.model:ContentElement.set_region"),
    {"attached": lambda t: "get_doc()" in unparse(t) and "None" in unparse(t), "region-known": _is_registered_region_test},
    "GUARD", is_field_write("_region"),
    {"attached": "the element is not attached to a document",
     "region-known": "the region object is not the one registered under its id in the element's document (a test of the id alone lets a region of another document through)"})
  atomic.guards_before_first_write(
    ctx, ix.func("ttconv.model:ContentDocument.put_region"),
    {"is-region": lambda t: "isinstance" in unparse(t) and "Region" in unparse(t), "same-document": lambda t: "get_doc()" in unparse(t)},
    "GUARD", is_field_write("_regions"),
    {"is-region": "the argument is not a Region", "same-document": "the region belongs to another document"})
  atomic.guards_before_first_write(
    ctx, ix.func("ttconv.model:ContentDocument.set_body"),
    {"is-body": lambda t: "isinstance" in unparse(t) and "Body" in unparse(t), "is-root": lambda t: "parent()" in unparse(t),
     "same-document": lambda t: "get_doc()" in unparse(t)},
    "GUARD", is_field_write("_body"),
    {"is-body": "the argument is not a Body", "is-root": "the body has a parent", "same-document": "the body belongs to another document"})
  # set_doc: attaching requires the whole subtree to be detached; detaching requires a root
  sd = ix.func("ttconv.model:ContentElement.set_doc")
  atomic.guards_before_first_write(
    ctx, sd,
    {"detach-only-roots": lambda t: "parent()" in unparse(t), "attach-only-detached": lambda t: "is_attached()" in unparse(t)},
    "GUARD", lambda st: isinstance(st, ast.Assign) and any(isinstance(t, ast.Attribute) and t.attr in ("_doc", "_region") for t in st.targets),
    {"detach-only-roots": "an element that still has a parent is being detached", "attach-only-detached": "part of the subtree already belongs to a document"})


def check_detach(ctx):
  """PAIR-detach: in set_doc, every element whose owning document is rewritten also has its
  region reference cleared when the document is None (the whole subtree is detached, so no
  element may keep a reference to a region of the old document)."""
  ix = ctx.ix
  f = ix.func("ttconv.model:ContentElement.set_doc")
  ctx.unit(f.module)
  # by interpretation on a sample subtree (every element owned by a document and referencing one of its regions)
  from ..consteval import NotConst as _NC, Raised as _R, Sym as _Sym
  from ..rules.minieval import MiniEval, Node
  D, R = _Sym("document"), _Sym("region")
  def mk(kind, name, ch=()):
    ch = list(ch)
    return Node(kind, name, ch, _doc=D, _region=R, _first_child=ch[0] if ch else None, _last_child=ch[-1] if ch else None)
  tree = mk("Div", "div", [mk("P", "p1", [mk("Span", "s1", [mk("Span", "s2"), mk("Br", "br")])]), mk("P", "p2")])
  leaf = mk("P", "childless_p")
  me = MiniEval(ix, node_methods={"is_attached": lambda n_: n_.fields.get("_doc") is not None, "get_doc": lambda n_: n_.fields.get("_doc")})
  try:
    me.call(f, [tree, None])
    me.call(f, [leaf, None])
    left = [n_.name for t_ in (tree, leaf) for n_ in t_.walk() if n_.fields.get("_doc") is not None or n_.fields.get("_region") is not None]
    ctx.check(not left, "PAIR-detach", f"{f.qualname}|detaching clears the region reference of every element of the subtree", ctx.where(f.module, f.node),
              "interpreted on a sample subtree: set_doc(None) leaves no element with a document or a region reference",
              f"interpreted on a sample subtree, set_doc(None) leaves {left} with a document or region reference: a detached descendant keeps referencing a region of its "
              "former document and carries it into the next document")
    return
  except _R:
    ctx.bad("PAIR-detach", f"{f.qualname}|detaching clears the region reference of every element of the subtree", ctx.where(f.module, f.node), "interpreted on a sample subtree, set_doc(None) raises")
    return
  except _NC:
    pass
  docp = f.params[1]
  ok = False
  why = "no loop over the subtree writes _doc"
  for lp in own_nodes(f.node):
    if isinstance(lp, ast.For) and ("dfs_iterator()" in unparse(lp.iter)):
      v = unparse(lp.target)
      writes_doc = any(isinstance(st, ast.Assign) and unparse(st.targets[0]) == f"{v}._doc" for st in own_nodes(lp))
      if not writes_doc:
        continue
      clears = False
      for st in own_nodes(lp):
        if isinstance(st, ast.If) and unparse(st.test).replace(" ", "") == f"{docp}isNone":
          for x in own_nodes(st):
            if (isinstance(x, ast.Assign) and unparse(x.targets[0]) == f"{v}._region" and unparse(x.value) == "None") or \
               (isinstance(x, ast.Call) and unparse(x.func) == f"{v}.set_region" and x.args and unparse(x.args[0]) == "None"):
              clears = True
      ok = clears
      why = "the loop that rewrites _doc clears _region of the same element when doc is None" if clears else \
        f"the loop rewrites `{v}._doc` but does not clear `{v}._region` when `{docp} is None`"
  # the recursive formulation (self + children through set_doc) is accepted as well
  if not ok:
    txt = unparse(f.node)
    if "self.set_region(None)" in txt and ".set_doc(doc)" in txt and "for " in txt:
      ok, why = True, "recursive: each element clears its own region and recurses into its children"
  ctx.check(ok, "PAIR-detach", f"{f.qualname}|detaching clears the region reference of every element of the subtree", ctx.where(f.module, f.node), why,
            f"set_doc(None): {why}; a detached descendant keeps referencing a region of its former document and carries it into the next document")


def check_value_stores(ctx, mf):
  """Stores into _styles / _initial_values are dominated by <prop>.validate(value); _sets by an
  isinstance(step, DiscreteAnimationStep) guard; the step validates itself."""
  ix = ctx.ix
  n = 0
  for c in mf.classes:
    for m in c.methods.values():
      cfg = None
      for st in own_nodes(m.node):
        fld = None
        if isinstance(st, ast.Assign):
          for t in st.targets:
            if isinstance(t, ast.Subscript) and unparse(t.value) in ("self._styles", "self._initial_values"):
              fld = unparse(t.value)
        elif isinstance(st, ast.Expr) and isinstance(st.value, ast.Call) and isinstance(st.value.func, ast.Attribute) \
            and st.value.func.attr in ("append", "insert", "extend") and unparse(st.value.func.value) == "self._sets":
          fld = "self._sets"
        if fld is None:
          continue
        n += 1
        ctx.unit(m.module)
        cfg = cfg or CFG(m.node)
        dom = cfg.dominators()
        nid = cfg.node_of(st)
        need = "validate(" if fld != "self._sets" else "isinstance("
        ok = False
        for g in dom.get(nid, ()):
          gn = cfg.nodes[g]
          if gn.kind == "test" and isinstance(gn.ast, ast.If) and need in unparse(gn.ast.test) and gn.ast.body and isinstance(gn.ast.body[-1], ast.Raise):
            ok = True
        ctx.check(ok, "VAL-store", f"{m.qualname}|{short(st, 60)}", ctx.where(m.module, st),
                  f"store into {fld} is dominated by a raising `{need}...)` guard",
                  f"`{short(st, 70)}` stores into {fld} without a dominating `{need}...)` guard that raises: invalid values can enter the model")
  ctx.floor("VAL-store", "stores into the style / initial-value / animation containers", n, 3)
  step = ix.cls("ttconv.model:DiscreteAnimationStep")
  pi = step.methods.get("__post_init__")
  ok = pi is not None and any(isinstance(x, ast.If) and "validate(" in unparse(x.test) and isinstance(x.body[-1], ast.Raise) for x in own_nodes(pi.node))
  ctx.check(ok and "frozen=True" in unparse(step.node.decorator_list[0]) if step.node.decorator_list else False, "VAL-store",
            "ttconv.model:DiscreteAnimationStep|self-validating", ctx.where(step.module, step.node),
            "frozen dataclass whose __post_init__ rejects values its property does not validate",
            "DiscreteAnimationStep no longer validates its value in __post_init__ (or is no longer frozen)")


def check_registry(ctx, mf):
  """Every function that deletes or overwrites an entry of _regions must also clear / re-point
  the referencing elements (a loop over the body's dfs_iterator calling set_region)."""
  ix = ctx.ix
  cd = ix.cls("ttconv.model:ContentDocument")
  n = 0
  for m in cd.methods.values():
    writes = [st for st in own_nodes(m.node)
              if (isinstance(st, ast.Delete) and any(isinstance(t, ast.Subscript) and unparse(t.value) == "self._regions" for t in st.targets))
              or (isinstance(st, ast.Assign) and any(isinstance(t, ast.Subscript) and unparse(t.value) == "self._regions" for t in st.targets))]
    if not writes:
      continue
    n += 1
    ctx.unit(m.module)
    def walks_and_repoints(g, depth=0):
      for loop in own_nodes(g.node):
        if isinstance(loop, ast.For) and "dfs_iterator()" in unparse(loop.iter):
          if any(isinstance(x, ast.Call) and isinstance(x.func, ast.Attribute) and x.func.attr == "set_region" for x in own_nodes(loop)):
            return True
      if depth < 2:
        # a helper of the module that receives the body
        for c in own_nodes(g.node):
          if isinstance(c, ast.Call) and any("_body" in unparse(a) or "get_body()" in unparse(a) or (isinstance(a, ast.Name) and a.id == "body") for a in c.args):
            r = ix.resolve(g.module, c.func, cls=g.cls, func=g)
            if hasattr(r, "node") and hasattr(r, "params") and r.module is g.module and r is not g and walks_and_repoints(r, depth + 1):
              return True
      return False
    repoint = walks_and_repoints(m)
    ctx.check(repoint, "REG-repoint", f"{m.qualname}|registry-write", ctx.where(m.module, writes[0]),
              "the function walks the body and re-points / clears region references",
              f"{m.short} changes the region registry (`{short(writes[0], 60)}`) without walking the body to re-point or clear the "
              "elements that reference the affected region: they keep pointing at an unregistered region object")
  ctx.floor("REG-repoint", "functions writing the region registry", n, 2)


def check_special_values(ctx):
  """FIN-validate: the special values `none` / `normal` are values of exactly the properties whose TTML
  initial value they are (lineHeight: normal; rubyReserve, textEmphasis, textOutline, textShadow: none).
  Every property's validate() is evaluated on both; a validator that lets a special value of another
  property through stores a value the rest of the code (style computation, writers) has no case for."""
  from ..consteval import ConstEval, FuncEval, NotConst, Raised
  from ..oracles import ttml_styles as oracle
  ix = ctx.ix
  m = ix.mod("ttconv.style_properties")
  ctx.unit(m)
  ce, fe = ConstEval(ix), FuncEval(ix)
  sv = ix.cls("ttconv.style_properties:SpecialValues")
  members = {n: ce.ev(m, ast.parse(f"SpecialValues.{n}", mode="eval").body) for n, _ in ix.enum_members(sv)}
  sp = ix.cls("ttconv.style_properties:StyleProperties")
  n = 0
  for name, c in sorted(sp.nested.items()):
    v = c.methods.get("validate")
    if v is None or name not in oracle.STYLES:
      continue
    for sname, val in sorted(members.items()):
      try:
        got = fe.call(v, {v.params[-1]: val})
      except (NotConst, Raised):
        continue
      if not isinstance(got, bool):
        continue
      n += 1
      want = oracle.STYLES[name][1] == f"special:{sname}"
      ctx.check(got == want, "FIN-validate", f"{v.qualname}|SpecialValues.{sname}", ctx.where(v.module, v.node), f"{'accepted' if got else 'rejected'}",
                f"{name}.validate {'accepts' if got else 'rejects'} SpecialValues.{sname}, but `{sname}` {'is not' if got else 'is'} a value of tts:{name[0].lower() + name[1:]} "
                f"(TTML initial value: {oracle.STYLES[name][1]})")
  ctx.floor("FIN-validate", "validate() x special value evaluations", n, 40)


def check_link_scenarios(ctx):
  """FIN-links: push_child and remove_child, interpreted by rules/heapeval.py on explicit little heaps: after
  pushing 1..4 children, removing the child at every position and pushing one more, the parent's first / last
  fields and the children's previous / next / parent fields describe one consistent doubly linked list with
  the expected members in the expected order, and the removed child is fully detached."""
  from ..consteval import NotConst, Raised
  from ..rules.heapeval import HeapEval, Obj
  ix = ctx.ix
  ce = ix.cls("ttconv.model:ContentElement")
  ctx.unit(ce.module)
  role = {}
  for acc in ("first_child", "last_child", "next_sibling", "previous_sibling", "parent"):
    m = ce.methods.get(acc)
    rets = [r for r in own_nodes(m.node) if isinstance(r, ast.Return)] if m is not None else []
    if len(rets) != 1 or not (isinstance(rets[0].value, ast.Attribute) and unparse(rets[0].value.value) == m.params[0]):
      raise AnalysisError(f"ContentElement.{acc}: expected a single `return self.<field>` (the accessor names the link field)")
    role[acc] = rets[0].value.attr
  push, rem = ce.methods["push_child"], ce.methods["remove_child"]

  def state(p, want):
    """None when the heap is the list `want` under p, else a description of the first disagreement."""
    F, L, N, P, U = (role[k] for k in ("first_child", "last_child", "next_sibling", "previous_sibling", "parent"))
    fwd, cur = [], p.fields.get(F)
    while cur is not None and len(fwd) < 10:
      fwd.append(cur)
      cur = cur.fields.get(N)
    if [x.name for x in fwd] != [x.name for x in want]:
      return f"children by {F}/{N} are {fwd}, expected {want}"
    bwd, cur = [], p.fields.get(L)
    while cur is not None and len(bwd) < 10:
      bwd.append(cur)
      cur = cur.fields.get(P)
    if [x.name for x in reversed(bwd)] != [x.name for x in want]:
      return f"children by {L}/{P} are {list(reversed(bwd))}, expected {want}"
    for x in want:
      if x.fields.get(U) is not p:
        return f"{x}.{U} is {x.fields.get(U)}, expected {p}"
    return None
  problems = []
  n = 0
  try:
    for size in range(1, 5):
      for victim in range(size):
        n += 1
        he = HeapEval(ix, ce)
        p = Obj("parent")
        kids = [Obj(f"c{i}") for i in range(size)]
        tag = f"{size} children, remove #{victim}"
        try:
          for i, k in enumerate(kids):
            he.call(push, p, [k])
            bad = state(p, kids[:i + 1])
            if bad:
              problems.append(f"after push #{i}: {bad}")
              break
          else:
            v = kids[victim]
            he.call(rem, p, [v])
            rest = [k for k in kids if k is not v]
            bad = state(p, rest)
            if bad:
              problems.append(f"{tag}: {bad}")
            elif any(v.fields.get(role[k_]) is not None for k_ in ("next_sibling", "previous_sibling", "parent")):
              problems.append(f"{tag}: the removed child keeps a link")
            else:
              d = Obj("d")
              he.call(push, p, [d])
              bad = state(p, rest + [d])
              if bad:
                problems.append(f"{tag}, then push: {bad}")
        except Raised:
          problems.append(f"{tag}: the operation raises")
  except NotConst as e:
    raise AnalysisError(f"push_child / remove_child leave the subset the heap evaluator interprets ({e})")
  ctx.check(not problems, "FIN-links", f"{ce.qualname}|push_child / remove_child keep one consistent doubly linked child list", ctx.where(ce.module, rem.node),
            f"{n} scenarios (1..4 children x removal position, then one more push) interpreted on explicit heaps",
            "the link updates do not keep the child list consistent: " + "; ".join(problems[:2]) + f" ({len(problems)} of {n} scenarios fail)")
  ctx.extra["finite_domain_evaluations"] = ctx.extra.get("finite_domain_evaluations", 0) + n


def _is_registered_region_test(t) -> bool:
  """The test compares, by identity, the region handed in with what the document has registered (get_region(<id>) /
  the registry itself): only that establishes `the region referenced is the region registered under that id`."""
  for c in ast.walk(t):
    if isinstance(c, ast.Compare) and len(c.ops) == 1 and isinstance(c.ops[0], (ast.Is, ast.IsNot, ast.Eq, ast.NotEq)):
      for a, b in ((c.left, c.comparators[0]), (c.comparators[0], c.left)):
        looked_up = any(isinstance(x, ast.Call) and isinstance(x.func, ast.Attribute) and x.func.attr in ("get_region", "get") for x in ast.walk(a)) or \
          any(isinstance(x, ast.Subscript) and "_regions" in unparse(x.value) for x in ast.walk(a))
        if looked_up and isinstance(b, ast.Name):
          return True
  return False


def run(ctx):
  from ..rules import live as _live_a
  ctx.floor("LIVE-alias", "loops of the model that read a view of self and fill another object of the same class", _live_a.check_live_self_alias(ctx, ctx.ix.funcs_in("ttconv.model")), 3)
  common.check_shared_helpers(ctx, validators=True, truthy_modules=["ttconv.model", "ttconv.isd"], rubykids=True)
  ix = ctx.ix
  mf = ModelFacts(ix)
  shared = {"mf": mf}
  check_content_model(ctx)
  mods_all = list(ix.modules.values()) if ctx.tier == "thorough" else common.mods(ctx, ["ttconv.model", "ttconv.isd"])
  n = atomic.check_link_owners(ctx, mods_all, LINK_OWNERS, mf=mf)
  ctx.floor("OWN-links", "stores into private link fields", n, 15)
  check_guards(ctx, mf)
  # single-element mutators of every model / document class
  methods = []
  for c in mf.classes:
    for m in c.methods.values():
      if m.name in MULTI_ELEMENT or m.is_static:
        continue
      methods.append(m)
  eff = atomic.Effects(ix, mf)
  shared["eff"] = eff
  # apply reasoned exemptions by making the exempt call site invisible to the effect analysis
  orig = eff.resolve_callee

  def resolve(f, call):
    if (f.qualname, unparse(call)) in ATOMIC_EXEMPT:
      ctx.ok("ORD-atomic", f"{f.qualname}|{unparse(call)}|exempt", ctx.where(f.module, call), "reasoned exception: " + ATOMIC_EXEMPT[(f.qualname, unparse(call))])
      return None
    return orig(f, call)
  eff.resolve_callee = resolve
  na = atomic.check_raise_before_write(ctx, methods, shared=shared)
  ctx.floor("ORD-atomic", "state-writing single-element mutators", na, 25)
  check_value_stores(ctx, mf)
  check_registry(ctx, mf)
  check_detach(ctx)
  ms = common.mods(ctx, ["ttconv.model", "ttconv.style_properties"]) if ctx.tier == "quick" else list(ix.modules.values())
  lint.lazy_discarded(ctx, ms, rule="LINT-a")
  nq = lint.vacuous_quantifier(ctx, ms, rule="LINT-b")
  # (no floor on the number of all() / any() sites: a loop in their place is just as good; the rule keeps a positive fixture instead)
  from ..selfcheck import lint_b_fixture_matches
  ctx.check(lint_b_fixture_matches(), "LINT-b", "fixture|vacuous-quantifier-is-detected", "ttverif/fixtures/lint_b.py",
            "the rule still matches its positive fixture", "LINT-b no longer matches its positive fixture (rule broken)")
  # positive fixture for the zero-expected LINT-a rule
  from ..selfcheck import lint_a_fixture_matches
  ctx.check(lint_a_fixture_matches(), "LINT-a", "fixture|discarded-map-is-detected", "ttverif/fixtures/lint_a.py",
            "the rule still matches its positive fixture", "LINT-a no longer matches its positive fixture (rule broken)")
  ni = 0
  for q in ("ttconv.model:ContentElement.remove_child", "ttconv.model:ContentElement.push_child", "ttconv.model:ContentElement.set_doc"):
    ni += shape.check_independent_updates(ctx, ctx.ix.func(q))
  ctx.note(f"INDEP: {ni} if/elif chains in the link-update methods")
  check_special_values(ctx)
  check_link_scenarios(ctx)
  common.check_walkers(ctx, ["ttconv.model"])
  common.check_history_independence(ctx, ["ttconv.model", "ttconv.style_properties"])
