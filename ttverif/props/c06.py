"""C06 - SRT/WebVTT cues carry exactly the visible text over exactly its intervals."""
from __future__ import annotations

import ast

from fractions import Fraction

from ..consteval import ConstEval, FuncEval, NotConst, Raised, _CallingConstEval
from ..core import parent, AnalysisError, own_nodes, short, unparse
from ..rules import match, dsp, live, shape
from . import common

EXPLANATION = (
  "Decides structural necessary conditions of C06 for every input: (LIVE) no ISD filter or cue writer mutates a child list / style "
  "map while iterating a live view of it, so no division, paragraph or span is skipped while regions and paragraphs are merged; "
  "(DSP-flatten) every element kind the content model allows under a p has a branch in both text flatteners (annotation kinds "
  "rt/rtc/rp are a tabled exclusion), so no kind of text container is silently dropped; (SEQ-end) in both writers the end of cue i is "
  "the time of sequence entry i+1 and None for the last entry, evaluated over an abstract 3-entry sequence; (FIN-hull) the cached content interval of a document is the hull of its content intervals (unbounded absorbing), so no "
  "interval with visible text is skipped; (ORD-docorder) paragraphs are collected in one in-order pass; (FIN-default) an open last "
  "cue ends exactly 10 s after its own begin and blank open cues are removed. Decides these clauses, not the text/ordering behaviour."
  " (STATE-alias / STATE-global) no function of the anchored modules mutates a module- or class-level container, rebinds module / class state or mutates a mutable default argument, so a result never depends on earlier calls;"
  ' (RAISE-interval) a cue is created only for an interval that is not empty at millisecond resolution: the test compares the rounded end and begin, so an interval that rounds to distinct time codes is kept and one that does not is skipped;'
  ' (FRESH) the merging filters construct the container they push once per region, never one object shared by all regions;'
  " (PAIR-default-end) where the merging filters are not applied unconditionally the writer's finish() gives the default end to every cue that has none, not to the last list entry only;"
  ' (LINT-k) no instance field declared with a numeric type is tested by truthiness (the number 0 would count as `not set`);'
  ' (TRAV-rec) every function that walks the tree by calling itself on the children reaches that child loop on every path (the three walkers that prune by design are tabled with the rules that decide their pruning);'
  ' (LINT-l) no tuple / list / set display of the anchored modules lists the same computed component twice and no dict display repeats a key (a key or fingerprint built that way cannot tell apart what the missing component would have);'
  ' (STATE-share) no assignment stores a container field of one object (a field the package updates in place) into a field of another object without copying it, so an in-place update of one object never changes another;'
  " (ITEM-source) an object built once per item of an inner loop is filled only with values that derive from that item or do not vary with the loops, never with a value of the enclosing container standing where the item's own belongs;"
  ' (LOOP-break) no loop over the items of a collection is left by a branch that does nothing but `break` on a test about the item (end-of-input sentinels, flags set in the loop body and searches whose variable is read afterwards excepted): an item that is to be skipped does not end the processing of the items after it;'
  ' (TAINT) as in C07: model text reaches the WebVTT payload through an escaping function that replaces & < > exactly once each, so the cue carries the visible text and nothing else;'
  + " (FIN-merge) the paragraph merger, interpreted on sample snapshots (divs nested at several depths, a nested div between paragraphs, one or several regions), leaves one paragraph per region holding the spans of all its paragraphs in document order with one line break between consecutive paragraphs;"
  + " (DEP-round, shared with C12) ClockTime.from_seconds, which prints every cue time, derives hours, minutes, seconds and milliseconds from one value rounded once to the millisecond;"
  + " (PRUNE-sites) every `return None` of ISD._process_element is one of the grounds for leaving an element out of a snapshot (inactive, another region, display=none, the final emptiness rule) or anticipates the final rule, and every `return <element>` comes after the activity test and the region test: nothing inactive and nothing of another region is handed to the snapshot and to the cues;"
  + " (FIN-eol) SrtParagraph and VttCue, interpreted on sequences of append_text() calls followed by normalize_eol(), leave a payload without an empty line and without line breaks at its ends, whether the line breaks arrive one per call or several inside one text node;"
)
RULE_TEXT = ("one rule instance per (function, live loop), per (flattener, element kind), per writer for SEQ-end / FIN-default; "
             "distinct = distinct (rule, construct) pairs")
UNDECIDED = ["text order and line-break placement", "white-space results", "millisecond rounding values",
             "that region/paragraph merging preserves document order (value/structure dependent)"]
TRUSTED = ["content model extracted from model.py push_child guards"]

FLATTENERS = ["ttconv.srt.writer:SrtContext.append_element", "ttconv.vtt.writer:VttContext.process_inline_element"]
ANNOTATION_KINDS = {
  "Rt": "ruby text annotation: not part of the base text flow that SRT/WebVTT cues carry",
  "Rtc": "ruby text container (annotation)",
  "Rp": "ruby parenthesis fallback (annotation delimiter)",
}
LIVE_MODULES = common.ISD_FILTERS + ["ttconv.srt.writer", "ttconv.vtt.writer", "ttconv.srt.paragraph", "ttconv.vtt.cue"]


def check_flatteners(ctx):
  ix = ctx.ix
  cm = dsp.ContentModel(ix)
  under_p = cm.reachable_under("P")
  ctx.floor("DSP-flatten", "element kinds reachable under p", len(under_p), 9)
  for q in FLATTENERS:
    f = ix.func(q)
    ctx.unit(f.module)
    subject = f.params[1] if len(f.params) > 1 else None
    tested = dsp.isinstance_classes(ix, f, subject)
    ctx.floor("DSP-flatten", f"isinstance branches in {f.short}", len(tested), 3)
    for name in sorted(under_p):
      kcls = ix.cls(f"ttconv.model:{name}")
      key = f"{q}|{name}"
      if name in ANNOTATION_KINDS:
        ctx.ok("DSP-flatten", key + "|excluded", ctx.where(f.module, f.node), "tabled exclusion: " + ANNOTATION_KINDS[name])
        continue
      h = dsp.handled(ix, kcls, tested)
      ctx.check(h is not None, "DSP-flatten", key, ctx.where(f.module, f.node),
                f"handled by isinstance branch on {h}",
                f"{f.short} has no isinstance branch for model.{name}, which the content model allows under a p: "
                f"its text never reaches the cue payload (e.g. ruby base text is dropped)")


def seq_end_by_interpretation(ctx, q):
  """The statements of a writer's from_model between the computation of the ISD sequence and finish(), interpreted
  (rules/minieval.py) with a four-entry sample sequence whose second entry lies less than a millisecond after the first: the cue
  context receives add_isd(isd_k, t_k, t_k+1) for every k in order, the last one with an open end.  Decides the clause for any
  loop form (enumerate with look-ahead, zip with a shifted list, an index loop).  Returns False when the statements leave the
  interpreted subset."""
  from ..rules.minieval import MiniEval, Node
  ix = ctx.ix
  f = ix.func(q)
  seq_st = None
  for st in f.node.body:
    if isinstance(st, ast.Assign) and len(st.targets) == 1 and isinstance(st.targets[0], ast.Name) and "generate_isd_sequence" in unparse(st.value):
      seq_st = st
  if seq_st is None:
    return False
  seq = seq_st.targets[0].id
  i0 = f.node.body.index(seq_st)
  stmts = []
  for st in f.node.body[i0 + 1:]:
    if any(isinstance(c, ast.Call) and isinstance(c.func, ast.Attribute) and c.func.attr == "finish" for c in ast.walk(st)) or isinstance(st, ast.Return):
      break
    stmts.append(st)
  adds = [c for st in stmts for c in ast.walk(st) if isinstance(c, ast.Call) and isinstance(c.func, ast.Attribute) and c.func.attr == "add_isd"]
  if not adds or not isinstance(adds[0].func.value, ast.Name):
    return False
  ctxvar = adds[0].func.value.id
  times = [Fraction(0), Fraction(1, 2500), Fraction(1), Fraction(5, 2)]
  isds = [Node("ISD", f"isd{k}") for k in range(len(times))]
  sample = [(t, d) for t, d in zip(times, isds)]
  cue_ctx = Node("Ctx", "cue_context", filters=[])
  me = MiniEval(ix, opaque_calls={"progress_callback", "_isd_progress"})
  env = {seq: sample, ctxvar: cue_ctx}
  for p_ in f.params:
    env.setdefault(p_, None)
  try:
    me.block(stmts, env, f, 0)
  except NotConst:
    return False
  except Raised:
    ctx.bad("SEQ-end", f"{q}|add_isd-interval", ctx.where(f.module, adds[0]), "interpreted on a sample sequence, the loop that feeds add_isd raises")
    return True
  ctx.unit(f.module)
  got = [(a[0].name if isinstance(a[0], Node) else a[0], a[1], a[2]) for (n_, m_, a) in me.trace if n_ is cue_ctx and m_ == "add_isd" and len(a) == 3]
  want = [(isds[k].name, times[k], times[k + 1] if k + 1 < len(times) else None) for k in range(len(times))]
  ctx.check(got == want, "SEQ-end", f"{q}|add_isd-interval", ctx.where(f.module, adds[0]),
            f"interpreted on a sample sequence: add_isd(isd_k, t_k, t_k+1) for k = 0..{len(times) - 1}, the last end open",
            f"interpreted on a sample sequence of {len(times)} entries, the writer calls add_isd with {[(g[0], str(g[1]), str(g[2])) for g in got]}; expected every entry once, in order, each ending at the "
            f"time of the next entry and the last one open: cues would overlap, leave gaps, end early or be missing")
  return True


def check_seq_end(ctx):
  """end of cue i = begin of entry i+1; last one open."""
  ix = ctx.ix
  ce = ConstEval(ix, symbolic_ok=False)
  for q in ("ttconv.srt.writer:from_model", "ttconv.vtt.writer:from_model"):
    if seq_end_by_interpretation(ctx, q):
      continue
    f = ix.func(q)
    ctx.unit(f.module)
    found = False
    # pairwise iteration zip(s, s[1:]) visits len(s) - 1 pairs: the last entry of the sequence is never processed
    for loop in own_nodes(f.node):
      if isinstance(loop, ast.For) and any(isinstance(n, ast.Call) and isinstance(n.func, ast.Attribute) and n.func.attr == "add_isd" for n in own_nodes(loop)):
        for z in ast.walk(loop.iter):
          if isinstance(z, ast.Call) and unparse(z.func) == "zip" and len(z.args) == 2 and isinstance(z.args[1], ast.Subscript) and isinstance(z.args[1].slice, ast.Slice) \
              and unparse(z.args[1].value) == unparse(z.args[0]) and z.args[1].slice.lower is not None and z.args[1].slice.upper is None:
            found = True
            ctx.bad("SEQ-end", f"{q}|add_isd-interval", ctx.where(f.module, loop),
                    f"`{short(loop.iter, 60)}` pairs every entry with its successor and therefore never visits the last entry of the sequence: the content of the last snapshot is not written")
    for loop in own_nodes(f.node):
      if not (isinstance(loop, ast.For) and isinstance(loop.iter, ast.Call) and isinstance(loop.iter.func, ast.Name)
              and loop.iter.func.id == "enumerate" and loop.iter.args and isinstance(loop.iter.args[0], ast.Name)):
        continue
      seq = loop.iter.args[0].id
      tgt = loop.target
      if not (isinstance(tgt, ast.Tuple) and len(tgt.elts) == 2 and isinstance(tgt.elts[0], ast.Name)):
        continue
      idx = tgt.elts[0].id
      pair = tgt.elts[1]
      if not (isinstance(pair, ast.Tuple) and len(pair.elts) == 2 and all(isinstance(e, ast.Name) for e in pair.elts)):
        continue
      begin_v, isd_v = pair.elts[0].id, pair.elts[1].id
      # the add_isd call and the definition of its end argument
      add_calls = [n for n in own_nodes(loop) if isinstance(n, ast.Call) and isinstance(n.func, ast.Attribute) and n.func.attr == "add_isd"]
      if not add_calls:
        continue
      found = True
      call = add_calls[0]
      key = f"{q}|add_isd-interval"
      if len(call.args) != 3 or unparse(call.args[0]) != isd_v or unparse(call.args[1]) != begin_v:
        ctx.bad("SEQ-end", key, ctx.where(f.module, call),
                f"add_isd must receive (isd, begin-of-this-entry, end); found {short(call)}")
        continue
      end_arg = call.args[2]
      # the statements of the loop body the end argument depends on (backward slice over top-level statements)
      call_st = call
      while getattr(call_st, "_parent", None) is not loop:
        call_st = getattr(call_st, "_parent", None)
        if call_st is None:
          raise AnalysisError(f"{q}: add_isd call is not inside the loop body (unrecognised idiom)")
      before = loop.body[:loop.body.index(call_st)]
      needed = {n.id for n in ast.walk(end_arg) if isinstance(n, ast.Name)}
      sliced = []
      changed = True
      while changed:
        changed = False
        for st in before:
          if st in sliced:
            continue
          stores = {n.id for n in ast.walk(st) if isinstance(n, ast.Name) and isinstance(n.ctx, ast.Store)}
          if stores & needed:
            sliced.append(st)
            needed |= {n.id for n in ast.walk(st) if isinstance(n, ast.Name)}
            changed = True
      sliced.sort(key=before.index)
      end_def = ast.Module(body=sliced, type_ignores=[]) if sliced else end_arg
      # evaluation over a 4-entry sequence whose second entry is less than a millisecond after the first
      times = [Fraction(0), Fraction(1, 2500), Fraction(1), Fraction(5, 2)]
      seqval = [(t, f"isd{k}") for k, t in enumerate(times)]
      ok = True
      detail = []
      fe = FuncEval(ix)
      cce = _CallingConstEval(ix, fe, f, 0)
      for i in range(len(seqval)):
        env = {seq: seqval, idx: i, begin_v: seqval[i][0], isd_v: seqval[i][1]}
        try:
          fe._block(cce, f, sliced, env)
          v = cce.ev(f.module, end_arg, None, env)
        except NotConst as e:
          raise AnalysisError(f"{q}: the computation of the cue end `{short(end_def, 80)}` leaves the evaluable subset ({e})")
        want = seqval[i + 1][0] if i + 1 < len(seqval) else None
        detail.append(f"i={i}: {v}")
        if v != want:
          ok = False
      ctx.check(ok, "SEQ-end", key, ctx.where(f.module, call),
                f"end of cue i is the time of entry i+1, None for the last ({'; '.join(detail)})",
                f"`{short(end_def)}` does not give the begin time of the next sequence entry (None for the last): {'; '.join(detail)}; "
                "cues would overlap, leave gaps or end early")
    if not found:
      raise AnalysisError(f"{q}: loop `for i, (begin, isd) in enumerate(<sequence>)` with an add_isd call not found")


def check_finish(ctx):
  ix = ctx.ix
  ce = ConstEval(ix, symbolic_ok=False)
  for q in ("ttconv.srt.writer:SrtContext.finish", "ttconv.vtt.writer:VttContext.finish"):
    f = ix.func(q)
    ctx.unit(f.module)
    set_ends = [n for n in own_nodes(f.node) if isinstance(n, ast.Call) and isinstance(n.func, ast.Attribute) and n.func.attr == "set_end"]
    pops = [n for n in own_nodes(f.node) if isinstance(n, ast.Call) and isinstance(n.func, ast.Attribute) and n.func.attr in ("pop", "remove")]
    key = f"{q}|default-end"
    if len(set_ends) != 1:
      raise AnalysisError(f"{q}: expected exactly one set_end call, found {len(set_ends)}")
    call = set_ends[0]
    arg = call.args[0] if call.args else None
    ok = False
    why = f"`{short(call)}`"
    if isinstance(arg, ast.BinOp) and isinstance(arg.op, ast.Add):
      sides = [arg.left, arg.right]
      consts = [ce.try_ev(f.module, s, default=None) for s in sides]
      for s, c, other in ((sides[0], consts[0], sides[1]), (sides[1], consts[1], sides[0])):
        if isinstance(c, (int, float)) and not isinstance(c, bool):
          recv = unparse(call.func.value)
          ok = (c == 10) and ("get_begin()" in unparse(other)) and unparse(other).startswith(recv)
          why = f"constant {c}, base `{short(other)}`"
    ctx.check(ok, "FIN-default", key, ctx.where(f.module, call),
              f"open last cue ends 10 s after its own begin ({why})",
              f"the default end of an open last cue must be its own begin + 10 s; found {why}")
    ctx.check(len(pops) >= 1, "FIN-default", f"{q}|blank-removed", ctx.where(f.module, f.node),
              "a blank open last cue is removed", "finish() no longer removes a blank open last cue")


def run(ctx):
  from ..rules import probes as _probes2
  ctx.floor("FIN-eol", "append sequences decided", _probes2.check_payload_eol(ctx), 12)
  from ..rules import isdrules as _isdr5
  ctx.floor("PRUNE-sites", "return sites of _process_element", _isdr5.check_prune_sites(ctx, ctx.ix.func("ttconv.isd:ISD._process_element")), 6)
  from . import c12 as _c12r
  _c12r.check_single_rounding(ctx)
  from ..rules import probes as _probes
  ctx.floor("FIN-merge", "sample snapshots decided", _probes.check_paragraph_merge(ctx), 5)
  fs = common.scope_funcs(ctx, LIVE_MODULES)
  n_loops, n_live = live.check_live(ctx, fs, rule="LIVE")
  ctx.floor("LIVE", "for-loops over a live view in the ISD filters and cue writers", n_live, 5)
  ctx.extra["for_loops_scanned"] = n_loops
  check_flatteners(ctx)
  check_seq_end(ctx)
  check_finish(ctx)
  # cues are produced from the cached sequence: the cache must not hide documents with visible content
  shape.check_content_interval_hull(ctx)
  # paragraphs and divisions are merged in document order
  gp = ctx.ix.func("ttconv.filters.isd.merge_paragraphs:ParagraphsMergingISDFilter._get_paragraphs")
  if not shape.check_collects_in_document_order(ctx, gp):
    shape.check_inorder_accumulation(ctx, gp, "paragraphs", gp.params[1])
  pr = ctx.ix.func("ttconv.filters.isd.merge_paragraphs:ParagraphsMergingISDFilter.process")
  shape.check_inorder_accumulation(ctx, pr, "paragraphs", "original_divs")
  gp_ = ctx.ix.func("ttconv.filters.isd.merge_paragraphs:ParagraphsMergingISDFilter._get_paragraphs")
  rec_ = [c for c in own_nodes(gp_.node) if isinstance(c, ast.Call) and unparse(c.func) in (f"self.{gp_.name}", f"cls.{gp_.name}", gp_.name)]
  ctx.check(bool(rec_) or any(o.rule == "ORD-docorder" and "sample tree" in o.key and o.ok for o in ctx.obs), "ORD-docorder", f"{gp_.qualname}|paragraphs are collected at every depth", ctx.where(gp_.module, gp_.node), "the collector calls itself on nested divs",
            "_get_paragraphs no longer recurses into nested divs: paragraphs below the second div level are dropped from the merged output")
  mr_ = ctx.ix.func("ttconv.filters.isd.merge_regions:RegionsMergingISDFilter.process")
  ctx.unit(mr_.module)
  moving = [lp for lp in own_nodes(mr_.node) if isinstance(lp, ast.For) and isinstance(parent(lp), ast.FunctionDef) and any(isinstance(c, ast.Call) and isinstance(c.func, ast.Attribute) and c.func.attr == "push_child" for c in own_nodes(lp))]
  if len(moving) != 1:
    raise AnalysisError(f"{mr_.qualname}: the loop that moves the content of every region was not found")
  ldefs_ = match.local_defs(mr_.node)

  def in_region_order(e, depth=0):
    """the expression yields the regions of the ISD (or values derived from them one by one) in the order of the ISD"""
    if depth > 5:
      return False
    if isinstance(e, ast.Call) and isinstance(e.func, ast.Name) and e.func.id in ("list", "tuple", "iter", "enumerate") and e.args:
      return in_region_order(e.args[0], depth + 1)
    if isinstance(e, ast.Call) and isinstance(e.func, ast.Name) and e.func.id == "zip" and e.args:
      return all(in_region_order(a, depth + 1) for a in e.args)
    if isinstance(e, ast.Call) and isinstance(e.func, ast.Attribute) and e.func.attr == "iter_regions" and not e.args:
      return True
    if isinstance(e, (ast.ListComp, ast.GeneratorExp)) and len(e.generators) == 1 and not e.generators[0].ifs:
      return in_region_order(e.generators[0].iter, depth + 1)
    if isinstance(e, ast.Name) and len(ldefs_.get(e.id, [])) == 1:
      d = ldefs_[e.id][0]
      if isinstance(d, ast.List) and not d.elts:
        # built by appending once per item of an in-order loop
        apps = [c for c in own_nodes(mr_.node) if isinstance(c, ast.Call) and isinstance(c.func, ast.Attribute) and c.func.attr == "append" and unparse(c.func.value) == e.id]
        loops_ = {id(parent(parent(c))): parent(parent(c)) for c in apps}
        return len(apps) == 1 and all(isinstance(lp, ast.For) and in_region_order(lp.iter, depth + 1) for lp in loops_.values())
      return in_region_order(d, depth + 1)
    return False
  ctx.check(in_region_order(moving[0].iter), "ORD-docorder", f"{mr_.qualname}|regions are merged in document order", ctx.where(mr_.module, moving[0]),
            f"iterates `{unparse(moving[0].iter)}` = the regions in their order in the ISD", f"the content of the regions is merged in the order of `{short(moving[0].iter, 60)}`, not in the order of the regions in the document: simultaneous text of different regions is swapped")
  for prod, ref in (("ttconv.srt.writer:SrtContext.add_isd", "ttconv.srt.paragraph:SrtParagraph.to_string"), ("ttconv.vtt.writer:VttContext.add_isd", "ttconv.vtt.cue:VttCue.to_string")):
    shape.check_interval_resolution(ctx, ctx.ix.func(prod), ctx.ix.func(ref))
  shape.check_fresh_per_iteration(ctx, common.funcs(ctx, common.ISD_FILTERS))
  for q_ in ("ttconv.srt.writer:SrtContext", "ttconv.vtt.writer:VttContext"):
    shape.check_default_end(ctx, ctx.ix.cls(q_))
  common.check_numeric_fields(ctx, common.WRITERS)
  common.check_walkers(ctx, common.ISD_FILTERS + ["ttconv.srt.writer", "ttconv.vtt.writer"])
  from . import c07 as _c07
  _c07.check_escaping(ctx)
  common.check_history_independence(ctx, common.WRITERS + common.ISD_FILTERS + ["ttconv.isd"])
