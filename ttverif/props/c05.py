"""C05 - writing a document as IMSC and reading it back presents identically (structural clauses)."""
from __future__ import annotations

import ast
import re

from ..consteval import ConstEval, EnumMember
from ..core import AnalysisError, ClassInfo, FuncInfo, own_nodes, parent, short, unparse
from ..rules import dsp, exa, fmt, match
from . import c13, common

EXPLANATION = (
  "Decides these clauses for every document and writer configuration: (DSP-writer) every concrete model element kind has a branch in "
  "the writer's element dispatch (Text is written inline as text/tail - tabled), so no element is dropped; (TAB-props) every model "
  "style property has exactly one IMSC property class, each with both a parser (extract) and a serialiser (from_model), and the "
  "writer iterates all of them; (TAB-enum) for every enumerated property the form the writer emits (<member>.value) is a form the "
  "reader accepts (by-name reading requires name == value for every member of that Enum, by-value reading uses the same Enum); "
  "(NUL-special) for every property whose model validator admits a SpecialValues member, the writer's has_px and from_model test "
  "for it before touching structured fields; (TAB-has-px) every property whose value (transitively) contains a length overrides "
  "has_px, so the pixel extent on <tt> is written whenever px lengths occur; (FMT-time) the three time syntaxes the writer prints "
  "(clock time, frames, clock time with frames) are accepted by the reader's time-expression patterns and their fields recovered; "
  "(FMT-list) list-valued attributes are split by the reader compatibly with the separator the writer joins with; (EXA) frame "
  "syntaxes are computed in exact rational arithmetic; (DSP-doc) every document parameter the reader sets is written by the writer."
  " (TRAV) the scan that decides whether tts:extent is written on <tt> reaches the specified styles and the animation steps of every region and body element; has_px overrides compare units with px;"
  " (SPECIAL-emit) a from_model method emits the keyword of a special value only under an identity test with that special value (or when every component is False), never under a truthiness test;"
  " (STATE-alias / STATE-global) no function of the anchored modules mutates a module- or class-level container, rebinds module / class state or mutates a mutable default argument, so a result never depends on earlier calls;"
  " (FIN-space) xml:space is written exactly where the element's value differs from the inherited one (6 combinations of parent / own values);"
  " (TAB-has-px, fields) every has_px reads every length-typed field of its value type;"
  " (FIN-cellres) the cell-resolution attribute is written when, and only when, the document's value differs from the 32 x 15 default, evaluated on a grid of resolutions;"
  " (FIN-dropframe) the SMPTE writer's frame labels agree with ST 12-1 around every minute boundary for drop-frame rates and count plainly for non-drop rates;"
  " (FMT-color) the #rrggbb[aa] text the writer prints, evaluated on a grid of components including alpha below 10h, is consumed whole by the reader's pattern and gives the same components;"
  ' (FIN-decoration) TextDecoration.from_model, evaluated for all 27 combinations of its three components, writes exactly one token per non-None component and the `no...` form for False;'
  " (FMT-number) every number-to-text conversion of the attribute and style serialisers gives plain decimal notation on a grid from 1e-05 to 1234567 (no exponent, which the reader's patterns reject);"
  ' (TRAV-rec) every function that walks the tree by calling itself on the children reaches that child loop on every path (the three walkers that prune by design are tabled with the rules that decide their pruning);'
  ' (LINT-l) no tuple / list / set display of the anchored modules lists the same computed component twice and no dict display repeats a key (a key or fingerprint built that way cannot tell apart what the missing component would have);'
  ' (STATE-share) no assignment stores a container field of one object (a field the package updates in place) into a field of another object without copying it, so an in-place update of one object never changes another;'
  " (ITEM-source) an object built once per item of an inner loop is filled only with values that derive from that item or do not vary with the loops, never with a value of the enclosing container standing where the item's own belongs;"
  " (NUL-arg) the result of a getter that returns None for a missing entry (get_style, get_initial_value, ...) is never passed straight into a function that dereferences that parameter without a None test, unless the key is drawn from the same container's own keys;"
  ' (LOOP-break) no loop over the items of a collection is left by a branch that does nothing but `break` on a test about the item (end-of-input sentinels, flags set in the loop body and searches whose variable is read afterwards excepted): an item that is to be skipped does not end the processing of the items after it;'
  ' (FIN-haspx) each has_px() over a style value with several lengths (extent, origin, padding, position), evaluated with exactly one length in px and with none, reports px exactly when some length is in px;'
  ' (FIN-wholeframes) as in C12: frame syntaxes are written from the whole number of complete frames, so no frame field reaches the frame rate;'
  ' (AGREE-framerate) ttp:frameRate is written for every time expression syntax under which to_time_format uses the frame rate;'
  + common.SHARED_CLAUSES['color'] + common.SHARED_CLAUSES['text']
  + common.SHARED_CLAUSES['timing']
)
RULE_TEXT = "per element kind, per style property, per Enum member, per special-value access, per time syntax sample"
UNDECIDED = ["snapshot equality after re-reading", "numeric precision of written lengths (:g formatting)", "font-family quoting round trip", "times move by less than one unit and never change order"]
TRUSTED = ["stdlib re / format() on extracted literals", "Text nodes are serialised as XML text/tail by ContentElement.from_model"]

SP = "ttconv.imsc.style_properties"
EL = "ttconv.imsc.elements"
INLINE_KINDS = {"Text": "written as the text / tail of the surrounding XML element"}


def check_writer_dispatch(ctx):
  ix = ctx.ix
  f = ix.func(f"{EL}:ContentElement.from_model")
  ctx.unit(f.module)
  tested = dsp.isinstance_classes(ix, f, f.params[1])
  base = ix.cls("ttconv.model:ContentElement")
  kinds = [c for c in ix.all_subclasses(base) if c.module.name == "ttconv.model"]
  ctx.floor("DSP-writer", "model element kinds", len(kinds), 13)
  for k in sorted(kinds, key=lambda c: c.name):
    key = f"{f.qualname}|{k.name}"
    if k.name in INLINE_KINDS:
      inline = any(isinstance(n, ast.Call) and "isinstance(child, model.Text)" in unparse(n) for n in own_nodes(f.node)) and ".text = child.get_text()" in unparse(f.node) \
        and ".tail = child.get_text()" in unparse(f.node)
      ctx.check(inline, "DSP-writer", key, ctx.where(f.module, f.node), "tabled: " + INLINE_KINDS[k.name], "text nodes are no longer written as text / tail of the XML element")
      continue
    ctx.check(dsp.handled(ix, k, tested) is not None, "DSP-writer", key, ctx.where(f.module, f.node), "has a branch",
              f"ContentElement.from_model has no branch for model.{k.name}: such elements are silently left out of the IMSC output")
  # the branch maps to the matching imsc class (if-chain, or rows of a constant table unpacked by a loop)
  for n in own_nodes(f.node):
    if isinstance(n, ast.If) and isinstance(n.test, ast.Call) and unparse(n.test.func) == "isinstance" and n.body and isinstance(n.body[0], ast.Assign):
      karg, varg = n.test.args[1], n.body[0].value
      pairs = None
      if isinstance(karg, ast.Name) and isinstance(varg, ast.Name):
        pairs = _table_pairs(ix, f, n, karg.id, varg.id)
      if pairs is None:
        pairs = [(unparse(karg).split(".")[-1], unparse(varg))]
      for kind, tgt in pairs:
        ctx.check(tgt == f"{kind}Element", "DSP-writer", f"{f.qualname}|{kind} -> {tgt}", ctx.where(f.module, n), "maps to its own element class",
                  f"model.{kind} is written with {tgt} instead of {kind}Element")


def _table_pairs(ix, f, node, kvar, vvar):
  """[(model class name, element class text)] when kvar / vvar are columns of a constant table of rows iterated by an enclosing loop"""
  from ..core import ancestors
  for a in ancestors(node):
    if isinstance(a, ast.For) and isinstance(a.target, (ast.Tuple, ast.List)):
      names = [t.id if isinstance(t, ast.Name) else None for t in a.target.elts]
      if kvar in names and vvar in names:
        r = ix.resolve(f.module, a.iter, cls=f.cls, func=f) if isinstance(a.iter, (ast.Name, ast.Attribute)) else None
        table = r[2] if isinstance(r, tuple) and r[0] == "assign" else (a.iter if isinstance(a.iter, (ast.Tuple, ast.List)) else None)
        if isinstance(table, (ast.Tuple, ast.List)) and all(isinstance(row, (ast.Tuple, ast.List)) and len(row.elts) == len(names) for row in table.elts):
          return [(unparse(row.elts[names.index(kvar)]).split(".")[-1], unparse(row.elts[names.index(vvar)])) for row in table.elts]
        raise AnalysisError(f"{f.qualname}: the dispatch table iterated by `{short(a, 50)}` is not a constant table of rows")
  return None


def check_props(ctx):
  ix = ctx.ix
  m = ix.mod(SP)
  ctx.unit(m)
  ce = ConstEval(ix)
  imsc = ix.cls(f"{SP}:StyleProperties")
  base = ix.cls(f"{SP}:StyleProperty")
  classes = {n: c for n, c in imsc.nested.items() if ix.is_subclass(c, base)}
  model_props = {n for n, c in ix.cls("ttconv.style_properties:StyleProperties").nested.items()}
  by_model = {}
  for n, c in classes.items():
    mp = c.assigns.get("model_prop")
    by_model.setdefault(unparse(mp).split(".")[-1] if mp is not None else None, []).append(n)
  ctx.floor("TAB-props", "IMSC style property classes", len(classes), 36)
  length_types = c13.length_bearing_types(ix)
  for p in sorted(model_props):
    lst = by_model.get(p, [])
    ctx.check(len(lst) == 1, "TAB-props", f"{SP}|model property {p} has exactly one IMSC class", m.rel, f"{lst}",
              f"model style property {p} is mapped by {lst or 'no'} IMSC property class(es): it cannot be written / read back")
    if len(lst) != 1:
      continue
    c = classes[lst[0]]
    for meth in ("extract", "from_model"):
      ctx.check(meth in c.methods, "TAB-props", f"{SP}:{c.name}|defines {meth}", ctx.where(m, c.node), "defined", f"{c.name} does not define {meth}()")
    for a in ("ns", "local_name"):
      ctx.check(a in c.assigns, "TAB-props", f"{SP}:{c.name}|defines {a}", ctx.where(m, c.node), "defined", f"{c.name} does not define `{a}`")
    # has_px for length-bearing properties
    mcls = ix.cls(f"ttconv.style_properties:StyleProperties.{p}")
    v = mcls.methods.get("validate")
    tested = set()
    for node in own_nodes(v.node) if v else []:
      if isinstance(node, ast.Call) and isinstance(node.func, ast.Name) and node.func.id == "isinstance" and len(node.args) == 2:
        spec = node.args[1]
        for e in (spec.elts if isinstance(spec, ast.Tuple) else [spec]):
          tested.add(unparse(e).split(".")[-1])
    vtxt = unparse(v.node) if v else ""
    px_excluded = "Units." in vtxt and "Units.px" not in vtxt     # the validator whitelists units and px is not among them
    if tested & length_types and not px_excluded:
      ctx.check("has_px" in c.methods, "TAB-has-px", f"{SP}:{c.name}|overrides has_px", ctx.where(m, c.node), f"value contains lengths ({sorted(tested & length_types)})",
                f"{c.name} values contain lengths but the class does not override has_px: tts:extent on <tt> is not written when only this property uses px")
      hp = c.methods.get("has_px")
      if hp is not None:
        looks = any(isinstance(n_, ast.Attribute) and n_.attr == "px" and unparse(n_.value).endswith("Units") for n_ in own_nodes(hp.node)) or \
          any(isinstance(n_, ast.Call) and isinstance(n_.func, ast.Attribute) and n_.func.attr == "has_px" for n_ in own_nodes(hp.node))
        ctx.check(looks, "TAB-has-px", f"{SP}:{c.name}.has_px|compares units with px", ctx.where(m, hp.node), "tests `<length>.units == Units.px` (or delegates to another has_px)",
                  f"{c.name}.has_px never looks at the units of the value: px lengths of this property are not reported")
        # every length-typed field of the value type is looked at
        need = set()
        for tname in sorted(tested & length_types):
          need |= length_fields(ix, tname, set())
        read = {n_.attr for n_ in own_nodes(hp.node) if isinstance(n_, ast.Attribute)}
        missing = sorted(need - read)
        if need:
          ctx.check(not missing, "TAB-has-px", f"{SP}:{c.name}.has_px|reads every length field {sorted(need)}", ctx.where(m, hp.node), f"reads {sorted(need)}",
                    f"{c.name}.has_px does not look at the length field(s) {missing}: a px value there is not reported, so tts:extent is not written on <tt>")
    # special values
    special = set()
    if v is not None:
      for node in own_nodes(v.node):
        if isinstance(node, ast.Attribute) and unparse(node.value).endswith("SpecialValues"):
          special.add(node.attr)
    if special:
      for meth in ("has_px", "from_model"):
        fn = c.methods.get(meth)
        if fn is None:
          continue
        ok = special_guarded(fn, special)
        ctx.check(ok, "NUL-special", f"{SP}:{c.name}.{meth}|guards SpecialValues.{'/'.join(sorted(special))}", ctx.where(m, fn.node),
                  "structured fields are accessed only after the special value has been excluded",
                  f"{c.name}.{meth} accesses fields of the value without first excluding SpecialValues.{'/'.join(sorted(special))}, which the model accepts: AttributeError in the writer")
  # enumerated values: writer form vs reader form
  for n, c in sorted(classes.items()):
    ex, fm = c.methods.get("extract"), c.methods.get("from_model")
    if ex is None or fm is None:
      continue
    by_name = []
    for node in own_nodes(ex.node):
      if isinstance(node, ast.Subscript) and isinstance(node.ctx, ast.Load):
        r = ix.resolve(m, node.value, cls=c, func=ex)
        if isinstance(r, ClassInfo) and ix.is_enum(r):
          by_name.append(r)
    writes_value = "model_value.value" in unparse(fm.node) or ".value" in unparse(fm.node)
    for en in by_name:
      bad = []
      for name, vexpr in ix.enum_members(en):
        val = ce.try_ev(en.module, vexpr, en)
        if val != name:
          bad.append((name, val))
      ctx.check(not bad, "TAB-enum", f"{SP}:{n}|{en.short} read by name, written by value", ctx.where(m, c.node), f"name == value for all members of {en.short}",
                f"{n} reads {en.short} by member *name* but writes `.value`; members whose name differs from their value cannot be read back: {bad}")
  # the writer iterates every property
  w = ix.func(f"{EL}:ContentElement.from_model_style_properties")
  ctx.check("StyleProperties.BY_MODEL_PROP.items()" in unparse(w.node) and ".from_model(" in unparse(w.node) and "is not None" in unparse(w.node), "TAB-props",
            f"{w.qualname}|every specified property is written", ctx.where(w.module, w.node), "iterates BY_MODEL_PROP and writes every non-None value",
            "from_model_style_properties no longer writes every specified style property")


def special_guarded(fn, special) -> bool:
  """Every attribute access on the value parameter is dominated (if / elif / early return) by a
  test that excludes the special values, or happens under isinstance(value, <structured type>)."""
  val = fn.params[-1]
  accesses = [a for a in own_nodes(fn.node) if isinstance(a, ast.Attribute) and isinstance(a.value, ast.Name) and a.value.id == val and a.attr not in ("value",)]
  if not accesses:
    return True
  for a in accesses:
    ok = False
    cur, par_ = a, parent(a)
    while par_ is not None and par_ is not fn.node:
      if isinstance(par_, (ast.If, ast.IfExp)):
        t = unparse(par_.test)
        body = par_.body if isinstance(par_.body, list) else [par_.body]
        orelse = par_.orelse if isinstance(par_.orelse, list) else [par_.orelse]
        in_body = any(cur is b or any(cur is y for y in ast.walk(b)) for b in body)
        in_else = any(cur is b or any(cur is y for y in ast.walk(b)) for b in orelse)
        if in_body and (f"isinstance({val}," in t or (f"{val} is not " in t and "SpecialValues" in t) or (f"{val} != " in t and "SpecialValues" in t)):
          ok = True
        if in_else and ((f"{val} is " in t and " is not " not in t and "SpecialValues" in t) or (f"{val} == " in t and "SpecialValues" in t)):
          ok = True
      cur, par_ = par_, parent(par_)
    if not ok:
      # early return guard at function level before the access
      stmt = a
      while parent(stmt) is not fn.node and parent(stmt) is not None:
        stmt = parent(stmt)
      for g in fn.node.body:
        if g is stmt:
          break
        if isinstance(g, ast.If) and "SpecialValues" in unparse(g.test) and val in unparse(g.test) and g.body and isinstance(g.body[-1], ast.Return) \
            and (" is " in unparse(g.test) or "==" in unparse(g.test)) and " is not " not in unparse(g.test):
          ok = True
    if not ok:
      return False
  return True


def check_time_formats(ctx):
  """FMT-time: what to_time_format prints is accepted by parse_time_expression."""
  ix = ctx.ix
  f = ix.func("ttconv.imsc.attributes:to_time_format")
  ctx.unit(f.module)
  # the function that prints: to_time_format itself, or the private function of the module it hands the work to (a memo or a
  # wrapper in front of it)
  if sum(1 for r in own_nodes(f.node) if isinstance(r, ast.Return)) < 3:
    for c_ in own_nodes(f.node):
      if isinstance(c_, ast.Call) and isinstance(c_.func, ast.Name):
        g_ = ix.resolve(f.module, c_.func, cls=None, func=f)
        if hasattr(g_, "node") and getattr(g_, "module", None) is f.module and sum(1 for r in own_nodes(g_.node) if isinstance(r, ast.Return)) >= 3 and "from_seconds" in unparse(g_.node):
          f = g_
          break
  um = ix.mod("ttconv.imsc.utils")
  pats = {name: fmt.pattern_literal(ix, um, name) for name in ("_CLOCK_TIME_FRACTION_RE", "_CLOCK_TIME_FRAMES_RE", "_OFFSET_FRAME_RE")}
  sk = fmt.Skeleton(ix)
  rets = [r for r in own_nodes(f.node) if isinstance(r, ast.Return)]
  if len(rets) < 3:
    ctx.undecide("FMT-time", f"{f.qualname}: fewer than the three printing returns (clock time, frames, SMPTE) were found: restructured")
    return
  ctx.floor("FMT-time", "time syntaxes printed by to_time_format", len(rets), 3)
  # clock time: str(ClockTime.from_seconds(time)) with the default '.' separator
  ct = ix.cls("ttconv.time_code:ClockTime")
  init_sep = fmt.separator_choices(ix, ct, "_ms_separator", "__none__")
  clock = sk.of_method(ix.func("ttconv.time_code:ClockTime.__str__"), {"self._ms_separator": init_sep})
  samples = {"self._hours": [0, 7, 23, 100], "self._minutes": [0, 9, 59, 30], "self._seconds": [0, 5, 59, 1], "self._milliseconds": [0, 7, 999, 80]}
  uses_clock = any("ClockTime.from_seconds" in unparse(r) for r in rets)
  ctx.check(uses_clock, "FMT-time", f"{f.qualname}|clock_time syntax uses ClockTime", ctx.where(f.module, f.node), "str(ClockTime.from_seconds(time))", "the clock_time syntax is no longer printed through ClockTime")
  for text, vals in fmt.instantiate(clock, samples):
    m = re.match(pats["_CLOCK_TIME_FRACTION_RE"], text)
    got = None
    if m:
      sec = m.group(3)
      got = [int(m.group(1)), int(m.group(2)), int(sec.split(".")[0]), int((sec.split(".")[1] if "." in sec else "0").ljust(3, "0")[:3])]
    want = [vals["self._hours"], vals["self._minutes"], vals["self._seconds"], vals["self._milliseconds"]]
    ctx.check(got == want, "FMT-time", f"{f.qualname}|clock_time|{text}", ctx.where(f.module, f.node), f"`{text}` read back as {got}",
              f"the writer prints the clock time `{text}` but the reader's clock-time pattern recovers {got} instead of {want}")
  # frames: f"{n}f"
  # frames: one printed value (the rounded-up frame count) followed by literal text, however the string is put together
  fr = []
  for r in rets:
    if r.value is None or "ceil" not in unparse(match.inline_locals_deep(f.node, r.value)):
      continue
    try:
      parts = sk.of_expr(f, match.inline_locals_deep(f.node, r.value), {})
    except AnalysisError:
      continue
    if parts and isinstance(parts[0], fmt.Field) and all(isinstance(p_, fmt.Lit) for p_ in parts[1:]):
      fr.append(parts)
  ok = bool(fr)
  if ok:
    lit = [p_.s for p_ in fr[0][1:]]
    for n_ in (0, 7, 1234):
      text = f"{n_}" + "".join(lit)
      m = re.match(pats["_OFFSET_FRAME_RE"], text)
      ok = ok and m is not None and int(float(m.group(1))) == n_
  if not fr:
    ctx.undecide("FMT-time", f"{f.qualname}: no return of the form `<number>` + literal was found for the frames syntax (restructured)")
  else:
    ctx.check(ok, "FMT-time", f"{f.qualname}|frames syntax `<n>f`", ctx.where(f.module, f.node), "`<n>f` matches the frame offset pattern", "the frames syntax the writer prints is not accepted by the reader's frame-offset pattern")
  # clock time with frames: SmpteTimeCode non-drop form HH:MM:SS:FF
  tc = ix.func("ttconv.time_code:SmpteTimeCode.__str__")
  for conds, skel, rnode in sk.of_variants(tc, {}):
    df_conds = [(k, v) for k, v in conds.items() if "is_drop_frame" in k]
    if df_conds and all((v if not k.startswith("not ") else not v) for k, v in df_conds):
      continue      # the drop-frame label is never written (checked below)
    for text, vals in fmt.instantiate(skel, {"self._hours": [0, 7, 23, 99], "self._minutes": [0, 9, 59, 30], "self._seconds": [0, 5, 59, 1], "self._frames": [0, 1, 24, 59]}):
      m = re.match(pats["_CLOCK_TIME_FRAMES_RE"], text)
      got = [int(x) for x in m.groups()] if m else None
      want = [vals["self._hours"], vals["self._minutes"], vals["self._seconds"], vals["self._frames"]]
      ctx.check(got == want, "FMT-time", f"{f.qualname}|clock_time_with_frames|{text}", ctx.where(tc.module, tc.node), f"`{text}` read back as {got}",
                f"the writer prints `{text}` for clock_time_with_frames but the reader recovers {got} instead of {want}")
  check_time_settings(ctx)


def check_time_settings(ctx):
  """FIN-timecfg: the (frame rate, syntax) pair that writer.from_model hands to TTElement.from_model, evaluated for every
  combination of time_format in {unset, clock_time, frames, clock_time_with_frames} and fps in {unset, 25, 30000/1001} (and for no
  configuration): frames syntaxes need a frame rate, HH:MM:SS:FF needs an integer one (drop-frame labels would be written
  otherwise, which the reader rejects), an unset syntax becomes frames when a rate is given, else clock time."""
  from fractions import Fraction as F
  from ..consteval import FuncEval, NotConst, Raised, _CallingConstEval, EnumMember, Sym
  ix = ctx.ix
  w = ix.func("ttconv.imsc.writer:from_model")
  ctx.unit(w.module)
  sink = [c for c in own_nodes(w.node) if isinstance(c, ast.Call) and unparse(c.func).endswith("TTElement.from_model") and len(c.args) >= 3]
  if len(sink) != 1:
    raise AnalysisError("writer.from_model: the TTElement.from_model(doc, fps, time_format, ...) call was not found")
  fps_arg, tf_arg = sink[0].args[1], sink[0].args[2]
  cfg = w.params[1]
  enum = ix.cls("ttconv.imsc.attributes:TimeExpressionSyntaxEnum") if "ttconv.imsc.attributes:TimeExpressionSyntaxEnum" in ix.classes else None
  if enum is None:
    enum = next((c for c in ix.classes.values() if c.name == "TimeExpressionSyntaxEnum"), None)
  if enum is None:
    raise AnalysisError("TimeExpressionSyntaxEnum not found")
  members = {name: EnumMember(enum.qualname, name, ConstEval(ix).try_ev(enum.module, v, enum)) for name, v in ix.enum_members(enum)}
  # the statements that produce the two arguments: top-level statements before the sink that read / write only the configuration,
  # the two results, and module-level names
  st_sink = sink[0]
  while getattr(st_sink, "_parent", None) is not w.node:
    st_sink = st_sink._parent
  needed = {x.id for a in (fps_arg, tf_arg) for x in ast.walk(a) if isinstance(x, ast.Name)}
  body = []
  for st in reversed(w.node.body[:w.node.body.index(st_sink)]):
    stores = {x.id for x in ast.walk(st) if isinstance(x, ast.Name) and isinstance(x.ctx, ast.Store)}
    if stores & needed:
      body.insert(0, st)
      needed |= {x.id for x in ast.walk(st) if isinstance(x, ast.Name) and isinstance(x.ctx, ast.Load)}
  fe = FuncEval(ix)
  wrong, n = [], 0
  cases = [(None, None, None)] + [("cfg", tf, fps) for tf in (None, "clock_time", "frames", "clock_time_with_frames") for fps in (None, F(25), F(30000, 1001))]
  for (c, tf, fps) in cases:
    env = {cfg: None} if c is None else {cfg: Sym("config"), f"{cfg}.fps": fps, f"{cfg}.time_format": members[tf] if tf else None}
    try:
      ce = _CallingConstEval(ix, fe, w, 0, None)
      fe._block(ce, w, body, env)
      got = (ce.ev(w.module, fps_arg, None, env), ce.ev(w.module, tf_arg, None, env))
      got = (got[0], got[1].name if isinstance(got[1], EnumMember) else got[1])
    except Raised:
      got = "raises"
    except NotConst as e:
      raise AnalysisError(f"writer.from_model: the time settings leave the evaluable subset ({e})")
    if c is None:
      want = (None, "clock_time")
    elif tf is None:
      want = (fps, "frames" if fps is not None else "clock_time")
    elif tf in ("frames", "clock_time_with_frames") and fps is None:
      want = "raises"
    elif tf == "clock_time_with_frames" and fps.denominator != 1:
      want = "raises"
    else:
      want = (fps, tf)
    n += 1
    if got != want:
      wrong.append(f"time_format={tf}, fps={fps}{'' if c else ' (no configuration)'}: {got}, expected {want}")
  ctx.check(not wrong, "FMT-time", f"{w.qualname}|time settings for every configuration (HH:MM:SS:FF only with integer frame rates)", ctx.where(w.module, sink[0]), f"{n} configurations evaluated",
            "; ".join(wrong[:3]) + f" ({len(wrong)} of {n} configurations): e.g. drop-frame labels would be written for clock_time_with_frames, which the reader rejects")
  ctx.extra["finite_domain_evaluations"] = ctx.extra.get("finite_domain_evaluations", 0) + n


def check_color_format(ctx):
  """FMT-color: the hexadecimal colour the writer prints, evaluated for a grid of component values
  (alpha below 10h and the opaque alpha included), is read back by the reader's hexadecimal pattern
  as the same four components - the pattern must consume the whole string, otherwise a trailing
  digit is silently dropped."""
  from ..consteval import FuncEval, NotConst, Raised
  ix = ctx.ix
  f = ix.func(f"{SP}:StyleProperties.to_ttml_color")
  ctx.unit(f.module)
  um = ix.mod("ttconv.utils")
  pat = fmt.pattern_literal(ix, um, "_HEX_COLOR_RE")
  fe = FuncEval(ix)
  p0 = f.params[0]
  wrong, n = [], 0
  for comps in ((255, 0, 0, 8), (1, 2, 3, 255), (0, 0, 0, 0), (16, 15, 254, 15), (171, 205, 239, 16), (9, 10, 11, 128)):
    try:
      text = fe.call(f, {f"{p0}.components": comps})
    except (NotConst, Raised) as e:
      raise AnalysisError(f"{f.qualname} leaves the evaluable subset ({e})")
    n += 1
    m = re.match(pat, text) if isinstance(text, str) else None
    got = None
    if m is not None and m.end() == len(text):
      got = tuple(int(m.group(i), 16) for i in (1, 2, 3)) + ((int(m.group(4), 16),) if m.group(4) else (255,))
    if got != comps:
      wrong.append(f"{comps} is written as `{text}`, read back as {got if got is not None else 'a different / partial match'}")
  ctx.check(not wrong, "FMT-color", f"{f.qualname}|#rrggbb[aa] is read back as the same components", ctx.where(f.module, f.node), f"{n} colours incl. alpha < 10h",
            "; ".join(wrong[:3]) + ": the colour (typically its alpha) changes when the document is read back")


def check_text_decoration_tokens(ctx):
  """FIN-decoration: tts:textDecoration is a list of up to three tokens, one per component; a component
  that is True writes `underline` / `lineThrough` / `overline`, one that is False writes the `no...`
  form, one that is None writes nothing.  TextDecoration.from_model is evaluated for all 27
  combinations of (underline, line_through, overline) in {None, True, False}."""
  import itertools
  from ..rules import fineval
  ix = ctx.ix
  c = ix.cls(f"{SP}:StyleProperties.TextDecoration")
  f = c.methods["from_model"]
  ctx.unit(f.module)
  mv = f.params[-1]
  names = {"underline": ("underline", "noUnderline"), "line_through": ("lineThrough", "noLineThrough"), "overline": ("overline", "noOverline")}
  lists = {st.targets[0].id for st in own_nodes(f.node) if isinstance(st, ast.Assign) and len(st.targets) == 1 and isinstance(st.targets[0], ast.Name) and isinstance(st.value, ast.List)}
  if len(lists) != 1:
    raise AnalysisError(f"{f.qualname}: the list of tokens was not found")
  acc = next(iter(lists))
  wrong, n = [], 0
  for u, l, o in itertools.product((None, True, False), repeat=3):
    eff = fineval.collect(ix, f, f.node.body, {f"{mv}.underline": u, f"{mv}.line_through": l, f"{mv}.overline": o}, acc)
    if any("underline" in s_ or "line_through" in s_ or "overline" in s_ for s_ in eff.skipped):
      raise AnalysisError(f"{f.qualname}: a component test could not be evaluated ({eff.skipped[0]})")
    got = sorted(a[0] for name, a, _ in eff.calls if name == "append" and a and isinstance(a[0], str))
    want = sorted(names[k][0 if v else 1] for k, v in (("underline", u), ("line_through", l), ("overline", o)) if v is not None)
    n += 1
    if got != want:
      wrong.append(f"(underline={u}, line_through={l}, overline={o}) writes {got}, must write {want}")
  ctx.check(not wrong, "FIN-decoration", f"{f.qualname}|one token per component", ctx.where(f.module, f.node), f"{n} combinations of the three components",
            "; ".join(wrong[:3]) + ": a decoration is lost or invented when the document is read back")
def check_number_notation(ctx):
  """FMT-number: TTML numbers are plain decimals; the reader's patterns accept no exponent.  Every place
  of the writer's attribute / style serialisers that turns a number into text - a format
  specification in an f-string, or a call of a formatting helper of the package - is evaluated on a
  grid of magnitudes (1e-05 ... 1234567) and the text must be digits, an optional sign and an optional
  fraction, nothing else."""
  from ..consteval import FuncEval, NotConst, Raised
  ix = ctx.ix
  fe = FuncEval(ix)
  plain = re.compile(r"[+-]?\d*(?:\.\d+)?")
  grid = (1e-05, 0.5, 33.3333333, 100, 1234567, 1000001, 3000000, 120, 10.5)
  n = 0
  for mn in ("ttconv.imsc.attributes", SP):
    m = ix.mod(mn)
    ctx.unit(m)
    for g in ix.funcs_in(mn):
      if not (g.name in ("set", "from_model") or g.name.startswith("to_ttml")):
        continue
      for fv in own_nodes(g.node):
        if not isinstance(fv, ast.FormattedValue):
          continue
        texts = None
        if fv.format_spec is not None and all(isinstance(x, ast.Constant) for x in fv.format_spec.values):
          spec = "".join(str(x.value) for x in fv.format_spec.values)
          if not spec or spec[-1] not in "gGeEfFn%":
            continue
          texts = [format(v, spec) for v in grid]
          what = f"format specification `{spec}`"
        elif fv.format_spec is None and isinstance(fv.value, ast.Call) and len(fv.value.args) == 1:
          r = ix.resolve(g.module, fv.value.func, cls=g.cls, func=g)
          if not isinstance(r, FuncInfo) or "format" not in r.name:
            continue
          try:
            texts = [fe.call(r, {r.params[0]: v}) for v in grid]
          except (NotConst, Raised) as e:
            raise AnalysisError(f"{r.qualname} leaves the evaluable subset ({e})")
          what = f"{r.short}()"
        if texts is None:
          continue
        n += 1
        bad = [f"{v!r} -> `{t}`" for v, t in zip(grid, texts) if not (isinstance(t, str) and t and plain.fullmatch(t))]
        ctx.check(not bad, "FMT-number", f"{g.qualname}|{short(fv.value, 50)}", ctx.where(g.module, fv), f"{what}: plain decimals on the whole grid",
                  f"{what} writes {', '.join(bad[:3])}: exponent notation is not a TTML number, the reader rejects the attribute")
        if not bad and fv.format_spec is None:
          # a formatting helper states no precision: what it prints must read back as the number (to the 6 significant digits of `:g`)
          off = [f"{v!r} -> `{t}`" for v, t in zip(grid, texts) if abs(float(t) - v) > 1e-5 * abs(v)]
          ctx.check(not off, "FMT-number", f"{g.qualname}|{short(fv.value, 50)}|value", ctx.where(g.module, fv), f"{what}: the printed text reads back as the number on the whole grid",
                    f"{what} writes {', '.join(off[:3])}: the text is a different number")
  ctx.floor("FMT-number", "number-to-text conversions in the IMSC writer", n, 10)


def check_list_separators(ctx):
  ix = ctx.ix
  c = ix.cls(f"{SP}:StyleProperties.TextShadow")
  ctx.unit(c.module)
  fm, ex = c.methods["from_model"], c.methods["extract"]
  joins = [n.func.value.value for n in own_nodes(fm.node) if isinstance(n, ast.Call) and isinstance(n.func, ast.Attribute) and n.func.attr == "join"
           and isinstance(n.func.value, ast.Constant) and "," in n.func.value.value]
  if not joins:
    raise AnalysisError("TextShadow.from_model: shadow separator not found")
  sep = joins[0]
  loop = [lp for lp in own_nodes(ex.node) if isinstance(lp, ast.For) and ".split(" in unparse(lp.iter)]
  ok = False
  why = "no split loop"
  if loop:
    split_on = loop[0].iter.args[0].value if isinstance(loop[0].iter, ast.Call) and loop[0].iter.args and isinstance(loop[0].iter.args[0], ast.Constant) else None
    var = unparse(loop[0].target)
    strips = f"{var}.strip()" in unparse(loop[0]) or split_on == sep
    ok = split_on is not None and split_on.strip() == sep.strip() and (sep == split_on or strips)
    why = f"writer joins with {sep!r}, reader splits on {split_on!r}, strips items: {strips}"
  ctx.check(ok, "FMT-list", f"{SP}:StyleProperties.TextShadow|', ' vs split(',')", ctx.where(c.module, ex.node), why,
            f"tts:textShadow: {why}; every shadow after the first then starts with an empty component and the attribute the writer emitted is rejected")


def check_doc_params(ctx):
  """DSP-doc: language, cell resolution, pixel extent (when px used), active area, aspect ratio."""
  ix = ctx.ix
  f = ix.func(f"{EL}:TTElement.from_model")
  ctx.unit(f.module)
  t = unparse(f.node)
  for what, pat in (("language", "XMLLangAttribute.set(tt_element, model_doc.get_lang())"), ("cell resolution", "CellResolutionAttribute.set(tt_element, model_doc.get_cell_resolution())"),
                    ("pixel extent", "ExtentAttribute.set(tt_element, model_doc.get_px_resolution())"), ("active area", "ActiveAreaAttribute.set(tt_element, model_doc.get_active_area())"),
                    ("display aspect ratio", "DisplayAspectRatioAttribute.set(tt_element, model_doc.get_display_aspect_ratio())"), ("frame rate", "FrameRateAttribute.set(tt_element, frame_rate)")):
    ctx.check(pat in t, "DSP-doc", f"{f.qualname}|writes the {what}", ctx.where(f.module, f.node), pat, f"TTElement.from_model no longer writes the {what} (`{pat}`)")
  # has_px is evaluated over styles AND animation steps of regions and body content
  # (the scan may live in private helpers of the class: their text is read as well, two levels deep)
  t_all = t
  seen_h = {f.qualname}
  frontier = [f]
  for _lvl in range(2):
    nxt = []
    for g_ in frontier:
      for c_ in own_nodes(g_.node):
        if isinstance(c_, ast.Call):
          r_ = ix.resolve(g_.module, c_.func, cls=g_.cls, func=g_) if isinstance(c_.func, (ast.Name, ast.Attribute)) else None
          if r_ is None and isinstance(c_.func, ast.Attribute) and isinstance(c_.func.value, ast.Name) and c_.func.value.id in ("self", "cls") and g_.cls is not None:
            r_ = ix.lookup_method(g_.cls, c_.func.attr)
          if hasattr(r_, "qualname") and hasattr(r_, "node") and r_.qualname not in seen_h and getattr(r_, "module", None) is f.module and isinstance(r_.node, (ast.FunctionDef, ast.AsyncFunctionDef)) \
              and r_.name.startswith("_"):
            seen_h.add(r_.qualname)
            nxt.append(r_)
            t_all += "\n" + unparse(r_.node)
    frontier = nxt
  ctx.check(".iter_styles()" in t_all and ".iter_animation_steps()" in t_all and ".iter_regions()" in t_all and "dfs_iterator()" in t_all, "DSP-doc",
            f"{f.qualname}|pixel usage is searched in styles and animation steps of all regions and content", ctx.where(f.module, f.node), "all four sources scanned",
            "the search for px lengths no longer covers specified styles and animation steps of every region and content element")


def length_fields(ix, type_name: str, seen) -> set:
  """Names of the fields of value type `type_name` (a class of ttconv.style_properties) that hold a length, recursively through nested value types."""
  if type_name in seen:
    return set()
  seen.add(type_name)
  out = set()
  cands = [c for c in ix.classes.values() if c.module.name == "ttconv.style_properties" and c.name == type_name.split(".")[-1]]
  for c in cands:
    for fname, ann in c.ann.items():
      a = unparse(ann)
      if "LengthType" in a:
        out.add(fname)
      else:
        for other in ix.classes.values():
          if other.module.name == "ttconv.style_properties" and other is not c and other.ann and (other.name in a.replace("[", " ").replace("]", " ").replace(",", " ").replace(".", " ").split()):
            out |= length_fields(ix, other.name, seen)
  return out


def check_space_written(ctx):
  """FIN-space: the writer emits xml:space on an element exactly when the element's value differs
  from what the reader would inherit: from the parent's value, or - for a root element - from the
  TTML default.  The guard of the XMLSpaceAttribute.set call is evaluated for every combination of
  (parent absent / default / preserve) x (own default / preserve)."""
  from ..consteval import EnumMember, NotConst
  from ..rules.isdrules import substitute
  ix = ctx.ix
  f = ix.func("ttconv.imsc.elements:ContentElement.from_model")
  ctx.unit(f.module)
  guards = [n for n in own_nodes(f.node) if isinstance(n, ast.If) and any(isinstance(c, ast.Call) and unparse(c.func).endswith("XMLSpaceAttribute.set") for st in n.body for c in ast.walk(st))]
  if len(guards) != 1:
    raise AnalysisError(f"{f.qualname}: expected one guarded XMLSpaceAttribute.set call, found {len(guards)}")
  g = guards[0]
  me = next((p_ for p_ in f.params if p_.startswith("model_")), None)
  if me is None:
    raise AnalysisError(f"{f.qualname}: the model element parameter was not found")
  # (the locals the guard reads - parent, space, a flag computed by if / else - are replaced by the values they hold there)
  test = substitute(match.inline_locals_deep(f.node, g.test), {f"{me}.parent().get_space()": "__pspace", f"{me}.get_space()": "__space", f"{me}.parent()": "__parent"})
  ce = ConstEval(ix, symbolic_ok=False)
  ws = ix.cls("ttconv.model:WhiteSpaceHandling")
  vals = {n: ce.ev(f.module, ast.parse(f"model.WhiteSpaceHandling.{n}", mode="eval").body) for n, _ in ix.enum_members(ws)}
  if set(vals) != {"DEFAULT", "PRESERVE"}:
    raise AnalysisError(f"WhiteSpaceHandling members are {sorted(vals)}")
  wrong, n = [], 0
  for par in (None, "DEFAULT", "PRESERVE"):
    for own in ("DEFAULT", "PRESERVE"):
      env = {"__parent": None if par is None else "an element", "__pspace": vals[par] if par else None, "__space": vals[own]}
      try:
        got = bool(ce.ev(f.module, test, None, env))
      except (NotConst, TypeError, AttributeError) as e:
        raise AnalysisError(f"{f.qualname}: the xml:space guard `{short(g.test, 80)}` leaves the evaluable subset ({e})")
      n += 1
      inherited = par if par is not None else "DEFAULT"
      want = own != inherited
      if got != want:
        wrong.append(f"parent {par or 'absent'}, own {own}: written={got}, must be {want}")
  ctx.check(not wrong, "FIN-space", f"{f.qualname}|xml:space is written exactly where it differs from the inherited value", ctx.where(f.module, g), f"{n} combinations agree",
            "xml:space: " + "; ".join(wrong) + " - the element reads back with the wrong white-space handling")


def check_cell_resolution_written(ctx):
  """FIN-cellres: ttp:cellResolution is written unless the document's value is the TTML default of
  32 columns by 15 rows (the reader assumes the default when the attribute is absent)."""
  from ..consteval import NotConst
  from ..rules.isdrules import substitute
  ix = ctx.ix
  f = ix.func("ttconv.imsc.elements:TTElement.from_model")
  ctx.unit(f.module)
  guards = [n for n in own_nodes(f.node) if isinstance(n, ast.If) and any(isinstance(c, ast.Call) and unparse(c.func).endswith("CellResolutionAttribute.set") for st in n.body for c in ast.walk(st))]
  if len(guards) != 1:
    raise AnalysisError(f"{f.qualname}: expected one guarded CellResolutionAttribute.set call, found {len(guards)}")
  g = guards[0]
  getter = None
  for c in ast.walk(g.test):
    if isinstance(c, ast.Call) and isinstance(c.func, ast.Attribute) and c.func.attr == "get_cell_resolution":
      getter = unparse(c)
  if getter is None:
    raise AnalysisError(f"{f.qualname}: the cell-resolution guard does not read get_cell_resolution()")
  ce = ConstEval(ix, symbolic_ok=False)
  t = g.test
  wrong = []
  if isinstance(t, ast.Compare) and len(t.ops) == 1 and isinstance(t.ops[0], (ast.NotEq, ast.Eq)) and unparse(t.left) == getter and isinstance(t.comparators[0], ast.Call) \
      and unparse(t.comparators[0].func).endswith("CellResolutionType"):
    kw = {k.arg: ce.try_ev(f.module, k.value) for k in t.comparators[0].keywords}
    if isinstance(t.ops[0], ast.Eq) or kw != {"rows": 15, "columns": 32}:
      wrong.append(f"the guard compares with {kw} using {type(t.ops[0]).__name__}")
    n = 1
  else:
    test = substitute(t, {f"{getter}.rows": "__r", f"{getter}.columns": "__c"})
    n = 0
    for r in (15, 20):
      for c in (32, 40):
        try:
          got = bool(ce.ev(f.module, test, None, {"__r": r, "__c": c}))
        except (NotConst, TypeError) as e:
          raise AnalysisError(f"{f.qualname}: the cell-resolution guard `{short(t, 70)}` leaves the evaluable subset ({e})")
        n += 1
        if got != ((r, c) != (15, 32)):
          wrong.append(f"{c} columns x {r} rows: written={got}")
  ctx.check(not wrong, "FIN-cellres", f"{f.qualname}|ttp:cellResolution is written unless it is 32 x 15", ctx.where(f.module, g), f"{n} case(s)",
            "ttp:cellResolution: " + "; ".join(wrong) + " - the reader assumes 32 x 15 when the attribute is absent, so cell lengths change")


def check_special_emission(ctx):
  """SPECIAL-emit: a writer emits the keyword of a special value ("none", "normal") only for that
  special value: under an identity test with SpecialValues.<keyword> (or, for component-wise
  properties, when every component `is False`).  A truthiness test conflates None ("not specified",
  inherits) with False / the special value."""
  from ..rules import match
  ix = ctx.ix
  sv = ix.cls("ttconv.style_properties:SpecialValues")
  keywords = {n for n, _ in ix.enum_members(sv)}
  m = ix.mod(SP)
  ctx.unit(m)
  n = 0
  for f in ix.funcs_in(SP):
    if f.name != "from_model":
      continue
    for c in own_nodes(f.node):
      if not (isinstance(c, ast.Constant) and isinstance(c.value, str) and c.value in keywords):
        continue
      # nearest enclosing conditional and the branch the literal sits in
      node, guard, positive = c, None, None
      while node is not f.node:
        par = parent(node)
        if isinstance(par, ast.If) and node is not par.test:
          guard, positive = par.test, any(node is x for x in par.body)
          break
        if isinstance(par, ast.IfExp) and node is not par.test:
          guard, positive = par.test, node is par.body
          break
        if isinstance(par, ast.Compare):   # the literal is compared, not emitted
          guard = "compare"
          break
        node = par
      if guard == "compare":
        continue
      n += 1
      key = f"{f.qualname}|emits {c.value!r}"
      if guard is None:
        ctx.bad("SPECIAL-emit", key, ctx.where(m, c), f"{f.short} emits the special keyword {c.value!r} unconditionally")
        continue
      rel = match.relation(guard, lambda e: True, lambda e: unparse(e).endswith(f"SpecialValues.{c.value}"))
      ok = (rel in ("is", "==") and positive) or (rel in ("is not", "!=") and not positive)
      if not ok and positive:
        parts = guard.values if isinstance(guard, ast.BoolOp) and isinstance(guard.op, ast.And) else [guard]
        ok = len(parts) >= 2 and all(match.relation(p_, lambda e: True, lambda e: isinstance(e, ast.Constant) and e.value is False) in ("is", "==") for p_ in parts)
      ctx.check(ok, "SPECIAL-emit", key, ctx.where(m, c), f"under `{short(guard, 60)}`",
                f"{f.short} emits {c.value!r} under `{short(guard, 70)}`, which is not an identity test with SpecialValues.{c.value} (nor `every component is False`): "
                f"unspecified (None) components or other falsy values are written as {c.value!r} and read back differently")
  ctx.floor("SPECIAL-emit", "special keywords emitted by from_model methods", n, 1)


def check_px_scan(ctx):
  """TRAV: the scan that decides whether the pixel extent is written looks at the specified styles
  and at the animation steps of every region and every content element."""
  from ..rules import trav
  ix = ctx.ix
  f = ix.func("ttconv.imsc.elements:TTElement.from_model")
  ctx.unit(f.module)
  scans = [n for n in own_nodes(f.node) if isinstance(n, ast.For) and any(isinstance(c, ast.Call) and isinstance(c.func, ast.Attribute) and c.func.attr == "has_px" for c in ast.walk(n))]
  outer = [n for n in scans if any(m is not n and any(x is m for x in ast.walk(n)) for m in scans)]
  if len(outer) != 1:
    raise AnalysisError(f"{f.qualname}: the loop over all elements that looks for pixel lengths was not found")
  lp = outer[0]
  flag = {unparse(st.targets[0]) for n in ast.walk(lp) for st in [n] if isinstance(st, ast.Assign) and isinstance(st.value, ast.Constant) and st.value.value is True}

  def found_exit(st):
    # leaving once a pixel length was found is fine: `if has_px: break`
    p_ = parent(st)
    return isinstance(st, ast.Break) and isinstance(p_, ast.If) and unparse(p_.test) in flag
  n = trav.check_loop_reached(ctx, f, lambda x: isinstance(x, ast.For) and unparse(x.iter).endswith(".iter_styles()"), "specified styles of every element are scanned for pixel lengths", scope=lp, allowed_exit=found_exit)
  n += trav.check_loop_reached(ctx, f, lambda x: isinstance(x, ast.For) and unparse(x.iter).endswith(".iter_animation_steps()"), "animation steps of every element are scanned for pixel lengths", scope=lp, allowed_exit=found_exit)
  ctx.floor("TRAV", "scans in the pixel-length loop", n, 2)
  # the list that is scanned holds every region and every element of the body
  src = unparse(lp.iter)
  t = unparse(f.node)
  ctx.check("iter_regions()" in t and "dfs_iterator()" in t, "TRAV", f"{f.qualname}|regions and all body elements are scanned", ctx.where(f.module, lp), f"`{src}` is filled from iter_regions() and dfs_iterator()",
            "the pixel-length scan no longer covers all regions and all elements of the body")


def check_frame_rate_written(ctx):
  """AGREE-framerate: the reader interprets frame-based time expressions with ttp:frameRate (30 when absent).  For every time
  expression syntax under which to_time_format uses the frame rate (decided by following its path for that syntax), the
  conditions that lead to FrameRateAttribute.set in TTElement.from_model, evaluated for that syntax with a frame rate
  given, must hold."""
  from fractions import Fraction as F
  from ..consteval import EnumMember, NotConst
  from ..rules import match
  ix = ctx.ix
  tf = ix.func("ttconv.imsc.attributes:to_time_format")
  w = ix.func(f"{EL}:TTElement.from_model")
  ctx.unit(tf.module)
  enum = next((c for c in ix.classes.values() if c.name == "TimeExpressionSyntaxEnum"), None)
  if enum is None:
    raise AnalysisError("TimeExpressionSyntaxEnum not found")
  ce = ConstEval(ix, symbolic_ok=False)
  members = {name: EnumMember(enum.qualname, name, ConstEval(ix).try_ev(enum.module, v, enum)) for name, v in ix.enum_members(enum)}
  cparam = tf.params[0]
  uses = {}
  for name, mem in members.items():
    def decide(test, mem=mem):
      t2 = match.replace_exprs([ast.Expr(test)], {f"{cparam}.time_expression_syntax": "__syntax", f"{cparam}.frame_rate": "__rate"})[0].value
      try:
        return bool(ce.ev(tf.module, t2, None, {"__syntax": mem, "__rate": F(25)}))
      except NotConst as e:
        raise match.PathUndecided(str(e))
    try:
      kind, val = match.path_result(tf.node, decide)
    except match.PathUndecided as e:
      raise AnalysisError(f"to_time_format: the path for syntax {name} cannot be followed ({e})")
    uses[name] = kind == "return" and val is not None and "frame_rate" in unparse(val)
  sets = [c for c in own_nodes(w.node) if isinstance(c, ast.Call) and unparse(c.func).endswith("FrameRateAttribute.set")]
  if len(sets) != 1:
    raise AnalysisError(f"TTElement.from_model: expected one FrameRateAttribute.set call, found {len(sets)}")
  # parameter names of from_model that carry the rate and the syntax
  rate_p = next((p_ for p_ in w.params if "rate" in p_), None)
  syn_p = next((p_ for p_ in w.params if "syntax" in p_ or "format" in p_), None)
  if rate_p is None or syn_p is None:
    raise AnalysisError("TTElement.from_model: the frame-rate / syntax parameters were not identified")
  conds = match.reaching_conditions(sets[0], w.node)
  conds = [(t, pol) for (t, pol) in conds if {x.id for x in ast.walk(t) if isinstance(x, ast.Name)} & {rate_p, syn_p}]
  n = 0
  for name, mem in members.items():
    if not uses[name]:
      continue
    n += 1
    try:
      written = all(bool(ce.ev(w.module, t, w.cls, {rate_p: F(25), syn_p: mem})) == pol for (t, pol) in conds)
    except NotConst as e:
      raise AnalysisError(f"TTElement.from_model: the condition of FrameRateAttribute.set leaves the evaluable subset ({e})")
    ctx.check(written, "AGREE-framerate", f"{w.qualname}|ttp:frameRate written for {name}", ctx.where(w.module, sets[0]),
              f"to_time_format uses the frame rate for `{name}` and from_model writes ttp:frameRate for it",
              f"time expressions are written with the configured frame rate for the syntax `{name}`, but ttp:frameRate is not written for it "
              f"(condition `{' and '.join(short(t, 40) for t, _ in conds)}`): the reader falls back to 30 fps and shifts or rejects every time")
  ctx.floor("AGREE-framerate", "syntaxes that use the frame rate", n, 2)


def check_has_px(ctx):
  """FIN-haspx: a style value with several lengths uses pixels if ANY of its lengths does.  For every has_px() whose
  parameter is annotated with a dataclass of style_properties.py that has two or more LengthType fields, the method is
  evaluated with exactly one of those fields in px (all others in %) and with none in px."""
  from ..consteval import FuncEval, NotConst, Raised, EnumMember, Sym
  ix = ctx.ix
  sp = ix.mod("ttconv.style_properties")
  units = ix.cls("ttconv.style_properties:LengthType.Units")
  px = EnumMember(units.qualname, "px", "px")
  pct = EnumMember(units.qualname, "pct", "%")
  n = 0
  for f in ix.funcs_in("ttconv.imsc.style_properties"):
    if f.name != "has_px" or len(f.params) < 2:
      continue
    par = f.params[1]
    ann = next((a.annotation for a in f.node.args.args if a.arg == par), None)
    tname = unparse(ann).split(".")[-1] if ann is not None else None
    tcls = ix.classes.get(f"ttconv.style_properties:{tname}") if tname else None
    if tcls is None:
      continue
    fields = [k for k, a in tcls.ann.items() if unparse(a).split(".")[-1] == "LengthType"]
    if len(fields) < 2:
      continue
    ctx.unit(f.module)
    wrong = []
    for hot in fields + [None]:
      env = {par: Sym("value")}
      for k in fields:
        env[f"{par}.{k}.units"] = px if k == hot else pct
      try:
        v = FuncEval(ix).call(f, dict(env, **{f.params[0]: None}))
      except Raised:
        v = "raises"
      except NotConst as e:
        raise AnalysisError(f"{f.qualname}: leaves the evaluable subset ({e})")
      if bool(v) != (hot is not None) or v == "raises":
        wrong.append(f"only {hot} in px -> {v}" if hot else f"no px -> {v}")
    n += 1
    ctx.check(not wrong, "FIN-haspx", f"{f.qualname}|px in any of {fields}", ctx.where(f.module, f.node), f"{len(fields) + 1} assignments of units evaluated",
              f"{f.short} does not report a pixel length in every component of {tname}: " + "; ".join(wrong) + " - tts:extent is then not written on <tt> although the document uses px, and px lengths read back against 1920x1080")
  ctx.floor("FIN-haspx", "has_px methods over multi-length values", n, 4)
  ctx.extra["finite_domain_evaluations"] = ctx.extra.get("finite_domain_evaluations", 0) + n


def run(ctx):
  common.check_shared_helpers(ctx, color=True, text=True, timing=True)
  ix = ctx.ix
  check_writer_dispatch(ctx)
  check_props(ctx)
  check_time_formats(ctx)
  check_list_separators(ctx)
  check_doc_params(ctx)
  check_px_scan(ctx)
  check_has_px(ctx)
  check_frame_rate_written(ctx)
  from . import c12 as _c12w
  _c12w.check_whole_frames(ctx)
  check_special_emission(ctx)
  check_space_written(ctx)
  check_cell_resolution_written(ctx)
  # frames / clock-time-with-frames syntaxes rest on SmpteTimeCode.from_frames
  from . import c12 as _c12
  _c12.check_drop_frame_labels(ctx)
  fs = common.funcs(ctx, ["ttconv.time_code"]) + [ix.func("ttconv.imsc.attributes:to_time_format")]
  n = exa.check_exactness(ctx, fs, rule="EXA", exempt=common.EXA_EXEMPT, trunc_scope=common.time_trunc_scope(ctx))
  ctx.floor("EXA", "truncation sinks on the writer's time path", n, 10)
  check_color_format(ctx)
  check_text_decoration_tokens(ctx)
  check_number_notation(ctx)
  common.check_walkers(ctx, ["ttconv.imsc.elements", "ttconv.imsc.writer"])
  common.check_nullable_args(ctx, ["ttconv.imsc.writer", "ttconv.imsc.elements", "ttconv.imsc.style_properties", "ttconv.imsc.attributes"])
  common.check_history_independence(ctx, ["ttconv.imsc.writer", "ttconv.imsc.reader", "ttconv.imsc.elements", "ttconv.imsc.attributes", "ttconv.imsc.utils", "ttconv.imsc.style_properties", "ttconv.imsc.config", "ttconv.time_code", "ttconv.utils"])
