"""C13 - every snapshot satisfies the documented ISD shape."""
from __future__ import annotations

import ast

from ..cfg import CFG
from ..core import AnalysisError, parent, ClassInfo, own_nodes, short, unparse
from ..oracles import content_model as cm_oracle
from ..rules import trav, dsp, isdrules, pur, match
from . import c14, common

EXPLANATION = (
  "Decides these clauses of the ISD shape for every document and time: (TAB-lengths) every style property whose value type "
  "(transitively) contains a length has a StyleProcessors compute() that is scheduled in _ORDERED_STYLE_PROPS, and each such compute() "
  "stores a value built only from _compute_length / _make_rh_length / _make_rw_length results, an already computed property, or a "
  "special value - so all lengths are root-container relative; (OWN-isd) no timing, animation or region mutator and no copy_to "
  "destination is ever an ISD-owned element, and the ISD element is created with the ISD as its document; (ORD-applicable) every "
  "`return isd_element` is dominated by the loop that removes inapplicable styles, which tests is_style_applicable for every style "
  "of the element; initial values are filled in for every property of StyleProperties.ALL on every styled kind; (DEP-position) on "
  "both paths of Position.compute origin and position are stored from the same two lengths; (ORD-display) display=none returns "
  "None; (TAB-content) ISD regions admit exactly one body; (DSP-params) ISD.__init__ copies every document parameter "
  "Document defines; (ORD-lwsp) white-space processing then empty-span pruning run on every p / rt / rtc with children."
  " (TYPE-GUARD) white-space handling and empty-span pruning start at p and at every rt, whatever its parent, and at no element inside a run;"
  " (COMPUTED) prune-or-keep decisions after style computation read the computed style of the ISD element, never the specified style of the source element;"
  " (TAB-compute-order) every compute() runs after the computes of the properties it reads;"
  " (STATE-alias / STATE-global) no function of the anchored modules mutates a module- or class-level container, rebinds module / class state or mutates a mutable default argument, so a result never depends on earlier calls;"
  " (PAIR-compute) every uncomputed value copied onto the ISD element is registered, with the same property, in the set handed to _compute_styles;"
  ' (ORD-postorder) the recursive pruning of empty spans decides whether a child is empty only after it has unconditionally recursed into that child, so a span whose content is pruned does not survive childless;'
  ' (ORD-style) animation, specified, inherited and initial values are applied and the styles computed before display=none prunes the element and before the children are visited (a display value can come from any of these sources);'
  ' (TRAV-rec) every function that walks the tree by calling itself on the children reaches that child loop on every path (the three walkers that prune by design are tabled with the rules that decide their pruning);'
  ' (LINT-l) no tuple / list / set display of the anchored modules lists the same computed component twice and no dict display repeats a key (a key or fingerprint built that way cannot tell apart what the missing component would have);'
  ' (STATE-share) no assignment stores a container field of one object (a field the package updates in place) into a field of another object without copying it, so an in-place update of one object never changes another;'
  " (ITEM-source) an object built once per item of an inner loop is filled only with values that derive from that item or do not vary with the loops, never with a value of the enclosing container standing where the item's own belongs;"
  ' (LOOP-break) no loop over the items of a collection is left by a branch that does nothing but `break` on a test about the item (end-of-input sentinels, flags set in the loop body and searches whose variable is read afterwards excepted): an item that is to be skipped does not end the processing of the items after it;'
  ' (FIN-regex) the white-space collapsing substitution treats exactly SPACE, TAB, CR and LF as linear white space (NBSP, ideographic and em spaces, VT and FF are characters);'
  + common.SHARED_CLAUSES['validators']
  + " (FIN-lwsp) the white-space step of _process_element (run of text, linear white space, pruning), interpreted on sample paragraphs: runs collapse to one space, white space at the start / after a break and at the end / before a break goes, and a text node left or found empty disappears together with every span it leaves without children;"
  + " (PRUNE-sites) every `return None` of ISD._process_element is one of the grounds for leaving an element out of a snapshot - inactive at the offset, another region, display=none, the final emptiness rule; any other site, evaluated over every element kind with and without children, drops only what the final rule would drop (never an element with children, never an empty part of a ruby container);"
  + " (TAB-styles, shared with C03) the table of style properties - inherited or not, initial value, applicability - equals TTML2's;"
)
RULE_TEXT = "per length-bearing property, per mutator call on ISD-owned values, per return site, per document parameter"
UNDECIDED = ["white-space collapsing results", "emptiness pruning as semantics (no empty text node, no childless span)",
             "regions without content are present only when their background is always shown, as a value statement"]
TRUSTED = ["doc/isd.md", "provenance abstraction of rules/pur.py"]

SP = "ttconv.style_properties"


def length_bearing_types(ix):
  """Dataclasses of style_properties.py that (transitively) contain a LengthType field."""
  m = ix.mod(SP)
  classes = [c for c in ix.classes.values() if c.module is m and c.is_dataclass]
  bearing = {"LengthType"}
  changed = True
  while changed:
    changed = False
    for c in classes:
      if c.name in bearing:
        continue
      for fld, ann in c.ann.items():
        txt = unparse(ann)
        if any(b in txt.replace("TextShadowType.Shadow", "Shadow") for b in bearing):
          bearing.add(c.name)
          changed = True
          break
  return bearing


def check_lengths(ctx):
  ix = ctx.ix
  m = ix.mod(SP)
  ctx.unit(m)
  bearing = length_bearing_types(ix)
  props = ix.cls(f"{SP}:StyleProperties")
  procs = isdrules.processors(ix)
  order = isdrules.ordered_props(ix)
  n = 0
  for name, c in sorted(props.nested.items()):
    v = c.methods.get("validate")
    if v is None:
      continue
    tested = set()
    for node in own_nodes(v.node):
      if isinstance(node, ast.Call) and isinstance(node.func, ast.Name) and node.func.id == "isinstance" and len(node.args) == 2:
        spec = node.args[1]
        for e in (spec.elts if isinstance(spec, ast.Tuple) else [spec]):
          tested.add(unparse(e).split(".")[-1])
    if not (tested & bearing):
      continue
    n += 1
    p = procs.get(name)
    has_compute = p is not None and "compute" in p.methods
    ctx.check(has_compute and name in order, "TAB-lengths", f"StyleProcessors.{name}|compute", ctx.where(p.module, p.node) if p else m.rel,
              f"{name} carries lengths ({sorted(tested & bearing)}) and has a scheduled compute()",
              f"{name} values contain lengths ({sorted(tested & bearing)}) but StyleProcessors.{name} has no compute() scheduled in "
              "_ORDERED_STYLE_PROPS: snapshots keep its specified units (px, %, c, em) instead of rh/rw")
    if not has_compute:
      continue
    # what the compute() stores
    comp = p.methods["compute"]
    stores = [cc for cc in own_nodes(comp.node) if isinstance(cc, ast.Call) and isinstance(cc.func, ast.Attribute) and cc.func.attr == "set_style" and len(cc.args) == 2]
    if not stores:
      ctx.bad("TAB-lengths", f"StyleProcessors.{name}.compute|stores a value", ctx.where(comp.module, comp.node), f"{name}.compute never stores a computed value")
      continue
    for sc in stores:
      bad = uncomputed_lengths(ix, comp, sc.args[1])
      ctx.check(not bad, "TAB-lengths", f"StyleProcessors.{name}.compute|{short(sc.args[0], 40)} stored from computed lengths", ctx.where(comp.module, sc),
                "every length component of the stored value is a computed (root-relative) length",
                f"{name}.compute stores length components that are not the result of _compute_length / _make_r?_length: {bad}")
  ctx.floor("TAB-lengths", "length-bearing style properties", n, 8)


def _defs_of(comp, name):
  out = []
  for st in own_nodes(comp.node):
    if isinstance(st, ast.Assign) and any(isinstance(t, ast.Name) and t.id == name for t in st.targets):
      out.append((st, st.value))
    elif isinstance(st, ast.AnnAssign) and isinstance(st.target, ast.Name) and st.target.id == name and st.value is not None:
      out.append((st, st.value))
    elif isinstance(st, ast.Call) and isinstance(st.func, ast.Attribute) and st.func.attr == "append" and unparse(st.func.value) == name:
      for a in st.args:
        out.append((st, a))
  return out


def _special_guarded(st, name):
  """Is statement `st` inside the true branch of `if <name> is/== <SpecialValues member>`?"""
  cur, par = st, getattr(st, "_parent", None)
  while par is not None and not isinstance(par, (ast.FunctionDef,)):
    if isinstance(par, ast.If):
      rel = match.relation(par.test, lambda e: unparse(e) == name, lambda e: "SpecialValues." in unparse(e))
      if (rel in ("is", "==") and any(x is cur for x in par.body)) or (rel in ("is not", "!=") and any(x is cur for x in par.orelse)):
        return True
    cur, par = par, getattr(par, "_parent", None)
  return False


def uncomputed_lengths(ix, comp, expr, depth=0, seen=None):
  """Length-valued sub-expressions of a stored value that are not known to be root-relative.
  Accepted: _compute_length / _make_rh_length / _make_rw_length results; LengthType(v, X.units)
  with X accepted; components (x, y, width, height ...) of another property read with
  get_style (computed earlier, rule TAB-compute-order); None; the input value itself where it is
  a SpecialValues member (guarded); constructors of style dataclasses whose length fields are
  accepted."""
  seen = seen if seen is not None else set()
  if depth > 8:
    return [short(expr)]
  if isinstance(expr, ast.Constant):
    return []
  if isinstance(expr, ast.IfExp):
    return uncomputed_lengths(ix, comp, expr.body, depth + 1, seen) + uncomputed_lengths(ix, comp, expr.orelse, depth + 1, seen)
  if isinstance(expr, ast.Call):
    fn = unparse(expr.func)
    if fn in ("_compute_length", "_make_rh_length", "_make_rw_length"):
      return []
    if isinstance(expr.func, ast.Attribute) and expr.func.attr == "get_style":
      p = unparse(expr.args[0]) if expr.args else ""
      return [f"{short(expr)} (the uncomputed input value)"] if p == "cls.style_prop" else []
    if fn in ("tuple", "list") and expr.args:
      return uncomputed_lengths(ix, comp, expr.args[0], depth + 1, seen)
    r = ix.resolve(comp.module, expr.func, cls=comp.cls, func=comp)
    if isinstance(r, ClassInfo) and r.is_dataclass:
      if r.name == "LengthType":
        units = None
        for kw in expr.keywords:
          if kw.arg == "units":
            units = kw.value
        if units is None and len(expr.args) == 2:
          units = expr.args[1]
        if units is None:
          return [f"{short(expr)} (default % units)"]
        if unparse(units).endswith(("Units.rh", "Units.rw")):
          return []
        if isinstance(units, ast.Attribute) and units.attr == "units":
          return uncomputed_lengths(ix, comp, units.value, depth + 1, seen)
        return [short(expr)]
      # a style dataclass: check the arguments bound to length-bearing fields
      fields = [n for n in r.field_order if n in r.ann and n not in r.nested]
      out = []
      bound = list(zip(fields, expr.args)) + [(k.arg, k.value) for k in expr.keywords]
      for fname, a in bound:
        ann = unparse(r.ann.get(fname)) if fname in r.ann else ""
        if "LengthType" in ann or "Shadow" in ann or "Tuple" in ann:
          out += uncomputed_lengths(ix, comp, a, depth + 1, seen)
      return out
    return []
  if isinstance(expr, ast.Name):
    if expr.id in seen:
      return []
    seen = seen | {expr.id}
    defs_ = _defs_of(comp, expr.id)
    out = []
    for st, d in defs_:
      if isinstance(d, ast.Name) and _special_guarded(st, d.id):
        continue
      if isinstance(d, (ast.List, ast.Tuple)) and not d.elts:
        continue
      out += uncomputed_lengths(ix, comp, d, depth + 1, seen)
    return out
  if isinstance(expr, ast.Attribute):
    base = expr.value
    if isinstance(base, ast.Name):
      defs_ = _defs_of(comp, base.id)
      # component of the *input* value (value.length, style_value.height, shadow.x_offset): uncomputed
      for st, d in defs_:
        if isinstance(d, ast.Call) and isinstance(d.func, ast.Attribute) and d.func.attr == "get_style" and d.args and unparse(d.args[0]) in ("cls.style_prop",):
          return [f"{unparse(expr)} (component of the uncomputed input value)"]
      for lp in own_nodes(comp.node):
        if isinstance(lp, ast.For) and unparse(lp.target) == base.id:
          return [f"{unparse(expr)} (component of the uncomputed input value)"]
      if not defs_ and base.id not in seen:
        return []
      return uncomputed_lengths(ix, comp, base, depth + 1, seen)
    return uncomputed_lengths(ix, comp, base, depth + 1, seen)
  return []


def check_return_sites(ctx):
  ix = ctx.ix
  mk = isdrules.Markers(ix)
  f = mk.f
  ctx.unit(f.module)
  if "drop-inapplicable" not in mk.m:
    ctx.bad("ORD-applicable", f"{f.qualname}|inapplicable styles are removed", ctx.where(f.module, f.node),
            "_process_element has no loop removing styles for which is_style_applicable() is false: snapshot elements carry inapplicable properties")
    return
  cfg = CFG(f.node)
  dom = cfg.dominators()
  lp = mk.m["drop-inapplicable"]
  lid = cfg.node_of(lp)
  rets = [r for r in own_nodes(f.node) if isinstance(r, ast.Return) and r.value is not None and unparse(r.value) == "isd_element"]
  ctx.floor("ORD-applicable", "`return isd_element` sites", len(rets), 1)
  for r in rets:
    ctx.check(lid in dom.get(cfg.node_of(r), ()), "ORD-applicable", f"{f.qualname}|return at +{r.lineno - f.node.lineno} follows the applicability filter",
              ctx.where(f.module, r), "dominated by the inapplicable-style removal", "an ISD element is returned without passing the removal of inapplicable styles")
  body = unparse(lp)
  it_txt = unparse(lp.iter)
  materialised = it_txt.startswith(("list(", "tuple(")) or isinstance(lp.iter, ast.ListComp)     # the styles are copied before any is removed
  ok = materialised and "isd_element.iter_styles()" in it_txt and "not isd_element.is_style_applicable" in body and "set_style(style_prop, None)" in body.replace(unparse(lp.target), "style_prop")
  ctx.check(ok, "ORD-applicable", f"{f.qualname}|removes exactly the inapplicable styles", ctx.where(f.module, lp), "for each style: if not applicable -> set_style(p, None)",
            "the applicability filter no longer removes exactly the styles for which is_style_applicable() is false")
  # every property gets a value on styled kinds (initial loop over ALL, unguarded except for Br/Text)
  il = mk.m.get("initial")
  if il is None:
    ctx.bad("ORD-applicable", f"{f.qualname}|initial values for all properties", ctx.where(f.module, f.node), "no loop over StyleProperties.ALL fills in initial values")
  else:
    par = getattr(il, "_parent", None)
    ok = isinstance(par, ast.If) and unparse(par.test).replace(" ", "") in ("notisinstance(element,(model.Br,model.Text))",)
    ctx.check(ok, "ORD-applicable", f"{f.qualname}|all properties receive a value except on br and text", ctx.where(f.module, il),
              "initial loop guarded only by `not isinstance(element, (Br, Text))`", f"the initial-value loop is guarded by `{unparse(par.test) if isinstance(par, ast.If) else None}`")
  # display none
  d = mk.m.get("display-none")
  ctx.check(d is not None and isinstance(d.body[-1], ast.Return) and (d.body[-1].value is None or unparse(d.body[-1].value) == "None"), "ORD-display",
            f"{f.qualname}|display=none -> None", ctx.where(f.module, d if d is not None else f.node), "returns None", "elements computing to display=none are not pruned")
  # lwsp
  calls = [c for c in own_nodes(f.node) if isinstance(c, ast.Call) and isinstance(c.func, ast.Name) and c.func.id in ("_construct_text_list", "_process_lwsp", "_prune_empty_spans")]
  names = [c.func.id for c in calls]
  guard_ok = False
  if calls:
    par = getattr(getattr(calls[0], "_parent", None), "_parent", None)
    guard_ok = isinstance(par, ast.If) and all(k in unparse(par.test) for k in ("model.P", "model.Rt", "model.Rtc"))
  ctx.check(names == ["_construct_text_list", "_process_lwsp", "_prune_empty_spans"] and guard_ok, "ORD-lwsp", f"{f.qualname}|white space then empty-span pruning on p / rt / rtc",
            ctx.where(f.module, calls[0] if calls else f.node), "text list -> LWSP -> prune, for P, Rt, Rtc", f"white-space processing sequence is {names}, guard ok: {guard_ok}")


def check_position(ctx):
  ix = ctx.ix
  comp = ix.func("ttconv.isd:StyleProcessors.Position.compute")
  ctx.unit(comp.module)
  sets = [c for c in own_nodes(comp.node) if isinstance(c, ast.Call) and isinstance(c.func, ast.Attribute) and c.func.attr == "set_style" and len(c.args) == 2]
  by_prop = {}
  for c in sets:
    by_prop.setdefault(unparse(c.args[0]).split(".")[-1], []).append(c)
  # path 1: only Position is stored, from origin.x / origin.y
  p1 = [c for c in by_prop.get("Position", []) if "origin.x" in unparse(c.args[1])]
  ok1 = len(p1) == 1 and "h_offset=origin.x" in unparse(p1[0].args[1]).replace(" ", "") and "v_offset=origin.y" in unparse(p1[0].args[1]).replace(" ", "")
  ctx.check(ok1, "DEP-position", f"{comp.qualname}|no position specified: position := origin", ctx.where(comp.module, comp.node),
            "PositionType(h_offset=origin.x, v_offset=origin.y)", "when no position is specified, Position must be stored from the computed origin's x / y")
  # path 2: Origin and Position from the same two names
  o2 = [c for c in by_prop.get("Origin", [])]
  p2 = [c for c in by_prop.get("Position", []) if c not in p1]
  ok2 = False
  if len(o2) == 1 and len(p2) == 1:
    def kw(call, k):
      for x in call.args[1].keywords:
        if x.arg == k:
          return unparse(x.value)
      return None
    ok2 = kw(o2[0], "x") == kw(p2[0], "h_offset") and kw(o2[0], "y") == kw(p2[0], "v_offset") and kw(o2[0], "x") is not None and kw(o2[0], "x") != kw(o2[0], "y")
    # default edges: the stored position must not carry right/bottom edges
    ok2 = ok2 and not any(x.arg in ("h_edge", "v_edge") for x in p2[0].args[1].keywords)
  ctx.check(ok2, "DEP-position", f"{comp.qualname}|position specified: origin and position from the same lengths", ctx.where(comp.module, comp.node),
            "Origin(x=h, y=v) and Position(h_offset=h, v_offset=v) with left/top edges", "origin and position are no longer stored from the same two computed lengths")


def check_doc_params(ctx):
  ix = ctx.ix
  doc = ix.cls("ttconv.model:Document")
  setters = sorted(n for n in doc.methods if n.startswith("set_"))
  ctx.floor("DSP-params", "document parameter setters", len(setters), 5)
  init = ix.func("ttconv.isd:ISD.__init__")
  ctx.unit(init.module)
  src = init.params[1]
  for s in setters:
    getter = "get_" + s[4:]
    ok = any(isinstance(c, ast.Call) and unparse(c.func) == f"self.{s}" and len(c.args) == 1 and unparse(c.args[0]) == f"{src}.{getter}()" for c in own_nodes(init.node))
    ctx.check(ok, "DSP-params", f"{init.qualname}|{s}({src}.{getter}())", ctx.where(init.module, init.node), "copied from the source document",
              f"ISD.__init__ does not copy the document parameter via self.{s}({src}.{getter}()): snapshots lose or change it")


def check_compute_bookkeeping(ctx):
  """PAIR-compute: every style value that _process_element (or a helper it calls before style computation) copies onto
  the ISD element from an uncomputed source (animation step, specified style, initial value, direction semantics) is
  registered, with the same property, in the set handed to _compute_styles - otherwise its lengths stay in the source
  units.  Path rule: the registration dominates the copy, or follows it on every path to the end of the loop iteration /
  function.  Sets that flow into the computed set (returned by a helper, assigned, merged) count as that set."""
  from ..cfg import CFG
  ix = ctx.ix
  pe = ix.func("ttconv.isd:ISD._process_element")
  ctx.unit(pe.module)
  comp = [c for c in own_nodes(pe.node) if isinstance(c, ast.Call) and unparse(c.func).endswith("_compute_styles")]
  if len(comp) != 1 or not comp[0].args or not isinstance(comp[0].args[0], ast.Name):
    raise AnalysisError("_process_element: the _compute_styles(<set>, ...) call was not found")
  sname = comp[0].args[0].id
  isd_el = unparse(comp[0].args[-1])

  def top(fn, n):
    for i, st in enumerate(fn.node.body):
      if any(x is n for x in ast.walk(st)):
        return i
    return -1
  ctop = top(pe, comp[0])
  # helpers of the module called before the computation that receive the ISD element
  work = [(pe, isd_el, {sname}, ctop)]
  for c in own_nodes(pe.node):
    if isinstance(c, ast.Call) and 0 <= top(pe, c) < ctop:
      r = ix.resolve(pe.module, c.func, cls=pe.cls, func=pe)
      if r is not None and getattr(r, "module", None) is pe.module and hasattr(r, "params") and r is not pe and r.name not in ("_make_absolute", "_compute_styles"):
        off = 0
        for i, a_ in enumerate(c.args):
          if unparse(a_) == isd_el and i + off < len(r.params):
            # sets of the helper: those it returns (the caller merges them) or receives from the caller's set
            sets = {unparse(x.value) for x in own_nodes(r.node) if isinstance(x, ast.Return) and isinstance(x.value, ast.Name)}
            for j, b_ in enumerate(c.args):
              if unparse(b_) == sname and j < len(r.params):
                sets.add(r.params[j])
            work.append((r, r.params[i + off], sets, 10 ** 6))
  n = 0
  for (fn, el, sets, limit) in work:
    # aliases: names assigned into / merged into the set
    changed = True
    while changed:
      changed = False
      for st in own_nodes(fn.node):
        if isinstance(st, ast.Assign) and len(st.targets) == 1 and isinstance(st.targets[0], ast.Name) and st.targets[0].id in sets:
          for x in ast.walk(st.value):
            if isinstance(x, ast.Name) and x.id not in sets and x.id not in fn.params:
              sets.add(x.id)
              changed = True
        if isinstance(st, ast.Call) and isinstance(st.func, ast.Attribute) and st.func.attr in ("update", "union") and unparse(st.func.value) in sets:
          for a_ in st.args:
            if isinstance(a_, ast.Name) and a_.id not in sets:
              sets.add(a_.id)
              changed = True
        if isinstance(st, ast.AugAssign) and unparse(st.target) in sets and isinstance(st.value, ast.Name) and st.value.id not in sets:
          sets.add(st.value.id)
          changed = True
    cfg = CFG(fn.node)
    dom = cfg.dominators()
    for c in own_nodes(fn.node):
      if not (isinstance(c, ast.Call) and isinstance(c.func, ast.Attribute) and c.func.attr == "set_style" and unparse(c.func.value) == el and len(c.args) == 2 and top(fn, c) < limit):
        continue
      if isinstance(c.args[1], ast.Constant) and c.args[1].value is None:
        continue
      prop = unparse(c.args[0])
      adds = [x for x in own_nodes(fn.node) if isinstance(x, ast.Call) and isinstance(x.func, ast.Attribute) and x.func.attr == "add" and unparse(x.func.value) in sets and x.args and unparse(x.args[0]) == prop]
      cn = cfg.stmt_node_containing(c)
      an = {cfg.stmt_node_containing(x) for x in adds}
      an.discard(None)
      ok = any(a_ in dom.get(cn, ()) for a_ in an)
      if not ok and an:
        # every way out of this iteration (loop head) or of the function passes a registration
        loop = next((p_ for p_ in _anc(c) if isinstance(p_, (ast.For, ast.While))), None)
        targets = [cfg.exit] + ([cfg.node_of(loop)] if loop is not None and cfg.node_of(loop) is not None else [])
        ok = not any(cfg.paths_avoiding(cn, t_, an, skip_exc=True) for t_ in targets)
      n += 1
      ctx.check(ok, "PAIR-compute", f"{fn.qualname}|{short(c, 60)}", ctx.where(fn.module, c), f"`{prop}` is added to {sorted(sets)} on every path through this copy",
                f"`{short(c, 70)}` copies an uncomputed value onto the ISD element but `{prop}` is not added to the set of properties to compute ({sorted(sets)}) on every path through it: "
                f"the value is never computed (lengths stay in %, em, c or px)")
  ctx.floor("PAIR-compute", "uncomputed style copies in _process_element", n, 3)


def _anc(node):
  cur = getattr(node, "_parent", None)
  while cur is not None:
    yield cur
    cur = getattr(cur, "_parent", None)


def check_text_roots(ctx):
  """White space handling and empty-span pruning start at every element that establishes its own
  run of text: p, and rt (whose text _construct_text_list leaves out of the enclosing paragraph's
  run), whatever its parent; and at no element inside such a run (span, br, text, ruby, rb, rbc)."""
  ix = ctx.ix
  pe = ix.func("ttconv.isd:ISD._process_element")
  guards = [n for n in own_nodes(pe.node) if isinstance(n, ast.If) and any(isinstance(s_, ast.Expr) and isinstance(s_.value, ast.Call) and unparse(s_.value.func).endswith("_construct_text_list") for s_ in n.body)]
  if len(guards) != 1:
    raise AnalysisError(f"_process_element: expected one guarded call of _construct_text_list, found {len(guards)}")
  g = guards[0]
  ctl = ix.func("ttconv.isd:_construct_text_list")
  # the run of text of a paragraph: by interpretation on a sample paragraph (whatever the control structure of the walk)
  from ..consteval import NotConst as _NC, Raised as _R
  from ..rules.minieval import MiniEval, Node
  T = lambda nm, tx: Node("Text", nm, (), text=tx)
  sample = Node("P", "p", [
    Node("Span", "s1", [T("a", "a"), Node("Ruby", "ruby", [
      Node("Rb", "rb", [T("b", "b")]), Node("Rt", "rt1", [T("c", "c")]),
      Node("Rtc", "rtc", [Node("Rp", "rp1", [T("lp", "(")]), Node("Rt", "rt2", [T("d", "d")]), Node("Rp", "rp2", [T("rp", ")")])])])]),
    Node("Br", "br", ()), T("empty", ""), Node("Span", "s2", [Node("Span", "s3", [T("e", "e")]), T("f", "f")]), T("g", "g")])
  want = ["a", "b", "br", "e", "f", "g"]
  key_ = f"{ctl.qualname}|ruby text is not part of the paragraph's run"
  try:
    out_ = []
    MiniEval(ix, node_methods={"get_text": lambda n_: n_.fields.get("text")}).call(ctl, [sample, out_])
    got = [n_.name for n_ in out_ if isinstance(n_, Node)]
    ctx.check(got == want, "TYPE-GUARD", key_, ctx.where(ctl.module, ctl.node), f"interpreted on a sample paragraph: {got}",
              f"interpreted on a sample paragraph (spans, a ruby container with rb, rt and rtc > rp rt rp, a br, an empty text node), _construct_text_list collects {got} instead of {want}: "
              "the run of text of a paragraph is its non-empty text nodes and line breaks in document order, without the text of ruby annotations (rt, rtc, rp)")
  except _R:
    ctx.bad("TYPE-GUARD", key_, ctx.where(ctl.module, ctl.node), "interpreted on a sample paragraph, _construct_text_list raises")
  except _NC as ex_:
    ctx.undecide("TYPE-GUARD", f"{ctl.qualname}: not in the interpreted subset ({ex_})")
  model_mod = ix.mod("ttconv.model")
  base = ix.cls("ttconv.model:ContentElement")
  concrete = [c for c in ix.all_subclasses(base) if c.module is model_mod and c.name in cm_oracle.ALLOWED_CHILDREN]
  region = ix.cls("ttconv.isd:ISD.Region")
  elems = concrete + [region]
  subj = None
  for n in ast.walk(g.test):
    if isinstance(n, ast.Call) and unparse(n.func) == "isinstance" and isinstance(n.args[0], ast.Name):
      subj = subj or n.args[0].id
  names = {subj: elems}
  for n in ast.walk(g.test):
    if isinstance(n, ast.Name) and n.id != subj and n.id in pe.params:
      names[n.id] = elems + [None]

  def oracle(**env):
    c = env[subj]
    if c.name in ("P", "Rt"):
      return True
    if c.name == "Rtc":
      return None   # its only text-bearing children are rt / rp, which are not part of its run
    return False
  trav.check_type_guard(ctx, pe, g.test, names, oracle, "TYPE-GUARD", f"{pe.qualname}|white space is processed at every text root", ctx.where(pe.module, g),
                        "white-space handling starts at p and at every rt")


def run(ctx):
  from . import c03 as _c03b
  _c03b.check_style_tables(ctx)
  from ..rules import isdrules as _isdr
  ctx.floor("PRUNE-sites", "`return None` sites of _process_element", _isdr.check_prune_sites(ctx, ctx.ix.func("ttconv.isd:ISD._process_element")), 4)
  from ..rules import probes as _probes
  ctx.floor("FIN-lwsp", "sample paragraphs decided", _probes.check_lwsp_block(ctx), 7)
  common.check_shared_helpers(ctx, validators=True)
  ix = ctx.ix
  check_lengths(ctx)
  prov, ps, fs = c14.build_provenance(ctx)
  isd_fs = [f for f in fs if f.module.name == "ttconv.isd"]
  n = pur.check_isd_ownership(ctx, prov, isd_fs)
  ctx.floor("OWN-isd", "timing / animation / region / copy_to call sites in isd.py", n, 3)
  from ..selfcheck import own_isd_fixture_matches
  ctx.check(own_isd_fixture_matches(ix), "OWN-isd", "fixture|timing on an ISD-owned element is detected", "ttverif/fixtures/isd_owned_timing.py",
            "the rule still matches its positive fixture", "OWN-isd no longer matches its positive fixture (rule broken)")
  # the ISD element is owned by the ISD
  pe = ix.func("ttconv.isd:ISD._process_element")
  ctors = [st for st in own_nodes(pe.node) if isinstance(st, ast.Assign) and unparse(st.targets[0]) == "isd_element"]
  ok = len(ctors) == 2 and all(isinstance(st.value, ast.Call) and unparse(st.value.args[-1]) == "isd" for st in ctors)
  ctx.check(ok, "OWN-isd", f"{pe.qualname}|ISD elements are created with the ISD as their document", ctx.where(pe.module, pe.node),
            "ISD.Region(id, isd) / element.__class__(isd)", "ISD elements are no longer created with the ISD as their owning document")
  check_return_sites(ctx)
  check_position(ctx)
  check_doc_params(ctx)
  # ISD region content model
  isd_region = ix.cls("ttconv.isd:ISD.Region")
  pc = isd_region.methods.get("push_child")
  tested = {ix.classes[q].name for q in dsp.isinstance_classes(ix, pc)} if pc else set()
  has_one = pc is not None and any(isinstance(n_, ast.If) and "has_children" in unparse(n_.test) and isinstance(n_.body[-1], ast.Raise) for n_ in own_nodes(pc.node))
  ctx.check(tested == cm_oracle.ISD_REGION_CHILDREN and has_one, "TAB-content", "ttconv.isd:ISD.Region|children", ctx.where(isd_region.module, isd_region.node),
            "ISD regions admit exactly one Body", f"ISD.Region.push_child admits {sorted(tested)} (at-most-one guard: {has_one}); must admit exactly one Body")
  check_text_roots(ctx)
  check_compute_bookkeeping(ctx)
  pe = ctx.ix.func("ttconv.isd:ISD._process_element")
  nc = trav.check_decisions_read_computed(ctx, pe, {pe.params[-1], "selected_region", "inherited_region", "associated_region"},
                                          lambda n: isinstance(n, ast.Call) and unparse(n.func).endswith("_compute_styles"))
  ctx.floor("COMPUTED", "style-dependent decisions after style computation", nc, 2)
  # computed lengths are root-relative only if every compute() sees already-computed dependencies
  isdrules.check_compute_order(ctx)
  npo = sum(trav.check_postorder_emptiness(ctx, g) for g in ctx.ix.funcs_in("ttconv.isd"))
  ctx.floor("ORD-postorder", "recursive pruning steps that test a child's emptiness", npo, 1)
  isdrules.check_style_order(ctx)
  common.check_walkers(ctx, ["ttconv.isd"])
  common.check_regex_probes(ctx, ["ttconv.isd"], floor=1)
  common.check_history_independence(ctx, common.CORE)
