"""Shared slots for the property checkers: module groups and scoped function lists."""
from __future__ import annotations

import ast

import typing

from ..core import AnalysisError, FuncInfo

READERS = ["ttconv.imsc.reader", "ttconv.imsc.elements", "ttconv.imsc.attributes", "ttconv.imsc.utils",
           "ttconv.imsc.style_properties", "ttconv.utils",
           "ttconv.scc.reader", "ttconv.scc.line", "ttconv.scc.context", "ttconv.scc.caption_paragraph",
           "ttconv.scc.caption_line", "ttconv.scc.caption_text", "ttconv.scc.word", "ttconv.scc.utils",
           "ttconv.scc.caption_style", "ttconv.scc.disassembly",
           "ttconv.stl.reader", "ttconv.stl.datafile", "ttconv.stl.tf", "ttconv.stl.iso6937",
           "ttconv.srt.reader", "ttconv.vtt.reader", "ttconv.vtt.tokenizer"]
WRITERS = ["ttconv.imsc.writer", "ttconv.srt.writer", "ttconv.srt.paragraph", "ttconv.srt.style",
           "ttconv.vtt.writer", "ttconv.vtt.cue", "ttconv.vtt.style", "ttconv.vtt.css_class"]
ISD_FILTERS = ["ttconv.filters.isd.merge_regions", "ttconv.filters.isd.merge_paragraphs",
               "ttconv.filters.isd.supported_style_properties", "ttconv.filters.isd.default_style_properties",
               "ttconv.filters.supported_style_properties"]
DOC_FILTERS = ["ttconv.filters.doc.lcd", "ttconv.filters.remove_animations", "ttconv.filters.supported_style_properties",
               "ttconv.filters.document_filter"]
CORE = ["ttconv.model", "ttconv.isd", "ttconv.style_properties", "ttconv.time_code"]
TIME_MODULES = ["ttconv.time_code"]
TIME_FUNCS = ["ttconv.imsc.attributes:to_time_format", "ttconv.imsc.utils:parse_time_expression",
              "ttconv.vtt.reader:vtt_timestamp_to_secs"]


def mods(ctx, names: typing.Iterable[str]):
  return [ctx.ix.mod(n) for n in names]


def funcs(ctx, names: typing.Iterable[str]) -> typing.List[FuncInfo]:
  out = []
  for n in names:
    out += ctx.ix.funcs_in(n)
  return out


def scope(ctx, quick_names, thorough_all=True):
  """Quick: the anchored modules. Thorough: the whole package (a violating construct added in a
  non-anchored module is still found)."""
  if ctx.tier == "thorough" and thorough_all:
    return list(ctx.ix.modules.values())
  return mods(ctx, quick_names)


def scope_funcs(ctx, quick_names, thorough_all=True):
  if ctx.tier == "thorough" and thorough_all:
    return list(ctx.ix.funcs.values())
  return funcs(ctx, quick_names)


def time_trunc_scope(ctx):
  names = set(TIME_FUNCS)

  def pred(f: FuncInfo) -> bool:
    return f.module.name in TIME_MODULES or f.qualname in names
  for q in TIME_FUNCS:
    ctx.ix.func(q)
  return pred


def _whole_seconds_times_rate(ex, f, call, env) -> bool:
  """int(<float of a whole number of seconds> * <frame rate that is an int or a Fraction>), whichever way the rate is named."""
  from ..rules import exa
  a = call.args[0] if len(call.args) == 1 else None
  if not (isinstance(a, ast.BinOp) and isinstance(a.op, ast.Mult)):
    return False
  for x, y in ((a.left, a.right), (a.right, a.left)):
    if ex.kind(f, x, env) <= {exa.IFLOAT} and ex.kind(f, y, env) <= {exa.INT, exa.FRAC}:
      return True
  return False


EXA_EXEMPT = {
  ("ttconv.time_code:SmpteTimeCode.to_frames", _whole_seconds_times_rate):
    "float(<int seconds>) times a frame rate that is an int (drop-frame branch, ceil) or an integer-valued Fraction "
    "(non-drop rates 24/25/30/50/60): the product is an exact integer below 2**53",
}

DEF_EXEMPT = {
  ("ttconv.scc.caption_line:SccCaptionLine.get_leading_spaces", "first_text"):
    "the loop body runs at least once: _texts is seeded with one SccCaptionText by __init__ and by clear(), and no "
    "method removes the last element (checked by rule INV-nonempty in C18)",
}


# process-global state that is allowed to change (one line of reason each)
GLOBAL_CONTAINERS_OK = {
  "DocumentFilter._all_filters": "filter registry filled once per subclass at import time (__init_subclass__)",
}
PROCESS_STATE_OK = {
  "progress.display_progress_bar": "console progress handler switch (logging only; never reaches the output)",
}


def check_history_independence(ctx, module_names: typing.Iterable[str], rule_alias="STATE-alias", rule_global="STATE-global"):
  """Shared necessary condition of every `for all documents / inputs` property: the functions of
  the anchored modules keep no state between calls - no module- or class-level container is
  mutated, no module / class attribute is rebound, no mutable default argument is mutated.  With
  such state, the result for one input depends on which inputs were processed before."""
  from ..rules import shape
  names = [n for n in dict.fromkeys(module_names) if n in ctx.ix.modules]
  fs = [f for n in names for f in ctx.ix.funcs_in(n)]
  for n in names:
    ctx.unit(ctx.ix.modules[n])
  a = shape.check_no_global_mutation(ctx, fs, rule=rule_alias, allowed=GLOBAL_CONTAINERS_OK)
  b = shape.check_no_process_state(ctx, fs, rule=rule_global, allowed=PROCESS_STATE_OK)
  b += shape.check_no_memo_decorators(ctx, fs, rule=rule_global)
  ctx.ok(rule_global, f"{len(names)} modules|no process-global state is written", "src/main/python/ttconv", f"{len(fs)} functions scanned; {a + b} tabled exceptions")
  shape.check_pure_queries(ctx, [c for c in ctx.ix.classes.values() if c.module.name in names], summary=True)
  check_contradiction_lints(ctx, names)
  return len(fs)


def check_contradiction_lints(ctx, module_names: typing.Iterable[str]):
  """The package-wide lints whose expected count is zero (each with a positive fixture): LINT-l, STATE-share, LOOP-break,
  ITEM-source.  They state a contradiction inside the code, not a clause of a property; they are run on the modules a
  property is anchored in because such a contradiction makes some clause of it false."""
  from ..rules import shape
  names = [n for n in dict.fromkeys(module_names) if n in ctx.ix.modules]
  fs = [f for n in names for f in ctx.ix.funcs_in(n)]
  check_duplicates(ctx, names)
  ns = shape.check_no_shared_containers(ctx, fs)
  from ..selfcheck import state_share_fixture_matches
  ctx.check(state_share_fixture_matches(), "STATE-share", "fixture|a container field stored into another object uncopied is detected", "ttverif/fixtures/state_share.py",
            f"the rule still matches its positive fixture ({ns} assignments to container fields scanned)", "STATE-share no longer matches its positive fixture (rule broken)")
  from ..rules import lint as _lint
  from ..selfcheck import loop_break_fixture_matches
  nb = _lint.bare_break_in_item_loop(ctx, fs)
  ctx.check(loop_break_fixture_matches(), "LOOP-break", "fixture|a skip written as `break` is detected", "ttverif/fixtures/loop_break.py",
            f"the rule still matches its positive fixture ({nb} bare `break` branches classified)", "LOOP-break no longer matches its positive fixture (rule broken)")
  ni = shape.check_item_sources(ctx, fs)
  from ..selfcheck import item_source_fixture_matches
  ctx.check(item_source_fixture_matches(), "ITEM-source", "fixture|a container-level value put into every item is detected", "ttverif/fixtures/item_source.py",
            f"the rule still matches its positive fixture ({ni} fill calls on per-item objects scanned)", "ITEM-source no longer matches its positive fixture (rule broken)")
  return len(fs)


def check_duplicates(ctx, module_names: typing.Iterable[str]):
  """LINT-l on the given modules, with its positive fixture (the expected count on the repository is zero)."""
  from ..rules import lint
  from ..selfcheck import lint_l_fixture_matches
  lint.duplicate_components(ctx, mods(ctx, list(module_names)))
  ctx.check(lint_l_fixture_matches(), "LINT-l", "fixture|a component listed twice in a key is detected", "ttverif/fixtures/lint_l.py",
            "the rule still matches its positive fixture", "LINT-l no longer matches its positive fixture (rule broken)")


def check_item_handlers(ctx, module_names: typing.Iterable[str]):
  """LINT-j on the given modules, with its positive fixture (the expected count on the repository is zero)."""
  from ..rules import lint
  from ..selfcheck import lint_j_fixture_matches
  lint.handler_around_loop(ctx, mods(ctx, list(module_names)))
  ctx.check(lint_j_fixture_matches(), "LINT-j", "fixture|a tolerant handler around a loop is detected", "ttverif/fixtures/lint_j.py",
            "the rule still matches its positive fixture", "LINT-j no longer matches its positive fixture (rule broken)")


def check_numeric_fields(ctx, module_names: typing.Iterable[str]):
  """LINT-k on the classes of the given modules, with its positive fixture (expected count on the repository: zero)."""
  from ..rules import lint
  from ..selfcheck import lint_k_fixture_matches
  names = set(module_names)
  lint.numeric_field_truthiness(ctx, [c for c in ctx.ix.classes.values() if c.module.name in names])
  ctx.check(lint_k_fixture_matches(), "LINT-k", "fixture|a numeric field tested by truthiness is detected", "ttverif/fixtures/lint_k.py",
            "the rule still matches its positive fixture", "LINT-k no longer matches its positive fixture (rule broken)")


NULL_ARG_EXEMPT = {
  "ttconv.isd:StyleProcessors.|cls.style_prop": "compute() runs only for the properties in styles_to_be_computed, which _process_element fills with properties it has just set on the element",
}


def check_nullable_args(ctx, module_names: typing.Iterable[str], floor=1):
  """NUL-arg on the given modules."""
  from ..rules import nul
  n = nul.check_nullable_args(ctx, funcs(ctx, [m for m in module_names if m in ctx.ix.modules]), exempt=NULL_ARG_EXEMPT)
  ctx.floor("NUL-arg", "results of None-returning getters passed straight to a call", n, floor)
  return n


def check_optional_field_args(ctx, module_names: typing.Iterable[str], floor=1):
  """NUL-optarg on the given modules."""
  from ..rules import nul
  n = nul.check_optional_field_args(ctx, funcs(ctx, [m for m in module_names if m in ctx.ix.modules]))
  ctx.floor("NUL-optarg", "Optional record fields passed to a call", n, floor)
  return n


def check_known_none(ctx, module_names: typing.Iterable[str]):
  """NUL-known on the given modules, with its positive fixture (the expected count on the repository is zero)."""
  from ..rules import nul
  from ..selfcheck import nul_known_fixture_matches
  n = nul.check_known_none(ctx, funcs(ctx, [m for m in module_names if m in ctx.ix.modules]))
  ctx.check(nul_known_fixture_matches(), "NUL-known", "fixture|a dereference of a local known to be None is detected", "ttverif/fixtures/nul_known.py",
            f"the rule still matches its positive fixture ({n} None tests on locals followed)", "NUL-known no longer matches its positive fixture (rule broken)")
  return n


def check_regexes(ctx, module_names: typing.Iterable[str], whole=True, floor=1):
  """REGEX-whole (optional) and LINT-m on the compiled pattern constants of the given modules."""
  from ..rules import regexrules
  ms = mods(ctx, [m for m in module_names if m in ctx.ix.modules])
  n = 0
  if whole:
    n = regexrules.check_whole_value(ctx, ms)
    ctx.floor("REGEX-whole", "`.match` uses of compiled pattern constants", n, floor)
  k = regexrules.check_bare_dot_alternative(ctx, ms)
  ctx.ok("LINT-m", f"{len(ms)} modules|no alternation lists literals beside an unescaped `.`", "src/main/python/ttconv", f"{k} compiled patterns parsed")
  return n


def check_parsed_divisors(ctx, module_names: typing.Iterable[str], floor=1):
  """DIV-parsed on the given modules."""
  from ..rules import divrules
  names = [m for m in module_names if m in ctx.ix.modules]
  n = divrules.check_parsed_divisors(ctx, funcs(ctx, names), [c for c in ctx.ix.classes.values() if c.module.name in names])
  ctx.floor("DIV-parsed", "divisions by a field of a reader class", n, floor)
  return n


def check_regex_probes(ctx, module_names: typing.Iterable[str], floor=1):
  """FIN-regex: the probe table of oracles/regex_probes.py on the patterns of the given modules."""
  from ..rules import regexrules
  from ..oracles.regex_probes import PROBES
  n = regexrules.check_probes(ctx, [m for m in module_names if m in ctx.ix.modules], PROBES)
  ctx.floor("FIN-regex", "patterns with a probe table", n, floor)
  ctx.extra["finite_domain_evaluations"] = ctx.extra.get("finite_domain_evaluations", 0) + n
  return n


WALK_EXEMPT = {
  "ttconv.isd:ISD._process_element": "prunes by design: inactive, other-region and display=none elements end the walk below them (decided by CMP-activity, CMP-prune, ORD-display)",
  "ttconv.isd:_clone_doc_with_one_region.<locals>._copy_content_element": "prunes by region association (decided by CMP-prune, CLONE-prune)",
  "ttconv.imsc.elements:ContentElement.from_model": "returns None for model kinds that have no IMSC element (decided by DSP-writer)",
}


def check_walkers(ctx, module_names: typing.Iterable[str]):
  """TRAV-rec on the recursive tree walkers of the given modules."""
  from ..rules import trav
  return trav.check_recursive_walkers(ctx, funcs(ctx, [n for n in module_names if n in ctx.ix.modules]), exempt=WALK_EXEMPT)


SHARED_CLAUSES = {
  "color": " (FIN-color) the shared colour parser, interpreted on a table of <color> values (hex with and without alpha, alpha 00, rgb(), rgba(), named colours in any case) "
           "returns exactly those components, and raises ValueError - by an explicit raise, not by a failing conversion - on values with anything before or after a colour or with the wrong number of digits / components;",
  "text": " (ID-text) model.Text, interpreted on composed, decomposed and compatibility characters, stores the string it is given code point for code point (no normalisation between reader and writer);",
  "validators": " (VAL-strict) every style property whose type is an enumeration or bool rejects, interpreted, the raw tokens of the enumeration and the numbers 0 / 1, and LengthType rejects raw unit symbols "
                "and non-numbers: tests by identity (`is DisplayType.none`, `units is Units.px`) in the snapshot and the writers rely on that;",
  "chains": " (FIN-chain) chained referential styling, interpreted on small style graphs: own values win over referenced ones, later references over earlier ones, references of references are followed, a style reached along two paths is merged on both, unknown references are skipped and a loop of references ends;",
  "rubykids": " (FIN-rubykids) Ruby.push_children and Rtc.push_children, interpreted on sample child sequences, accept exactly the TTML2 ruby content models (rb rt | rb rp rt rp | rbc rtc | rbc rtc rtc; rt+ | rp rt+ rp);",
  "timing": " (ID-time) ContentElement.set_begin / set_end, interpreted on rationals with large denominators, 0 and None, store the offset given and get_begin / get_end return it unchanged;",
  "truthy": " (LINT-n) no result of a getter declared Optional[number] (get_begin, get_end, ...) and no parameter annotated so is tested by truthiness: 0 is a legal offset distinct from None;",
}


def check_shared_helpers(ctx, color=False, text=False, validators=False, truthy_modules=None, chains=False, rubykids=False, timing=False):
  """Value-level functions of the shared modules (utils, model, style_properties) that the anchored code relies on."""
  from ..rules import probes, lint as _lint
  if color:
    n = probes.check_color_parser(ctx)
    ctx.floor("FIN-color", "colour probes decided", n, 20)
  if text:
    n = probes.check_text_identity(ctx)
    ctx.floor("ID-text", "text probes decided", n, 10)
  if validators:
    n = probes.check_validators_strict(ctx)
    ctx.floor("VAL-strict", "validator probes decided", n, 60)
  if timing:
    n = probes.check_timing_setters(ctx)
    ctx.floor("ID-time", "offset probes decided", n, 10)
  if rubykids:
    n = probes.check_ruby_children(ctx)
    ctx.floor("FIN-rubykids", "ruby child sequences decided", n, 25)
  if chains:
    n = probes.check_style_chains(ctx)
    ctx.floor("FIN-chain", "style graph scenarios decided", n, 6)
  if truthy_modules:
    names = [n_ for n_ in dict.fromkeys(truthy_modules) if n_ in ctx.ix.modules]
    fs = [f for n_ in names for f in ctx.ix.funcs_in(n_)]
    _lint.optional_number_truthiness(ctx, fs)
    ctx.ok("LINT-n", f"{len(names)} modules|no optional number is tested by truthiness", "src/main/python/ttconv", f"{len(fs)} functions scanned")


def check_text_handlers(ctx, qualnames: typing.Iterable[str], rule="KEEP-text"):
  """The handlers that turn a run of cue text into model.Text nodes keep every character: they have no early exit that depends
  on the content of the text (a `return` / `continue` under strip() / isspace() / a pattern drops the white space that separates
  two tags), and what they store is the piece of the text itself, not a stripped or otherwise rewritten copy."""
  import ast
  from ..core import own_nodes, parent, short, unparse
  n = 0
  for q in qualnames:
    f = ctx.ix.func(q)
    ctx.unit(f.module)
    payload = [p for p in f.params if p != "self"]
    if not payload:
      raise AnalysisError(f"{q}: no payload parameter")
    pay = payload[0]
    n += 1
    key = f"{q}|every character of the text reaches a Text node"
    exits = [x for x in own_nodes(f.node) if isinstance(x, (ast.Return, ast.Continue, ast.Break, ast.Raise))]
    verdict = None
    for x in exits:
      conds = []
      cur = parent(x)
      while cur is not None and cur is not f.node:
        if isinstance(cur, (ast.If, ast.While)):
          conds.append(cur.test)
        cur = parent(cur)
      plain = all(unparse(t) in (f"not {pay}", f"{pay} == ''", f'{pay} == ""', f"len({pay}) == 0", f"not {pay}.value", f"{pay} is None", f"{pay}.value is None") for t in conds)
      if conds and plain:
        continue
      looks = any(isinstance(c, ast.Call) for t in conds for c in ast.walk(t))
      if looks or not conds:
        verdict = ("bad", x, conds)
        break
      verdict = verdict or ("und", x, conds)
    texts = [c for c in own_nodes(f.node) if isinstance(c, ast.Call) and unparse(c.func).endswith("Text") and c.args]
    if not texts:
      ctx.undecide(rule, f"{q}: no model.Text(..) construction found")
      continue
    rewritten = [c for c in texts if any(isinstance(a, ast.Call) and isinstance(a.func, ast.Attribute) and a.func.attr in ("strip", "lstrip", "rstrip", "replace", "lower", "upper", "title", "expandtabs")
                                          for a in ast.walk(c.args[-1]))]
    if verdict and verdict[0] == "bad":
      _k, x, conds = verdict
      ctx.bad(rule, key, ctx.where(f.module, x), f"{f.short} leaves by `{short(x, 30)}`" + (f" under `{short(conds[0], 60)}`" if conds else " unconditionally")
              + ": text that meets the test - white space between two tags, a line break - never becomes a Text node and is missing from the document")
    elif rewritten:
      ctx.bad(rule, key, ctx.where(f.module, rewritten[0]), f"{f.short} stores `{short(rewritten[0].args[-1], 50)}`, a rewritten copy of the text")
    elif verdict:
      ctx.undecide(rule, f"{q}: an early exit under `{short(verdict[2][0], 60)}` is not classified")
    else:
      ctx.ok(rule, key, ctx.where(f.module, f.node), f"{len(exits)} early exits, {len(texts)} Text constructions from the text itself")
  return n
