"""C10 - the SRT reader reproduces every cue's time, lines and formatting exactly."""
from __future__ import annotations

import ast
import re

from ..core import AnalysisError, own_nodes, short, unparse
from ..rules import lint, defs, dsp, exa, fmt, nul, shape
from . import common

EXPLANATION = (
  "(KEEP-text) handle_data has no exit that depends on the content of the text and stores the text itself; "
  "Decides, for every SRT input, these clauses: (EXA) cue begin/end reach the model as exact rationals - no binary float built by the "
  "reader's arithmetic reaches set_begin/set_end; (DEF) no reader state (e.g. the accumulated cue text) is read before it is "
  "assigned on some path, which is what a cue without text exercises; (NUL) an unmatched end tag cannot move the parser's "
  "insertion point above the paragraph (the value of parent() stored into the parser is guarded); (FMT) the timing line the SRT "
  "writer prints - ClockTime.__str__ with the separator SrtParagraph sets, joined by the literal arrow of SrtParagraph.to_string - is "
  "matched by the reader's _TIMECODE_RE with all eight groups recovering the printed fields, including 3-digit hours; (TAB-tags) "
  "every tag the SRT writer emits (srt/style.py literals) is one the reader's handle_starttag has a styling branch for."
  " (STATE-alias / STATE-global) no function of the anchored modules mutates a module- or class-level container, rebinds module / class state or mutates a mutable default argument, so a result never depends on earlier calls;"
  " (LINT-i) as in C04;"
  ' (DEF-local) no local of the SRT reader is read unassigned; (FIN-timeexpr) the cue time arithmetic equals h*3600 + m*60 + s + ms/1000 on a grid; (NUL-parent) parent walks stop at the paragraph;'
  ' (ORD-br / PAIR-span) a line break is appended to the open element before text continues, and every opened span is closed by its end tag;'
  ' (NUL-htmlattr) in subclasses of HTMLParser the value of an attribute, which is None for an attribute written without a value, is tested against None before it is passed on or dereferenced;'
  ' (LINT-l) no tuple / list / set display of the anchored modules lists the same computed component twice and no dict display repeats a key (a key or fingerprint built that way cannot tell apart what the missing component would have);'
  ' (STATE-share) no assignment stores a container field of one object (a field the package updates in place) into a field of another object without copying it, so an in-place update of one object never changes another;'
  " (ITEM-source) an object built once per item of an inner loop is filled only with values that derive from that item or do not vary with the loops, never with a value of the enclosing container standing where the item's own belongs;"
  ' (PAIR-close) every feed() of cue text to the HTMLParser-based text parser is followed by close() on every path, so the tail that HTMLParser holds back is delivered;'
  ' (LOOP-break) no loop over the items of a collection is left by a branch that does nothing but `break` on a test about the item (end-of-input sentinels, flags set in the loop body and searches whose variable is read afterwards excepted): an item that is to be skipped does not end the processing of the items after it;'
  ' (FIN-regex) the SubRip timing-line pattern and the colour patterns accept / reject the probe values written from the format description;'
  + common.SHARED_CLAUSES['color'] + common.SHARED_CLAUSES['text']
)
RULE_TEXT = "EXA/DEF/NUL: per call site / function; FMT: per sample timing line; TAB-tags: per writer tag literal"
UNDECIDED = ["tag scoping for nested/adjacent tags", "line splitting and blank-line handling", "counter tolerance"]
TRUSTED = ["stdlib re / format() on extracted literals"]


def check_fmt(ctx):
  ix = ctx.ix
  sk = fmt.Skeleton(ix)
  ct = ix.cls("ttconv.time_code:ClockTime")
  para = ix.cls("ttconv.srt.paragraph:SrtParagraph")
  # separator(s) the SRT paragraph sets on its ClockTime values
  seps = set()
  for m in para.methods.values():
    for n in own_nodes(m.node):
      if isinstance(n, ast.Call) and isinstance(n.func, ast.Attribute) and n.func.attr == "set_separator" and n.args \
          and isinstance(n.args[0], ast.Constant):
        seps.add(n.args[0].value)
  if not seps:
    raise AnalysisError("SrtParagraph no longer sets the ClockTime separator (anchor vanished)")
  clock = sk.of_method(ix.func("ttconv.time_code:ClockTime.__str__"), {"self._ms_separator": seps})
  to_string = ix.func("ttconv.srt.paragraph:SrtParagraph.to_string")
  ctx.unit(to_string.module)
  # the timing line: the element of the returned join that mentions both _begin and _end
  timing = None
  for n in own_nodes(to_string.node):
    if ((isinstance(n, ast.BinOp) and isinstance(n.op, ast.Add)) or isinstance(n, ast.JoinedStr) or
        (isinstance(n, ast.Call) and isinstance(n.func, ast.Attribute) and n.func.attr == "format" and isinstance(n.func.value, ast.Constant))) \
        and "self._begin" in unparse(n) and "self._end" in unparse(n):
      if timing is None or len(unparse(n)) < len(unparse(timing)):
        timing = n
  if timing is None:
    raise AnalysisError("SrtParagraph.to_string: timing line expression not found")
  outer = sk.of_expr(to_string, timing, {})
  pattern = fmt.pattern_literal(ix, ix.mod("ttconv.srt.reader"), "_TIMECODE_RE")
  rx = re.compile(pattern)
  # how does the reader apply it?
  reader = ix.func("ttconv.srt.reader:to_model")
  meth = None
  for n in own_nodes(reader.node):
    if isinstance(n, ast.Call) and isinstance(n.func, ast.Attribute) and unparse(n.func.value) == "_TIMECODE_RE":
      meth = n.func.attr
  if meth is None:
    raise AnalysisError("srt reader no longer applies _TIMECODE_RE")
  names = ["self._hours", "self._minutes", "self._seconds", "self._milliseconds"]
  samples = {"self._hours": [0, 7, 23, 100], "self._minutes": [0, 9, 59, 30], "self._seconds": [0, 5, 59, 1], "self._milliseconds": [0, 7, 999, 80]}
  insts = list(fmt.instantiate(clock, samples))
  n = 0
  for i, (b_text, b_vals) in enumerate(insts):
    e_text, e_vals = insts[(i + 1) % len(insts)]
    if b_vals.get("self._ms_separator") != e_vals.get("self._ms_separator"):
      e_text, e_vals = insts[i]
    line = "".join(p.s if isinstance(p, fmt.Lit) else (b_text if "begin" in p.name else e_text) for p in outer)
    m = getattr(rx, meth)(line)
    want = [b_vals[k] for k in names] + [e_vals[k] for k in names]
    got = None
    if m is not None:
      got = [int(m.group(g)) for g in ("begin_h", "begin_m", "begin_s", "begin_ms", "end_h", "end_m", "end_s", "end_ms")]
    n += 1
    ctx.check(got == want, "FMT", f"ttconv.srt.paragraph:SrtParagraph.to_string|{line}", ctx.where(to_string.module, timing),
              f"timing line `{line}` read back as {got}",
              f"the SRT writer prints the timing line `{line}` but the reader's _TIMECODE_RE.{meth} recovers {got} instead of {want}: "
              "reading the writer's own output does not return the cues that were written")
  ctx.floor("FMT", "sample timing lines", n, 4)


def check_tags(ctx):
  """Tags the SRT writer emits are understood by the reader."""
  ix = ctx.ix
  style = ix.mod("ttconv.srt.style")
  ctx.unit(style)
  tags = {}
  for name, v in ix.toplevel[style.name].items():
    if isinstance(v, tuple) and v[0] == "assign" and name.endswith("_TAG_IN") and isinstance(v[2], ast.Constant):
      m = re.match(r"<\s*([a-zA-Z]+)", v[2].value)
      if m:
        tags[name] = m.group(1).lower()
  ctx.floor("TAB-tags", "opening tag literals in srt/style.py", len(tags), 4)
  h = ix.func("ttconv.srt.reader:_TextParser.handle_starttag")
  # by interpretation: a tag is understood when handling it styles the span it opens (or, for <font>, reaches the colour parser)
  from ..consteval import NotConst as _NC, Raised as _R, Sym
  from ..rules.minieval import MiniEval, Node
  accepted = set()
  interpreted = True
  for tag in sorted(set(tags.values()) | {"blink"}):
    para = Node("P", "paragraph", (), doc="doc")
    selfn = Node("Parser", "parser", (), parent=para, line_num=1)
    me = MiniEval(ix, opaque_calls={"parse_color": Sym("colour")})
    try:
      me.call(h, [selfn, tag.upper() if tag == "b" else tag, [("color", "#ff0000")] if tag == "font" else []])
    except _R:
      continue
    except _NC:
      interpreted = False
      break
    if any(isinstance(ev_[0], Node) and ev_[1] == "set_style" for ev_ in me.trace) or any(ev_[0] == "opaque" and "parse_color" in ev_[1] for ev_ in me.trace):
      accepted.add(tag)
  if interpreted and "blink" in accepted:
    interpreted = False       # every tag seems to have an effect: the probe does not discriminate
  if not interpreted:
    accepted = set()
  for n in (own_nodes(h.node) if not interpreted else ()):
    if isinstance(n, ast.Compare) and "tag" in unparse(n.left):
      for c in n.comparators:
        if isinstance(c, ast.Attribute) and isinstance(c.value, ast.Name) and c.value.id in ("self", "cls") and h.cls is not None:
          # a class-level constant tuple of tag names
          for k in ix.mro(h.cls):
            if c.attr in k.assigns:
              c = k.assigns[c.attr]
              break
        elif isinstance(c, ast.Name):
          r = ix.resolve(h.module, c, cls=h.cls, func=h)
          if isinstance(r, tuple) and r[0] == "assign":
            c = r[2]
        if isinstance(c, (ast.Tuple, ast.List, ast.Set)):
          accepted |= {e.value for e in c.elts if isinstance(e, ast.Constant)}
        elif isinstance(c, ast.Constant):
          accepted.add(c.value)
  if not interpreted and not all(t_ in accepted for t_ in tags.values()):
    ctx.undecide("TAB-tags", f"{h.qualname}: neither in the interpreted subset nor a chain of comparisons with tag-name literals")
    return
  for name, tag in sorted(tags.items()):
    ctx.check(tag in accepted, "TAB-tags", f"ttconv.srt.style:{name}|{tag}", ctx.where(h.module, h.node),
              f"<{tag}> has a branch in _TextParser.handle_starttag",
              f"the SRT writer emits <{tag}> ({name}) but _TextParser.handle_starttag has no branch for it (accepted: {sorted(accepted)})")


def check_time_expressions(ctx):
  """FIN-timeexpr: begin / end = h*3600 + m*60 + s + ms/1000 from the begin_* / end_* groups.  The argument of set_begin /
  set_end is interpreted (rules/minieval.py; helpers followed) with `m` bound to the match of the reader's own timing pattern on
  sample lines whose fields all differ (leading zeros in the millisecond field included)."""
  from fractions import Fraction as F
  from ..consteval import NotConst, Raised
  from ..rules.minieval import MiniEval
  from ..rules import regexrules
  ix = ctx.ix
  f = ix.func("ttconv.srt.reader:to_model")
  pat = regexrules.regex_bindings(ix, f.module).get("_TIMECODE_RE")
  if pat is None:
    raise AnalysisError("srt reader: _TIMECODE_RE is not a constant pattern")
  rx = re.compile(pat[0])
  samples = [("01:02:03,004 --> 05:06:07,080", F(3723004, 1000), F(18367080, 1000)), ("00:00:00,040 --> 100:59:59,999", F(40, 1000), F(363599999, 1000)),
             ("10:00:01,500 --> 10:00:01,007", F(36001500, 1000), F(36001007, 1000))]
  for sink, idx in (("set_begin", 1), ("set_end", 2)):
    calls = [c for c in own_nodes(f.node) if isinstance(c, ast.Call) and isinstance(c.func, ast.Attribute) and c.func.attr == sink]
    if len(calls) != 1:
      raise AnalysisError(f"srt reader: expected one {sink} call")
    names = {x.id for x in ast.walk(calls[0].args[0]) if isinstance(x, ast.Name)}
    mvar = next((st.targets[0].id for st in own_nodes(f.node) if isinstance(st, ast.Assign) and isinstance(st.targets[0], ast.Name) and "_TIMECODE_RE" in unparse(st.value)), None)
    if mvar is None:
      raise AnalysisError("srt reader: the match of _TIMECODE_RE is not bound to a local")
    # locals between the match and the sink that the argument reads (h = int(m.group(..)) ...)
    call_st = calls[0]
    while not isinstance(call_st, ast.stmt):
      call_st = call_st._parent
    blk = next((getattr(call_st._parent, fld) for fld in ("body", "orelse", "finalbody") if isinstance(getattr(call_st._parent, fld, None), list) and any(x is call_st for x in getattr(call_st._parent, fld))), [])
    before = blk[:[id(x) for x in blk].index(id(call_st))]
    # backward slice over the statements of the same block that precede the sink (the nearest definitions win)
    needed, pre = set(names) - {mvar}, []
    for st in reversed(before):
      stores = {x.id for x in ast.walk(st) if isinstance(x, ast.Name) and isinstance(x.ctx, ast.Store)}
      if isinstance(st, (ast.Assign, ast.AnnAssign)) and stores & needed:
        pre.insert(0, st)
        needed = (needed - stores) | ({x.id for x in ast.walk(st) if isinstance(x, ast.Name) and isinstance(x.ctx, ast.Load)} - {mvar})
    wrong = []
    for (line, *want) in samples:
      mo = rx.search(line)
      env = {mvar: mo}
      try:
        me = MiniEval(ix)
        me.block(pre, env, f, 0)
        got = me.ev(calls[0].args[0], env, f, 0)
      except Raised:
        got = "raises"
      except NotConst as e:
        raise AnalysisError(f"srt reader: the {sink} argument `{short(calls[0].args[0], 60)}` leaves the interpreted subset ({e})")
      if got != want[idx - 1]:
        wrong.append((line, got, want[idx - 1]))
    pfx = "begin" if idx == 1 else "end"
    ctx.check(not wrong, "FIN-timeexpr", f"{f.qualname}|{sink} = h*3600 + m*60 + s + ms/1000 of the {pfx} time", ctx.where(f.module, calls[0]),
              f"exact on {len(samples)} sample timing lines with decoy values in the other fields",
              f"the cue {pfx} is not h*3600 + m*60 + s + ms/1000 of the printed {pfx} time: " + "; ".join(f"{s_}: got {v}, want {w}" for s_, v, w in wrong[:2]))


def run(ctx):
  common.check_shared_helpers(ctx, color=True, text=True)
  ctx.floor("KEEP-text", "cue text handlers", common.check_text_handlers(ctx, ["ttconv.srt.reader:_TextParser.handle_data"]), 1)
  ix = ctx.ix
  fs = common.funcs(ctx, ["ttconv.srt.reader"])
  n = exa.check_exactness(ctx, fs, rule="EXA", exempt=common.EXA_EXEMPT, trunc_scope=common.time_trunc_scope(ctx))
  ctx.floor("EXA", "model time sinks in the SRT reader", n, 2)
  nf = defs.check_def_local(ctx, fs, rule="DEF-local", exempt=common.DEF_EXEMPT)
  ctx.floor("DEF-local", "functions with locals in srt/reader.py", nf, 3)
  nn = nul.check_parent_walk(ctx, [ix.cls("ttconv.srt.reader:_TextParser")])
  ctx.floor("NUL-parent", "parent() stores in the SRT text parser", nn, 1)
  check_fmt(ctx)
  check_tags(ctx)
  check_time_expressions(ctx)
  shape.check_line_breaks(ctx, ix.func("ttconv.srt.reader:_TextParser.handle_data"))
  shape.check_span_pairing(ctx, ix.func("ttconv.srt.reader:_TextParser.handle_starttag"), ix.func("ttconv.srt.reader:_TextParser.handle_endtag"))
  npc = shape.check_feed_close(ctx, fs)
  ctx.floor("PAIR-close", "feed() calls on HTMLParser instances", npc, 1)
  lint.falsy_numeric_default(ctx, common.mods(ctx, ["ttconv.srt.reader", "ttconv.utils"]))
  from ..selfcheck import falsy_default_fixture_matches
  ctx.check(falsy_default_fixture_matches(), "LINT-i", "fixture|a number defaulted with `or` is detected", "ttverif/fixtures/falsy_default.py", "the rule still matches its positive fixture", "LINT-i no longer matches its positive fixture (rule broken)")
  common.check_item_handlers(ctx, ["ttconv.srt.reader", "ttconv.utils"])
  nha = nul.check_html_attr_values(ctx, [ctx.ix.cls("ttconv.srt.reader:_TextParser")])
  ctx.floor("NUL-htmlattr", "uses of HTML attribute values", nha, 1)
  common.check_regex_probes(ctx, ["ttconv.srt.reader", "ttconv.utils"], floor=4)
  common.check_history_independence(ctx, ["ttconv.srt.reader", "ttconv.utils"])
