"""C01 - a snapshot at time t shows exactly the content TTML makes active at t."""
from __future__ import annotations

import ast

from ..cfg import CFG
from ..core import AnalysisError, own_nodes, parent, short, unparse
from ..rules import shape, isdrules, match
from . import common

EXPLANATION = (
  "Decides these clauses for every document and time: (CMP-activity) the three guards that decide temporal activity - element, "
  "animation step, cached content-interval short cut - evaluated under every ordering of begin/end against the query time "
  "including the None cases, equal TTML's 'begin inclusive, end exclusive'; (CMP-absolute / DEP-absolute) _make_absolute, "
  "evaluated on a grid that covers every None combination and every ordering of end vs. parent end, is 'parent begin + offset, "
  "end clipped by the parent end', and each returned component depends on exactly the right parameters; (DEP-frame) an element's "
  "interval is computed against its parent's computed interval and children are resolved in the element's own computed "
  "interval, the region->body call passes no parent interval; (CMP-prune) the region association rule and the pruning predicate "
  "have the specified truth table, in the snapshot path and in the per-region clone used by the cache; (ORD) display=none prunes "
  "before children are visited, children are visited in document order and appended in that order; (DEF-region) a default region "
  "is synthesised iff the document declares none."
  " (STATE-alias / STATE-global) no function of the anchored modules mutates a module- or class-level container, rebinds module / class state or mutates a mutable default argument, so a result never depends on earlier calls;"
  " (FIN-hull) the content interval that lets from_model skip a single-region document is the hull of the content intervals (statement fold over one- and two-element sequences from the declared initial state);"
  " (DEP-frame, body) whenever the element handed to a recursive call can be the document body, the parent interval handed with it is (None, None);"
  " (MEMO-key) the interval / activity caches are not keyed by value objects;"
  ' (ORD-children) the children of an ISD element are produced in document order; (ORD-display) display=none prunes the element before its children are visited;'
  ' (REG-repoint) an element whose region is replaced in the document is re-pointed at the replacing region object;'
  ' (CLONE-prune) the per-region clone leaves content out by region association only, never because of a specified style value that animation could change;'
  ' (LINT-l) no tuple / list / set display of the anchored modules lists the same computed component twice and no dict display repeats a key (a key or fingerprint built that way cannot tell apart what the missing component would have);'
  ' (STATE-share) no assignment stores a container field of one object (a field the package updates in place) into a field of another object without copying it, so an in-place update of one object never changes another;'
  " (ITEM-source) an object built once per item of an inner loop is filled only with values that derive from that item or do not vary with the loops, never with a value of the enclosing container standing where the item's own belongs;"
  ' (LOOP-break) no loop over the items of a collection is left by a branch that does nothing but `break` on a test about the item (end-of-input sentinels, flags set in the loop body and searches whose variable is read afterwards excepted): an item that is to be skipped does not end the processing of the items after it;'
  ' (FIN-regex) as in C13 for the white-space collapsing substitution;'
  ' (ORD-style) as in C13: the display test that prunes an element runs after every source of its display value has been applied (animation, specified, initial values);'
  + common.SHARED_CLAUSES['validators'] + common.SHARED_CLAUSES['truthy']
  + " (PRUNE-sites) every `return None` of ISD._process_element is one of the grounds for leaving an element out of a snapshot - inactive at the offset, another region, display=none, the final emptiness rule; any other site, evaluated over every element kind with and without children, drops only what the final rule would drop (never an element with children, never an empty part of a ruby container);"
  + " (COVER-regions) ISD.significant_times, interpreted with the per-region clone and the collector replaced by recorders, gives every region of the document - whatever it specifies, display=none included - its own single-region document and lets the collector visit that region and the body;"
  + common.SHARED_CLAUSES['timing']
  + " (FIN-cacheskip, shared with C14) ISD.from_model processes the same regions with and without the SignificantTimes cache for every offset inside a cached document's content interval; (TAB-styles, shared with C03) the table of style properties - inherited or not, initial value, applicability - equals TTML2's, so tts:display is not inherited;"
)
RULE_TEXT = "per guard x ordering table, per grid, per call site, per truth table"
UNDECIDED = ["interval arithmetic under arbitrary nesting as values", "text appears once each, in document order, nothing moved between regions (data dependent)",
             "white-space handling"]
TRUSTED = ["TTML2 section 12 timing semantics written as the oracles in rules/isdrules.py"]


def check_children_order(ctx, mk):
  f = mk.f
  lp = mk.m["children"]
  # direct iteration over the element (no sorted / reversed), append in loop order, push_children(list)
  target = unparse(lp.target)
  lst = None
  for c in own_nodes(lp):
    if isinstance(c, ast.Call) and isinstance(c.func, ast.Attribute) and c.func.attr == "append":
      lst = unparse(c.func.value)
  pushed = any(isinstance(c, ast.Call) and isinstance(c.func, ast.Attribute) and c.func.attr == "push_children" and c.args and unparse(c.args[0]) == lst
               for c in own_nodes(f.node))
  rec = [c for c in own_nodes(lp) if isinstance(c, ast.Call) and unparse(c.func).endswith("_process_element")]
  ok = lst is not None and pushed and len(rec) == 1 and unparse(rec[0].args[-1]) == target
  ctx.check(ok, "ORD-children", f"{f.qualname}|children visited and appended in document order", ctx.where(f.module, lp),
            f"`for {target} in element`: processed child appended to `{lst}`, which is pushed as the children",
            "children are no longer processed one by one in document order and appended in that order")
  # only non-None results are appended
  guard = any(isinstance(n, ast.If) and "is not None" in unparse(n.test) and lst and lst in unparse(n) for n in own_nodes(lp))
  ctx.check(guard, "ORD-children", f"{f.qualname}|pruned children are not appended", ctx.where(f.module, lp), "`if child is not None` before append",
            "pruned (None) children are appended to the child list")


def check_display_prune(ctx, mk):
  f = mk.f
  if "display-none" not in mk.m:
    ctx.bad("ORD-display", f"{f.qualname}|display=none prune present", ctx.where(f.module, f.node),
            "_process_element has no `if <resolved Display> is DisplayType.none: return None` step: elements computing to display=none stay in the snapshot")
    return 0
  cfg = CFG(f.node)
  dom = cfg.dominators()
  d = cfg.node_of(mk.m["display-none"])
  n = 0
  for c in own_nodes(f.node):
    if isinstance(c, ast.Call) and unparse(c.func).endswith("_process_element"):
      nid = cfg.stmt_node_containing(c)
      n += 1
      ctx.check(d in dom.get(nid, ()), "ORD-display", f"{f.qualname}|display=none tested before `{short(c, 40)}`", ctx.where(f.module, c),
                "the display=none prune dominates the recursive call", "children are visited before (or without) the display=none prune of their ancestor")
  # the display test reads the *computed* style of the ISD element
  ctx.check("isd_element" in unparse(mk.m["display-none"].test), "ORD-display", f"{f.qualname}|display read from the resolved styles",
            ctx.where(f.module, mk.m["display-none"]), "reads isd_element", "display=none must be tested on the resolved (animated/specified/initial) value")
  return n


def check_default_region(ctx):
  """DEF-region: each declared region is processed with itself as the selected region, in document order,
  and its result is added to the ISD; a document that declares no region is processed once with a
  synthesised default region and selected_region=None (so that content without a region is selected).
  The statements that follow the reading of the regions are evaluated for zero and for two declared
  regions and the recorded _process_element / put_region calls are compared with that."""
  from ..rules import fineval
  ix = ctx.ix
  f = ix.func("ttconv.isd:ISD.from_model")
  ctx.unit(f.module)
  pe = ix.func("ttconv.isd:ISD._process_element")
  sel_i = pe.params.index("selected_region") if "selected_region" in pe.params else 4
  el_i = len(pe.params) - 1
  # the local that holds the declared regions: assigned from <doc>.iter_regions()
  assigns = [st for st in own_nodes(f.node) if isinstance(st, ast.Assign) and len(st.targets) == 1 and isinstance(st.targets[0], ast.Name)
             and any(isinstance(c, ast.Call) and isinstance(c.func, ast.Attribute) and c.func.attr == "iter_regions" for c in ast.walk(st.value))]
  if len(assigns) != 1:
    raise AnalysisError(f"{f.qualname}: the local that holds the declared regions was not found")
  a = assigns[0]
  rv = a.targets[0].id
  blk = next(getattr(parent(a), fld) for fld in ("body", "orelse") if isinstance(getattr(parent(a), fld, None), list) and any(x is a for x in getattr(parent(a), fld)))
  after = blk[next(k for k, x in enumerate(blk) if x is a) + 1:]
  isd_recv = {unparse(c.func.value) for c in own_nodes(f.node) if isinstance(c, ast.Call) and isinstance(c.func, ast.Attribute) and c.func.attr == "put_region"}
  pe_recv = {unparse(c.func.value) for c in own_nodes(f.node) if isinstance(c, ast.Call) and isinstance(c.func, ast.Attribute) and c.func.attr == "_process_element"}
  problems = []
  for regs in ((), ("R1", "R2")):
    eff = fineval.collect(ix, f, after, {rv: regs}, tuple(isd_recv | pe_recv))
    if any(s_.startswith("For") or rv in s_ for s_ in eff.skipped):
      raise AnalysisError(f"{f.qualname}: the statements after `{short(a, 40)}` could not be evaluated ({eff.skipped[0]})")
    procs = [(k, c) for k, c in enumerate(eff.calls) if c[0] == "_process_element"]
    puts = [c for c in eff.calls if c[0] == "put_region"]
    got = [(c[1][sel_i], c[1][el_i]) for _, c in procs if len(c[1]) > max(sel_i, el_i)]
    if regs:
      if got != [(r_, r_) for r_ in regs]:
        problems.append(f"with regions {list(regs)}: (selected region, element) of the _process_element calls are {got}, expected each region with itself, in order")
    else:
      ok0 = len(got) == 1 and got[0][0] is None and "DEFAULT_REGION_ID" in str(got[0][1] if not isinstance(got[0][1], tuple) else got[0][1][1]) if got else False
      if not ok0:
        problems.append(f"with no declared region: _process_element calls {got}, expected one call with selected_region=None and a Region(DEFAULT_REGION_ID)")
    put_args = [c[1][0] for c in puts if c[1]]
    if sorted(str(x) for x in put_args) != sorted(str(("result", k)) for k, _ in procs):
      problems.append(f"with regions {list(regs)}: {len(puts)} put_region call(s) for {len(procs)} processed region(s) - every non-None result must be added to the ISD")
  ctx.check(not problems, "DEF-region", f"{f.qualname}|default region iff the document declares none", ctx.where(f.module, a),
            "declared regions are each processed with themselves selected and added; otherwise one default region with selected_region=None",
            "; ".join(problems[:2]))


def run(ctx):
  from ..rules import isdrules as _isdr4
  ctx.floor("FIN-cacheskip", "(cache, offset) samples decided", _isdr4.check_cached_snapshot_calls(ctx), 10)
  from . import c03 as _c03
  _c03.check_style_tables(ctx)
  from ..rules import isdrules as _isdr3
  ctx.floor("COVER-regions", "sample documents decided", _isdr3.check_region_docs_cover(ctx), 3)
  from ..rules import isdrules as _isdr
  ctx.floor("PRUNE-sites", "`return None` sites of _process_element", _isdr.check_prune_sites(ctx, ctx.ix.func("ttconv.isd:ISD._process_element")), 4)
  common.check_shared_helpers(ctx, validators=True, truthy_modules=["ttconv.model", "ttconv.isd"], timing=True)
  ix = ctx.ix
  n = isdrules.check_activity_guards(ctx)
  ctx.floor("CMP-activity", "activity guards", n, 3)
  isdrules.check_make_absolute(ctx)
  pe = ix.func("ttconv.isd:ISD._process_element")
  nf = isdrules.check_frames(ctx, pe, recursive_name="_process_element")
  ctx.floor("DEP-frame", "frame agreement sites in _process_element", nf, 3)
  mk = isdrules.Markers(ix)
  # region -> body call passes no parent interval
  rb = mk.m.get("region-body")
  if rb is None:
    raise AnalysisError("_process_element: the region -> body recursive call was not found")
  pb_i, pe_i = pe.params.index("parent_computed_begin"), pe.params.index("parent_computed_end")
  ctx.check(all(isinstance(rb.args[i], ast.Constant) and rb.args[i].value is None for i in (pb_i, pe_i)), "DEP-frame",
            f"{pe.qualname}|region->body call passes no parent interval", ctx.where(pe.module, rb), "body is timed from the document origin, not from the region",
            "the body is resolved relative to the region's interval: region timing must gate, not shift, the body")
  isdrules.check_prune_predicate(ctx, pe, has_region_atom=True)
  cc = ix.func("ttconv.isd:_clone_doc_with_one_region.<locals>._copy_content_element")
  isdrules.check_prune_predicate(ctx, cc, has_region_atom=False)
  # inherited region passed down = this element's associated region
  for f, rec in ((pe, "_process_element"), (cc, "_copy_content_element")):
    for c in own_nodes(f.node):
      if isinstance(c, ast.Call) and unparse(c.func).endswith(rec):
        i = f.params.index("inherited_region")
        ctx.check(unparse(c.args[i]) == "associated_region", "CMP-prune", f"{f.qualname}|children inherit the associated region @{unparse(c.args[-1])}",
                  ctx.where(f.module, c), "recursive call passes associated_region as inherited_region",
                  f"the recursive call passes `{unparse(c.args[i])}` as the inherited region; children must inherit this element's associated region")
  check_display_prune(ctx, mk)
  check_children_order(ctx, mk)
  check_default_region(ctx)
  # the content interval that lets from_model skip a single-region document is the hull of its content
  shape.check_content_interval_hull(ctx)
  shape.check_cache_keys(ctx, common.funcs(ctx, ["ttconv.isd"]))
  isdrules.check_body_frame(ctx)
  # content that references a region object that is no longer registered appears in no region of any snapshot
  from . import c15 as _c15
  from ..modelfacts import ModelFacts as _MF
  _c15.check_registry(ctx, _MF(ctx.ix))
  ncp = isdrules.check_clone_pruning(ctx)
  ctx.floor("CLONE-prune", "pruning guards of the per-region clone", ncp, 1)
  common.check_regex_probes(ctx, ["ttconv.isd"], floor=1)
  isdrules.check_style_order(ctx)
  common.check_history_independence(ctx, common.CORE)
