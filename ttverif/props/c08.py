"""C08 - the SCC reader shows what a CEA-608 decoder displays (structural conditions only)."""
from __future__ import annotations

import ast

from ..cfg import CFG
from ..consteval import ConstEval
from ..core import AnalysisError, own_nodes, parent, short, unparse
from ..rules import lint, match, dsp, exa, nul
from . import common

EXPLANATION = (
  "Decides only structural necessary conditions of C08; what is displayed when (buffer flipping, roll-up window, cursor and backspace "
  "bookkeeping, frame accounting as values) is a history-dependent state machine and is NOT decided. Decided, for every input: "
  "(DSP-line) SccLine.process has a branch for every code class SccWord._find_code can return; (DSP-control) every SccControlCode "
  "member has a branch in process_control_code or a tabled reason; (ORD-channel) every call that feeds the decoder state "
  "(context.process_* / backspace) is dominated by a channel-1 test that skips other channels; (DUP) a control word equal to the "
  "immediately preceding control word is skipped once and the memory of it cleared, so doubled codes act once, and the skip branch writes no other decoder state, calls nothing on the context and does not advance the time code; (FRAME) the line's "
  "time code advances exactly one frame per processed word, after the duplicate test; (ORD-ext) an extended character first "
  "backspaces, then writes; (STYLE) colour, italics and underline from PAC / mid-row codes are applied to the text that follows in "
  "all three caption styles; (EXA) begin / end reach the model as exact frame multiples via to_temporal_offset at 30 fps or, for "
  "';' time codes, 30000/1001; (NUL) the caption to process is never dereferenced when there is none."
  " (ORD-rows) the row dictionary of a caption is read through sorted(...) wherever the order of rows matters (the tabled order-free iterations aside);"
  " (STATE-alias / STATE-global) no function of the anchored modules mutates a module- or class-level container, rebinds module / class state or mutates a mutable default argument, so a result never depends on earlier calls;"
  " (FIN-dropframe) the frame arithmetic behind ';' time codes agrees with SMPTE ST 12-1 labels on the frame counts around every minute boundary of the first 22 minutes and the hour, for 30000/1001 and 60000/1001;"
  ' (SWAP) End Of Caption exchanges the buffered and the displayed caption: after the branch each holds what the other held;'
  ' (COPY-lines) roll-up carries the caption lines over into the new caption as copies, never the line objects themselves;'
  ' (FIN-rollup) the number of lines kept when a roll-up caption rolls is depth - 1 for every depth RU2, RU3, RU4;'
  ' (STYLE-complete) wherever the context replaces one of colour / italics / underline unconditionally it replaces all three, so an attribute switched off by a PAC or a first mid-row code does not leak onto later text;'
  ' (FIN-parse) a parsed SMPTE label counts at the rate it was given (`:`), or at the matching drop-frame rate (`;`): see C12;'
  ' (LINT-k) no instance field declared with a numeric type is tested by truthiness (the number 0 would count as `not set`);'
  ' (LINT-l) no tuple / list / set display of the anchored modules lists the same computed component twice and no dict display repeats a key (a key or fingerprint built that way cannot tell apart what the missing component would have);'
  ' (STATE-share) no assignment stores a container field of one object (a field the package updates in place) into a field of another object without copying it, so an in-place update of one object never changes another;'
  " (ITEM-source) an object built once per item of an inner loop is filled only with values that derive from that item or do not vary with the loops, never with a value of the enclosing container standing where the item's own belongs;"
  ' (NUL-known) no local is dereferenced at a point where a dominating test has established that it is None and nothing has assigned it since (the test and the dereference would contradict each other);'
  ' (LOOP-break) no loop over the items of a collection is left by a branch that does nothing but `break` on a test about the item (end-of-input sentinels, flags set in the loop body and searches whose variable is read afterwards excepted): an item that is to be skipped does not end the processing of the items after it;'
  + "  (SHAPE / FIN-channel, shared with C17) find() of every code enumeration, interpreted on the code values of its own members, returns the first member listing the value, and get_channel() gives channel 1 / 2 for the member's first / second value and no channel for the field-2 forms - the decoder skips a word exactly when that is not channel 1;"
)
RULE_TEXT = "per code class, per control code, per decoder-state call, per style property x caption style"
UNDECIDED = ["everything the statement says about *what is displayed when*: pop-on flip, roll-up window depth, paint-on accumulation, cursor / backspace arithmetic, "
             "begin/end within the transmission window of the triggering word"]
TRUSTED = ["tabled reasons for control codes without a branch"]

IGNORED_CONTROL = {
  "AOF": "reserved (formerly alarm off)", "AON": "reserved (formerly alarm on)", "FON": "flash on: blinking is not represented in the model",
  "RTD": "resume text display: text mode is not a caption service", "TR": "text restart: text mode is not a caption service",
}


def line_roles(f):
  """Names playing the fixed roles in SccLine.process: the context parameter, the word loop, its variable and the decoded-code local."""
  cx = f.params[1]
  loops = [lp for lp in own_nodes(f.node) if isinstance(lp, ast.For) and unparse(lp.iter) in ("self.scc_words", "iter(self.scc_words)") and isinstance(lp.target, ast.Name)]
  if len(loops) != 1:
    raise AnalysisError("SccLine.process: word loop not found")
  w = loops[0].target.id
  code = None
  for st in own_nodes(loops[0]):
    if isinstance(st, ast.Assign) and len(st.targets) == 1 and isinstance(st.targets[0], ast.Name) and unparse(st.value) == f"{w}.get_code()":
      code = st.targets[0].id
  if code is None:
    raise AnalysisError("SccLine.process: the local holding <word>.get_code() was not found")
  return cx, loops[0], w, code


def check_dispatch(ctx):
  ix = ctx.ix
  f = ix.func("ttconv.scc.line:SccLine.process")
  ctx.unit(f.module)
  CX, _lp, W, CODE = line_roles(f)
  tested = dsp.isinstance_classes(ix, f, CODE)
  if not tested:
    # the dispatch may live in a private method that receives the code (and the context): it is read there
    for c_ in own_nodes(f.node):
      if isinstance(c_, ast.Call) and isinstance(c_.func, ast.Attribute) and isinstance(c_.func.value, ast.Name) and c_.func.value.id in ("self", "cls") and f.cls is not None \
          and any(isinstance(a_, ast.Name) and a_.id == CODE for a_ in c_.args):
        g_ = ix.lookup_method(f.cls, c_.func.attr)
        if g_ is None:
          continue
        off_ = 0 if g_.is_static else 1
        names_ = {}
        for i_, a_ in enumerate(c_.args):
          if isinstance(a_, ast.Name) and i_ + off_ < len(g_.params):
            names_[a_.id] = g_.params[i_ + off_]
        if CODE in names_ and dsp.isinstance_classes(ix, g_, names_[CODE]):
          f, CODE, CX = g_, names_[CODE], names_.get(CX, CX)
          tested = dsp.isinstance_classes(ix, f, CODE)
          break
  if not tested:
    ctx.undecide("DSP-line", f"{f.qualname}: no isinstance dispatch on the code of the word was found (restructured)")
    return
  fc = ix.func("ttconv.scc.word:SccWord._find_code")
  classes = []
  for n in ast.walk(fc.node):
    if isinstance(n, ast.Call) and isinstance(n.func, ast.Attribute) and n.func.attr == "find":
      r = ix.resolve(fc.module, n.func.value, cls=fc.cls)
      if r is not None and hasattr(r, "qualname"):
        classes.append(r)
  ctx.floor("DSP-line", "code classes returned by _find_code", len(classes), 6)
  for c in classes:
    ctx.check(c.qualname in tested, "DSP-line", f"{f.qualname}|{c.name}", ctx.where(f.module, f.node), "has an isinstance branch",
              f"SccLine.process has no branch for {c.name}: such words are reported as unsupported and never reach the decoder state")
  # each branch calls the matching context method
  want = {"SccPreambleAddressCode": "process_preamble_address_code", "SccAttributeCode": "process_attribute_code", "SccMidRowCode": "process_mid_row_code",
          "SccControlCode": "process_control_code", "SccSpecialCharacter": "process_text", "SccExtendedCharacter": "process_text"}
  for n in own_nodes(f.node):
    if isinstance(n, ast.If) and isinstance(n.test, ast.Call) and unparse(n.test.func) == "isinstance" and unparse(n.test.args[0]) == CODE:
      k = unparse(n.test.args[1]).split(".")[-1]
      calls = [c.func.attr for st in n.body for c in ast.walk(st) if isinstance(c, ast.Call) and isinstance(c.func, ast.Attribute) and unparse(c.func.value) == CX]
      if k in want:
        ctx.check(want[k] in calls, "DSP-line", f"{f.qualname}|{k} -> context.{want[k]}", ctx.where(f.module, n), f"calls {calls}",
                  f"the {k} branch calls {calls} but not context.{want[k]}")
      if k == "SccExtendedCharacter":
        ctx.check("backspace" in calls and calls.index("backspace") < calls.index("process_text"), "ORD-ext", f"{f.qualname}|extended character: backspace then text",
                  ctx.where(f.module, n), "backspace() precedes process_text()", "an extended character no longer erases the preceding character before it is written")
  # control codes
  pc = ix.func("ttconv.scc.context:SccContext.process_control_code")
  ctx.unit(pc.module)
  cc = ix.cls("ttconv.scc.codes.control_codes:SccControlCode")
  members = [n for n, _ in ix.enum_members(cc)]
  handled = set(dsp.enum_members_tested(ix, pc, cc))
  ctx.floor("DSP-control", "control codes", len(members), 19)
  for m in members:
    key = f"{pc.qualname}|{m}"
    if m in handled:
      ctx.ok("DSP-control", key, ctx.where(pc.module, pc.node), "has a branch")
    else:
      ctx.check(m in IGNORED_CONTROL, "DSP-control", key, ctx.where(pc.module, pc.node), "tabled: " + IGNORED_CONTROL.get(m, ""),
                f"control code {m} has neither a branch in process_control_code nor a tabled reason for being ignored")
  for m in IGNORED_CONTROL:
    if m in handled:
      ctx.note(f"control code {m} now has a branch; its entry in the ignore table is stale")


def check_channel_and_frames(ctx):
  ix = ctx.ix
  f = ix.func("ttconv.scc.line:SccLine.process")
  CX, lp, W, CODE = line_roles(f)
  cfg = CFG(f.node)
  dom = cfg.dominators()

  def skips_other_channels(test):
    r = match.relation(test, lambda e: True, lambda e: unparse(e).endswith("SccChannel.CHANNEL_1"))
    return r in ("is not", "!=")
  guards = [n.id for n in cfg.nodes if n.kind == "test" and isinstance(n.ast, ast.If) and skips_other_channels(n.ast.test)
            and any(isinstance(x, ast.Continue) for x in n.ast.body)]
  calls = [c for c in own_nodes(f.node) if isinstance(c, ast.Call) and isinstance(c.func, ast.Attribute) and unparse(c.func.value) == CX
           and (c.func.attr.startswith("process_") or c.func.attr == "backspace")]
  ctx.floor("ORD-channel", "decoder-state calls in SccLine.process", len(calls), 6)
  for c in calls:
    nid = cfg.stmt_node_containing(c)
    ctx.check(any(g in dom.get(nid, ()) for g in guards), "ORD-channel", f"{f.qualname}|{short(c, 60)}", ctx.where(f.module, c), "dominated by a channel-1 test that skips other channels",
              f"`{short(c, 60)}` is reachable for words that do not belong to channel 1: channel-2 data would be decoded into the captions")
  # null padding (0000 once the parity bits are stripped) is neither text nor a code: it is skipped before anything looks at it
  def skips_null(test):
    r = match.relation(test, lambda e: unparse(e) == f"{W}.value", lambda e: isinstance(e, ast.Constant) and e.value == 0 and not isinstance(e.value, bool))
    return r == "=="
  null_guards = [n.id for n in cfg.nodes if n.kind == "test" and isinstance(n.ast, ast.If) and skips_null(n.ast.test) and any(isinstance(x, ast.Continue) for x in n.ast.body)]
  chan_stores = [st for st in own_nodes(lp) if isinstance(st, ast.Assign) and any(isinstance(t, ast.Attribute) and t.attr == "current_channel" and unparse(t.value) == CX for t in st.targets)]
  unguarded = [x for x in calls + chan_stores if not any(g in dom.get(cfg.stmt_node_containing(x), ()) for g in null_guards)]
  ctx.check(bool(null_guards) and not unguarded, "ORD-channel", f"{f.qualname}|null words are skipped before the channel and the decoder see them", ctx.where(f.module, lp),
            "`if word.value == 0: continue` dominates every decoder call and channel update",
            ("no test skips the null word 0000" if not null_guards else (f"`{short(unguarded[0], 50)}` is reachable for the null word" if unguarded else "")) +
            ": padding between the words of a caption would be read as a code of no channel, and the text after it is dropped")
  # the channel of a code word comes from the word itself; the channel of text from the last code word
  body = lp.body
  # DUP: the skip condition, read as a boolean function of (previous word is None, same value, previous word is a
  # code) and evaluated with short-circuit order on all eight assignments, must be  not None and same and code,
  # and must never read the previous word's fields when there is none
  import itertools
  pw = f"{CX}.previous_word"
  first = next((st for st in body if isinstance(st, ast.If) and "previous_word" in unparse(st.test)), None)
  ok = False
  if first is not None and not any(isinstance(t, ast.Attribute) and t.attr == "previous_word" and isinstance(t.ctx, ast.Store)
                                   for st in body[:body.index(first)] for t in ast.walk(st)):
    test = match.inline_single_locals(lp, first.test)

    def leaf(e):
      nt = match.is_none_test(e, lambda x: unparse(x) == pw)
      if nt is not None:
        return ("none", nt)
      r = match.relation(e, lambda x: unparse(x) == f"{pw}.value", lambda x: unparse(x) == f"{W}.value")
      if r in ("==", "!="):
        return ("same", r == "==")
      if unparse(e) == f"{pw}.is_code()":
        return ("code", True)
      return None
    ok = True
    try:
      for none, same, code in itertools.product((False, True), repeat=3):
        def val(atom, none=none, same=same, code=code):
          if atom == "none":
            return none
          if none:
            raise match.AtomError(atom)
          return same if atom == "same" else code
        try:
          got = match.eval_bool(test, leaf, val)
        except match.AtomError:
          got = None
        if got != ((not none) and same and code):
          ok = False
    except ValueError as e:
      raise AnalysisError(f"duplicate-suppression test has a part that is not recognised: `{e}`")
    ok = ok and any(isinstance(x, ast.Assign) and unparse(x) == f"{pw} = None" for x in first.body) and isinstance(first.body[-1], ast.Continue)
  elif first is not None:
    raise AnalysisError("the previous word is rewritten before the duplicate-suppression test")
  else:
    first = lp
  ctx.check(ok, "DUP", f"{f.qualname}|doubled control codes act once", ctx.where(f.module, first), "same value as the previous *code* word: forget it and skip",
            "the duplicate-suppression step changed: it must skip a word only if the previous word is a control code with the same value, and then forget the previous word")
  # the skipped copy has no effect: the skip branch forgets the previous word and does nothing else to the decoder state
  if isinstance(first, ast.If):
    extra = []
    for st in first.body:
      for n in ast.walk(st):
        if isinstance(n, ast.Attribute) and isinstance(n.ctx, ast.Store) and unparse(n.value) == CX and n.attr != "previous_word":
          extra.append(f"{CX}.{n.attr} is rewritten")
        if isinstance(n, ast.Call) and isinstance(n.func, ast.Attribute) and unparse(n.func.value) == CX:
          extra.append(f"{short(n, 50)} is called")
        if isinstance(n, ast.Call) and isinstance(n.func, ast.Attribute) and n.func.attr == "add_frames":
          extra.append("the time code advances")
    ctx.check(not extra, "DUP", f"{f.qualname}|the skipped copy of a doubled code has no effect", ctx.where(f.module, first), "the skip branch only forgets the previous word",
              "when the second copy of a doubled control code is skipped, " + "; ".join(extra[:3]) + ": the skipped word must leave the decoder state as it is (doubled codes act once)")
  remembered = any(isinstance(x, ast.Assign) and unparse(x) == f"{CX}.previous_word = {W}" and parent(x) is lp for x in body)
  ctx.check(remembered, "DUP", f"{f.qualname}|every processed channel-1 word is remembered", ctx.where(f.module, lp), "context.previous_word = scc_word at the end of the loop body",
            "processed words are no longer remembered for duplicate suppression")
  # FRAME
  adds = [i for i, st in enumerate(body) if isinstance(st, ast.Expr) and unparse(st.value) == "self.time_code.add_frames()"]
  all_adds = [c for c in own_nodes(lp) if isinstance(c, ast.Call) and isinstance(c.func, ast.Attribute) and c.func.attr == "add_frames"]
  ctx.check(adds == [1] and len(all_adds) == 1, "FRAME", f"{f.qualname}|one frame per processed word", ctx.where(f.module, lp), "add_frames() once, unconditionally, right after the duplicate test",
            f"the time code must advance exactly one frame per processed word (after the duplicate test); found add_frames at top-level positions {adds}, {len(all_adds)} calls in the loop")
  # time base
  fs = ix.func("ttconv.scc.line:SccLine.from_str")
  ctx.check("SmpteTimeCode.parse(time_code, FPS_30)" in unparse(fs.node), "FRAME", f"{fs.qualname}|time codes are parsed at 30 fps (';' selects 30000/1001)", ctx.where(fs.module, fs.node),
            "SmpteTimeCode.parse(time_code, FPS_30)", "SCC time codes are no longer parsed with a 30 fps base")
  ce = ConstEval(ix)
  v = ce.try_ev(ix.mod("ttconv.time_code"), ast.parse("FPS_30", mode="eval").body)
  ctx.check(str(v) == "30", "FRAME", "ttconv.time_code:FPS_30|30/1", "src/main/python/ttconv/time_code.py", "Fraction(30, 1)", f"FPS_30 is {v}")
  p = ix.func("ttconv.time_code:SmpteTimeCode.parse")
  ctx.check("Fraction(1000, 1001)" in unparse(p.node) and "denominator != 1001" in unparse(p.node), "FRAME", f"{p.qualname}|drop-frame labels use rate * 1000/1001", ctx.where(p.module, p.node),
            "base_frame_rate * Fraction(1000, 1001) for the drop-frame pattern", "drop-frame time codes no longer get the 1000/1001 rate")


def check_styles_follow(ctx):
  ix = ctx.ix
  f = ix.func("ttconv.scc.context:SccContext.process_text")
  ctx.unit(f.module)
  branches = {}
  for n in f.node.body:
    cur = n
    while isinstance(cur, ast.If):
      t = unparse(cur.test)
      for style in ("PaintOn", "RollUp", "PopOn"):
        if f"SccCaptionStyle.{style}" in t:
          branches[style] = cur.body
      cur = cur.orelse[0] if len(cur.orelse) == 1 and isinstance(cur.orelse[0], ast.If) else None
  for style in ("PaintOn", "RollUp", "PopOn"):
    body = branches.get(style)
    if body is None:
      ctx.bad("STYLE", f"{f.qualname}|{style} branch", ctx.where(f.module, f.node), f"process_text has no branch for {style} captions")
      continue
    txt = "\n".join(unparse(s) for s in body)
    for prop, var in (("Color", "current_color"), ("FontStyle", "current_font_style"), ("TextDecoration", "current_text_decoration")):
      ctx.check(f"add_style_property(StyleProperties.{prop}, self.{var})" in txt, "STYLE", f"{f.qualname}|{style}: {prop} follows the last PAC / mid-row code", ctx.where(f.module, f.node),
                f"current text gets {prop} = self.{var}", f"in {style} captions the text no longer receives {prop} from self.{var}")
  pac = ix.func("ttconv.scc.context:SccContext.process_preamble_address_code")
  t = unparse(pac.node)
  for var, getter in (("current_color", "get_color"), ("current_font_style", "get_font_style"), ("current_text_decoration", "get_text_decoration")):
    ctx.check(f"self.{var} = pac.{getter}()" in t, "STYLE", f"{pac.qualname}|{var} <- pac.{getter}()", ctx.where(pac.module, pac.node), "set from the PAC", f"a PAC no longer sets {var}")


def check_memory_swap(ctx):
  """SWAP: End Of Caption exchanges the displayed and the non-displayed memory.  In
  flip_buffered_to_active_captions the caption that was displayed on entry is saved *before* any call
  that can clear it, the buffered caption becomes the displayed one, and the saved caption becomes
  the new non-displayed memory."""
  from ..rules.nul import _may_assign
  ix = ctx.ix
  f = ix.func("ttconv.scc.context:SccContext.flip_buffered_to_active_captions")
  ctx.unit(f.module)
  body = list(own_nodes(f.node))
  saves = [st for st in body if isinstance(st, ast.Assign) and isinstance(st.targets[0], ast.Name) and unparse(st.value) == "self.active_caption"]
  key = f"{f.qualname}|displayed and non-displayed memories are exchanged"
  if len(saves) != 1:
    ctx.bad("SWAP", key, ctx.where(f.module, f.node), f"the displayed caption is not saved exactly once on entry ({len(saves)} saves): it cannot become the non-displayed memory")
    return
  tmp = saves[0].targets[0].id
  problems = []
  # no call that may clear the displayed caption precedes the save
  for c in body:
    if isinstance(c, ast.Call) and isinstance(c.func, ast.Attribute) and isinstance(c.func.value, ast.Name) and c.func.value.id == "self" and (c.lineno, c.col_offset) < (saves[0].lineno, saves[0].col_offset):
      if _may_assign(ix, f.cls, c.func.attr, "active_caption", set()):
        problems.append(f"`{short(c, 40)}`, which can clear self.active_caption, runs before the displayed caption is saved")
  promote = [st for st in body if isinstance(st, ast.Assign) and unparse(st.targets[0]) == "self.active_caption" and unparse(st.value) == "self.buffered_caption"]
  if len(promote) != 1:
    problems.append("the buffered caption does not become the displayed caption (`self.active_caption = self.buffered_caption`)")
  restore = [st for st in body if isinstance(st, ast.Assign) and unparse(st.targets[0]) == "self.buffered_caption" and unparse(st.value) == tmp]
  if len(restore) != 1:
    problems.append(f"the caption displayed before the flip (`{tmp}`) does not become the non-displayed memory")
  elif promote and (restore[0].lineno < promote[0].lineno):
    problems.append("the non-displayed memory is overwritten before it was promoted")
  ctx.check(not problems, "SWAP", key, ctx.where(f.module, f.node), f"saved in `{tmp}` before any clearing call, promoted, restored", "; ".join(problems) + ": pop-on captions loaded without ENM lose (or never see) the rows of the caption displayed before")


def check_rollup_window(ctx):
  """FIN-rollup: when a carriage return rolls the caption up, the new caption starts with the last
  depth - 1 rows of the previous one (the window holds at most `depth` rows once the new row is
  written), for depth 2, 3 and 4."""
  from ..consteval import NotConst
  ix = ctx.ix
  f = ix.func("ttconv.scc.context:SccContext.process_control_code")
  ctx.unit(f.module)
  calls = [c for c in own_nodes(f.node) if isinstance(c, ast.Call) and isinstance(c.func, ast.Attribute) and c.func.attr == "get_last_caption_lines" and len(c.args) == 1]
  if not calls:
    raise AnalysisError(f"{f.qualname}: no get_last_caption_lines(<n>) call found in the roll-up handling")
  ce = ConstEval(ix, symbolic_ok=False)
  mod = f.module
  for c in calls:
    wrong = []
    for d in (2, 3, 4):
      try:
        sub = match.replace_exprs([ast.Expr(c.args[0])], {"self.roll_up_depth": "__depth"})[0].value
        k = ce.ev(mod, sub, f.cls, {"__depth": d})
      except NotConst as e:
        raise AnalysisError(f"{f.qualname}: `{short(c.args[0], 40)}` leaves the evaluable subset ({e})")
      if k != d - 1:
        wrong.append(f"depth {d}: {k} rows carried over, expected {d - 1}")
    # the carried rows must not be post-processed in a way that depends on their number
    ctx.check(not wrong, "FIN-rollup", f"{f.qualname}|{short(c, 50)}", ctx.where(mod, c), "depth - 1 rows for depth 2, 3, 4", "; ".join(wrong) + ": the roll-up window shows more (or fewer) rows than the selected depth")


def check_copy_lines(ctx):
  """COPY-lines: the copy of a caption's rows that paint-on and roll-up captions carry forward keeps, for every text, its characters and every style property."""
  ix = ctx.ix
  f = ix.func("ttconv.scc.caption_paragraph:SccCaptionParagraph.copy_lines")
  ctx.unit(f.module)
  t = [c for c in own_nodes(f.node) if isinstance(c, ast.Call)]
  has_text = any(isinstance(c.func, ast.Name) and c.func.id == "SccCaptionText" and c.args and "get_text()" in unparse(c.args[0]) for c in t)
  style_loop = any(isinstance(lp, ast.For) and "get_style_properties()" in unparse(lp.iter) and any(isinstance(c, ast.Call) and isinstance(c.func, ast.Attribute) and c.func.attr == "add_style_property" for c in own_nodes(lp))
                   for lp in own_nodes(f.node))
  pos = any(isinstance(c.func, ast.Name) and c.func.id == "SccCaptionLine" and len(c.args) == 2 and "get_row()" in unparse(c.args[0]) and "get_indent()" in unparse(c.args[1]) for c in t)
  ctx.check(has_text and style_loop and pos, "COPY-lines", f"{f.qualname}|rows are copied with position, text and style", ctx.where(f.module, f.node), "row, indent, text and every style property",
            f"copy_lines loses {'the text ' if not has_text else ''}{'the style properties ' if not style_loop else ''}{'the row / indent ' if not pos else ''}of the rows it carries forward: painted rows change appearance when the next PAC arrives")


def check_attribute_sets(ctx):
  """STYLE-complete: colour, italics and underline travel together (a PAC and the first mid-row code of a
  sequence each carry all three; `no underline` is information too).  In every statement list of the
  context that assigns one of current_color / current_font_style / current_text_decoration
  unconditionally together with a second one, the third is assigned unconditionally as well - an
  attribute that is only assigned under a test keeps its old value and leaks onto the following text."""
  ix = ctx.ix
  c = ix.cls("ttconv.scc.context:SccContext")
  ctx.unit(c.module)
  attrs = ("current_color", "current_font_style", "current_text_decoration")
  n = 0
  for name, m in sorted(c.methods.items()):
    blocks = [m.node.body] + [getattr(x, fld) for x in own_nodes(m.node) for fld in ("body", "orelse") if isinstance(getattr(x, fld, None), list) and getattr(x, fld) and isinstance(getattr(x, fld)[0], ast.stmt)]
    for b in blocks:
      direct = {t.attr for st in b if isinstance(st, ast.Assign) for t in st.targets if isinstance(t, ast.Attribute) and unparse(t.value) == "self" and t.attr in attrs}
      if len(direct) < 2:
        continue          # a single attribute updated on its own (`if color is not None: ...`) merges one attribute, it does not replace the set
      n += 1
      missing = [a for a in attrs if a not in direct]
      nested = [a for a in missing if any(isinstance(t, ast.Attribute) and isinstance(t.ctx, ast.Store) and t.attr == a for st in b for t in ast.walk(st))]
      ctx.check(not missing, "STYLE-complete", f"{m.qualname}|{'+'.join(sorted(direct))} at +{b[0].lineno - m.node.lineno}", ctx.where(m.module, b[0]),
                "colour, italics and underline are replaced together",
                f"{m.short} replaces {sorted(direct)} unconditionally but {missing} " + ("only under a test" if nested else "not at all") +
                ": the attribute keeps its previous value (e.g. underline stays on after a code that switches it off)")
  ctx.floor("STYLE-complete", "statement lists that replace the current attributes", n, 2)


def run(ctx):
  ix = ctx.ix
  # the code tables the protocol decoder relies on: find() / get_channel() of every code enumeration (as in C17)
  from . import c17 as _c17
  _c17.check_shapes(ctx)
  _c17.check_fin(ctx)
  check_dispatch(ctx)
  check_channel_and_frames(ctx)
  check_styles_follow(ctx)
  check_memory_swap(ctx)
  check_copy_lines(ctx)
  check_rollup_window(ctx)
  fs = common.funcs(ctx, ["ttconv.scc.caption_paragraph", "ttconv.scc.context", "ttconv.scc.line", "ttconv.scc.reader"])
  n = exa.check_exactness(ctx, fs, rule="EXA", exempt=common.EXA_EXEMPT, trunc_scope=common.time_trunc_scope(ctx))
  ctx.floor("EXA", "model time sinks in the SCC reader", n, 4)
  to_par = ix.func("ttconv.scc.caption_paragraph:SccCaptionParagraph.to_paragraph")
  t = unparse(to_par.node)
  ctx.check("p.set_begin(self._begin.to_temporal_offset())" in t and "p.set_end(self._end.to_temporal_offset())" in t, "EXA", f"{to_par.qualname}|begin / end are the time codes' rational offsets",
            ctx.where(to_par.module, to_par.node), "to_temporal_offset()", "paragraph begin / end are no longer SmpteTimeCode.to_temporal_offset() of the caption's time codes")
  src = nul.NullSources(call_names={"get_caption_to_process"}, getter_paths={"get_caption_to_process()"})
  nt = nul.check_sources(ctx, common.funcs(ctx, ["ttconv.scc.context", "ttconv.scc.line"]), src, rule="NUL")
  ctx.floor("NUL", "dereferences of the caption to process", nt, 10)
  # rows are displayed top to bottom whatever the order in which the PACs addressed them
  nr = lint.set_iteration(ctx, common.mods(ctx, ["ttconv.scc.caption_paragraph", "ttconv.scc.context", "ttconv.scc.reader"]), rule="ORD-rows", what="row dictionary", unordered_attrs={"_caption_lines"},
                          exempt={"ttconv.scc.caption_paragraph:SccCaptionParagraph.copy_lines": "copies the dictionary entry by entry under the same keys; every consumer of the copy sorts by row"})
  cp = ctx.ix.cls("ttconv.scc.caption_paragraph:SccCaptionParagraph")
  sorted_sites = [n for m_ in cp.methods.values() for n in own_nodes(m_.node) if isinstance(n, ast.Call) and unparse(n.func) == "sorted" and n.args and "_caption_lines" in unparse(n.args[0])]
  ctx.check(len(sorted_sites) >= 2, "ORD-rows", f"{cp.qualname}|rows are read in row order", ctx.where(cp.module, cp.node), f"{len(sorted_sites)} sorted(...) reads of the row dictionary; {nr} tabled order-free iterations",
            "the row dictionary is no longer read through sorted(...) where the order of rows matters")
  # ';' time codes advance by SMPTE drop-frame labels: the frame arithmetic behind add_frames agrees with SMPTE ST 12-1 at the minute boundaries
  from . import c12 as _c12
  _c12.check_drop_frame_labels(ctx)
  _c12.check_add_frames(ctx)
  common.check_item_handlers(ctx, ["ttconv.scc.reader", "ttconv.scc.line", "ttconv.scc.context", "ttconv.scc.word"])
  check_attribute_sets(ctx)
  from . import c12 as _c12
  _c12.check_parse_rate(ctx)
  common.check_numeric_fields(ctx, [n for n in ctx.ix.modules if n.startswith("ttconv.scc")])
  common.check_known_none(ctx, [n for n in ctx.ix.modules if n.startswith("ttconv.scc")])
  common.check_history_independence(ctx, [n for n in ctx.ix.modules if n.startswith("ttconv.scc")] + ["ttconv.time_code"])
