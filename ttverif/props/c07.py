"""C07 - SRT/WebVTT outputs are grammatical and tags reflect the computed styles (structural clauses)."""
from __future__ import annotations

import ast

from ..cfg import CFG
from ..consteval import ConstEval, EnumMember, Sym
from ..core import AnalysisError, ClassInfo, own_nodes, parent, short, unparse
from ..rules import match, shape, trav, lint
from . import common

EXPLANATION = (
  "Decides these clauses for every document and writer configuration: (PAIR-tags) in both writers the closing tags are appended in "
  "exactly the reverse order of the opening tags, each under the same condition variable and with the matching tag constant, around "
  "the recursion over the span's children - so tags are balanced and properly nested; (ORD-format) every SRT tag append is dominated "
  "by the text_formatting test; (TAB-supported) every value listed for a property in the writers' supported-style tables is a value "
  "that property's validator admits (no dataclass field read through the class), every style property the tag helpers read is a key "
  "of the supported table, and the default-value filter lists TTML initial values; (TAINT) every flow from Text.get_text() into a "
  "WebVTT cue payload passes through the escaping function, which replaces & < >; (SEQ-id) SRT cue numbers are 1.. in order and the "
  "WebVTT counter is decremented when a blank cue is dropped; (HDR) WEBVTT header, then the STYLE block, then the cues; (GUARD) "
  "to_string refuses begin >= end instead of printing an invalid cue."
  " (MEMO) each class-name memo of the WebVTT context is filled by a single producer;"
  " (ORD-preorder) ISD filters that read the parent's styles and write the element's own finish the element before visiting its children;"
  " (STATE-alias / STATE-global) no function of the anchored modules mutates a module- or class-level container, rebinds module / class state or mutates a mutable default argument, so a result never depends on earlier calls;"
  " (FIN-line) the cue line setting is the region's top edge / bottom edge / centre for displayAlign before / after / center, with the matching alignment (grid evaluation);"
  " (INDEP) independent tag conditions are not chained with elif;"
  " (TAINT) the escaping function also replaces '>' (an unescaped --> would be read as a timing line);"
  ' (RAISE-interval) the cue serialisers refuse end <= begin, so add_isd passes an interval on only after a test on the rounded end and begin has excluded an interval that is empty at millisecond resolution (an interval shorter than the time-code resolution is skipped, never an exception);'
  " (PAIR-default-end) where the merging filters are not applied unconditionally the writer's finish() gives the default end to every cue that has none, not to the last list entry only;"
  ' (LINT-k) no instance field declared with a numeric type is tested by truthiness (the number 0 would count as `not set`);'
  ' (TRAV-rec) every function that walks the tree by calling itself on the children reaches that child loop on every path (the three walkers that prune by design are tabled with the rules that decide their pruning);'
  ' (LINT-l) no tuple / list / set display of the anchored modules lists the same computed component twice and no dict display repeats a key (a key or fingerprint built that way cannot tell apart what the missing component would have);'
  ' (STATE-share) no assignment stores a container field of one object (a field the package updates in place) into a field of another object without copying it, so an in-place update of one object never changes another;'
  " (ITEM-source) an object built once per item of an inner loop is filled only with values that derive from that item or do not vary with the loops, never with a value of the enclosing container standing where the item's own belongs;"
  " (COND-supported) for every assignment of the writers' boolean options, each style property a writer method or tag helper reads under that assignment is kept by the style whitelist the constructor builds for it;"
  ' (LOOP-break) no loop over the items of a collection is left by a branch that does nothing but `break` on a test about the item (end-of-input sentinels, flags set in the loop body and searches whose variable is read afterwards excepted): an item that is to be skipped does not end the processing of the items after it;'
  + " (FIN-merge) the paragraph merger, interpreted on sample snapshots (divs nested at several depths, a nested div between paragraphs, one or several regions), leaves one paragraph per region holding the spans of all its paragraphs in document order with one line break between consecutive paragraphs;"
  + " (DEP-round, shared with C12) ClockTime.from_seconds, which prints every cue time, derives hours, minutes, seconds and milliseconds from one value rounded once to the millisecond;"
  + " (FIN-eol) SrtParagraph and VttCue, interpreted on sequences of append_text() calls followed by normalize_eol(), leave a payload without an empty line and without line breaks at its ends, whether the line breaks arrive one per call or several inside one text node;"
)
RULE_TEXT = "per tag pair, per tag append, per supported value, per text flow"
UNDECIDED = ["cue-setting values (line, align) vs the computed position and alignment", "no empty line / no '-->' inside an SRT payload (SRT has no escaping mechanism)",
             "non-overlap and ordering of cues as values"]
TRUSTED = ["tag constants of srt/style.py and vtt/style.py"]


def tag_appends(f, body):
  """[(condition text or None, tag constant name)] for `append_text(style.X...)` statements in a statement list."""
  out = []
  for st in body:
    if isinstance(st, ast.If):
      cond = unparse(st.test)
      for sub in st.body:
        for c in ast.walk(sub):
          if isinstance(c, ast.Call) and isinstance(c.func, ast.Attribute) and c.func.attr == "append_text" and c.args and "style." in unparse(c.args[0]):
            a = c.args[0]
            name = unparse(a.func.value if isinstance(a, ast.Call) and isinstance(a.func, ast.Attribute) and a.func.attr == "format" else a)
            out.append((cond, name.split(".")[-1], c))
    elif isinstance(st, ast.Expr):
      c = st.value
      if isinstance(c, ast.Call) and isinstance(c.func, ast.Attribute) and c.func.attr == "append_text" and c.args and "style." in unparse(c.args[0]):
        out.append((None, unparse(c.args[0]).split(".")[-1], c))
  return out


def flatten_if(body, wrapper_test=None):
  """Statements of `body`, entering one level of `if <wrapper>:` blocks (the SRT text_formatting test)."""
  out = []
  for st in body:
    if isinstance(st, ast.If) and wrapper_test is not None and unparse(st.test) == wrapper_test:
      out += st.body
    else:
      out.append(st)
  return out


def check_tag_pairing(ctx, q, wrapper_test=None):
  ix = ctx.ix
  f = ix.func(q)
  ctx.unit(f.module)
  span_if = None
  for st in f.node.body:
    if isinstance(st, ast.If) and "model.Span" in unparse(st.test):
      span_if = st
  if span_if is None:
    raise AnalysisError(f"{q}: span branch not found")
  body = span_if.body
  rec_idx = None
  for i, st in enumerate(body):
    if isinstance(st, ast.For) and f.name in unparse(st):
      rec_idx = i
  if rec_idx is None:
    raise AnalysisError(f"{q}: recursion over the span's children not found")
  opens = tag_appends(f, flatten_if(body[:rec_idx], wrapper_test))
  closes = tag_appends(f, flatten_if(body[rec_idx + 1:], wrapper_test))
  # list-driven emission: the tags are first collected in a local list, written from it before the children and closed
  # from it after them - the closing pass must walk the same list backwards (reversed(L) / L[::-1]), nothing else
  lists = {st.targets[0].id for st in body[:rec_idx] if isinstance(st, ast.Assign) and len(st.targets) == 1 and isinstance(st.targets[0], ast.Name) and isinstance(st.value, ast.List)}
  for L in sorted(lists):
    def walks(stmts):
      return [lp for st in stmts for lp in ast.walk(st) if isinstance(lp, ast.For) and any(isinstance(n, ast.Name) and n.id == L for n in ast.walk(lp.iter))
              and any(isinstance(c, ast.Call) and isinstance(c.func, ast.Attribute) and c.func.attr == "append_text" for c in ast.walk(lp))]
    before, after = walks(body[:rec_idx]), walks(body[rec_idx + 1:])
    if not before or not after:
      continue
    fwd = all(isinstance(lp.iter, ast.Name) for lp in before)
    def backwards(it):
      if isinstance(it, ast.Call) and isinstance(it.func, ast.Name) and it.func.id == "reversed" and len(it.args) == 1 and isinstance(it.args[0], ast.Name) and it.args[0].id == L:
        return True
      return isinstance(it, ast.Subscript) and isinstance(it.value, ast.Name) and it.value.id == L and isinstance(it.slice, ast.Slice) and it.slice.lower is None and it.slice.upper is None \
        and isinstance(it.slice.step, ast.UnaryOp) and isinstance(it.slice.step.op, ast.USub) and isinstance(it.slice.step.operand, ast.Constant) and it.slice.step.operand.value == 1
    ctx.check(fwd and all(backwards(lp.iter) for lp in after), "PAIR-tags", f"{q}|tags collected in `{L}` are closed in reverse order of opening", ctx.where(f.module, after[0]),
              f"opened by walking `{L}`, closed by walking it backwards",
              f"the tags collected in `{L}` are closed by iterating `{short(after[0].iter, 50)}`: only the exact reverse of the opening order (reversed({L}) or {L}[::-1]) nests the tags properly "
              "for every combination of styles (sorting by tag text, for instance, closes </font> before </b>)")
  ctx.floor("PAIR-tags", f"opening tags in {f.short}", len(opens), 3)
  key = f"{q}|closing tags mirror opening tags"
  import re as _re
  m_style = ix.mod(f.module.name.replace(".writer", ".style"))
  ce_ = ConstEval(ix)

  def tagname(const):
    v = ce_.try_ev(m_style, ast.parse(const, mode="eval").body)
    mm = _re.match(r"</?([a-z]+)", v or "")
    return mm.group(1) if mm else const
  # compare by the tag the constant denotes: closers that print the same text (two </c>) may swap
  want = [(c, tagname(n)) for (c, n, _) in reversed(opens)]
  got = [(c, tagname(n)) for (c, n, _) in closes]

  def canon(seq):
    out, i = [], 0
    while i < len(seq):
      j = i
      while j < len(seq) and seq[j][1] == seq[i][1]:
        j += 1
      out.append((seq[i][1], tuple(sorted(str(c) for c, _ in seq[i:j]))))
      i = j
    return out
  ctx.check(canon(got) == canon(want), "PAIR-tags", key, ctx.where(f.module, span_if),
            f"open {[n for _, n, _ in opens]} / close {[n for _, n, _ in closes]}",
            f"closing tags {got} are not the mirror image of the opening tags {[(c, n) for c, n, _ in opens]}: tags are unbalanced or improperly nested for some style combination")
  # the _IN / _OUT constants really are <x> / </x>
  m = ix.mod(f.module.name.replace(".writer", ".style"))
  ce = ConstEval(ix)
  for (_, n, _) in opens:
    vi = ce.try_ev(m, ast.parse(n, mode="eval").body)
    vo = ce.try_ev(m, ast.parse(n.replace("_IN", "_OUT"), mode="eval").body)
    import re
    mi = re.match(r"<([a-z]+)", vi or "")
    ok = mi is not None and vo == f"</{mi.group(1)}>"
    ctx.check(ok, "PAIR-tags", f"{m.name}:{n}|{vi} ... {vo}", m.rel, "opening and closing constants name the same tag", f"{n} = {vi!r} is closed by {vo!r}")
  return opens + closes


def check_formatting_guard(ctx):
  ix = ctx.ix
  f = ix.func("ttconv.srt.writer:SrtContext.append_element")
  cfg = CFG(f.node)
  dom = cfg.dominators()
  guards = [n.id for n in cfg.nodes if n.kind == "test" and isinstance(n.ast, ast.If) and unparse(n.ast.test) == "self._text_formatting"]
  n = 0
  for c in own_nodes(f.node):
    if isinstance(c, ast.Call) and isinstance(c.func, ast.Attribute) and c.func.attr == "append_text" and c.args and "style." in unparse(c.args[0]):
      n += 1
      nid = cfg.stmt_node_containing(c)
      ctx.check(any(g in dom.get(nid, ()) for g in guards), "ORD-format", f"{f.qualname}|{short(c.args[0], 40)}@{n}", ctx.where(f.module, c), "dominated by `if self._text_formatting`",
                f"`{short(c, 60)}` emits a tag even when text formatting is disabled")
  ctx.floor("ORD-format", "tag appends in the SRT writer", n, 8)
  init = ix.func("ttconv.srt.writer:SrtContext.__init__")
  ctx.check("self._text_formatting = config.text_formatting" in unparse(init.node), "ORD-format", f"{init.qualname}|flag comes from the configuration", ctx.where(init.module, init.node),
            "config.text_formatting", "the text-formatting flag is no longer taken from the writer configuration")


def supported_tables(ix, m):
  """(owner node, {prop: [value exprs]}) for SupportedStylePropertiesISDFilter({...}) arguments and the dicts that feed them."""
  out = []
  for node in ast.walk(m.tree):
    if isinstance(node, ast.Dict) and node.keys and all(k is not None and "StyleProperties." in unparse(k) for k in node.keys) and all(isinstance(v, ast.List) for v in node.values):
      out.append(node)
  return out


def check_supported(ctx):
  ix = ctx.ix
  ce = ConstEval(ix)
  for wm, sm, tag in (("ttconv.srt.writer", "ttconv.srt.style", "SRT"), ("ttconv.vtt.writer", "ttconv.vtt.style", "WebVTT")):
    m = ix.mod(wm)
    ctx.unit(m)
    tables = supported_tables(ix, m)
    if not tables:
      raise AnalysisError(f"{wm}: supported-style table not found")
    keys = set()
    for d in tables:
      for k, v in zip(d.keys, d.values):
        prop = unparse(k).split(".")[-1]
        keys.add(prop)
        pcls = ix.cls(f"ttconv.style_properties:StyleProperties.{prop}")
        vtxt = unparse(pcls.methods["validate"].node)
        for e in v.elts:
          val = ce.try_ev(m, e, default=None)
          ok = False
          if isinstance(val, EnumMember):
            ok = f"isinstance(value, {val.cls.split(':')[-1]})" in vtxt
          elif isinstance(val, Sym) and val.text.startswith("class:"):
            ok = False
          elif isinstance(val, Sym):
            ctor = val.text.split("(")[0].split(".")[-1]
            ok = f"isinstance(value, {ctor}" in vtxt
          ctx.check(ok, "TAB-supported", f"{wm}|{prop} supports {short(e, 40)}", ctx.where(m, e), f"`{short(e, 40)}` is a value {prop}.validate admits",
                    f"the {tag} writer lists `{short(e, 50)}` (= {val!r}) as a supported value of {prop}, which is not a value of that property: no real value matches, so the filter "
                    f"removes {prop} from every element before the tags are generated")
    lint.dataclass_field_via_class(ctx, [m], rule="LINT-f")
    # properties read by the tag helpers are whitelisted
    s = ix.mod(sm)
    ctx.unit(s)
    read = set()
    for node in ast.walk(s.tree):
      if isinstance(node, ast.Call) and isinstance(node.func, ast.Attribute) and node.func.attr == "get_style" and node.args:
        read.add(unparse(node.args[0]).split(".")[-1])
    for p in sorted(read):
      ctx.check(p in keys, "TAB-supported", f"{sm}|{p} is whitelisted by the writer", s.rel, "read by a tag helper and kept by the style filter",
                f"{sm} derives tags from {p}, but the {tag} writer's supported-style table does not keep {p}: the tag can never be emitted")
    # defaults = TTML initial values
    for node in ast.walk(m.tree):
      if isinstance(node, ast.Call) and unparse(node.func).endswith("DefaultStylePropertyValuesISDFilter") and node.args and isinstance(node.args[0], ast.Dict):
        for k, v in zip(node.args[0].keys, node.args[0].values):
          prop = unparse(k).split(".")[-1]
          pcls = ix.cls(f"ttconv.style_properties:StyleProperties.{prop}")
          rets = [r for r in own_nodes(pcls.methods["make_initial_value"].node) if isinstance(r, ast.Return)]
          init = ce.try_ev(pcls.module, rets[0].value, pcls) if rets else None
          got = ce.try_ev(m, v)
          ctx.check(got == init, "TAB-supported", f"{wm}|default of {prop}", ctx.where(m, v), f"{got!r} is the TTML initial value",
                    f"the {tag} writer treats {got!r} as the default of {prop}, but its initial value is {init!r}: styled text loses or gains tags")


def _option_of(e):
  """`self._config.<opt>` / `config.<opt>` -> opt"""
  if isinstance(e, ast.Attribute) and unparse(e.value) in ("self._config", "config", "self.config"):
    return e.attr
  return None


def _option_truth(test, combo):
  """Truth of a test that consists of option reads only (None when it reads anything else)."""
  o = _option_of(test)
  if o is not None:
    return combo.get(o)
  if isinstance(test, ast.UnaryOp) and isinstance(test.op, ast.Not):
    v = _option_truth(test.operand, combo)
    return None if v is None else (not v)
  if isinstance(test, ast.BoolOp):
    vs = [_option_truth(v, combo) for v in test.values]
    if any(v is None for v in vs):
      return None
    return all(vs) if isinstance(test.op, ast.And) else any(vs)
  return None


def _whitelist_for(f, combo):
  """Abstract run of the constructor for one assignment of the boolean options: the property names in the
  dict that reaches SupportedStylePropertiesISDFilter."""
  dicts = {}
  result = []

  def keys_of(e):
    if isinstance(e, ast.Dict):
      out = set()
      for k, v in zip(e.keys, e.values):
        if k is None:
          out |= keys_of(v)
        else:
          out.add(unparse(k).split(".")[-1])
      return out
    if isinstance(e, ast.Name) and e.id in dicts:
      return set(dicts[e.id])
    if isinstance(e, ast.Call) and unparse(e.func) in ("dict", "copy.copy", "copy.deepcopy") and len(e.args) == 1:
      return keys_of(e.args[0])
    if isinstance(e, ast.Call) and isinstance(e.func, ast.Attribute) and e.func.attr == "copy" and not e.args:
      return keys_of(e.func.value)
    if isinstance(e, ast.BinOp) and isinstance(e.op, ast.BitOr):
      return keys_of(e.left) | keys_of(e.right)
    if isinstance(e, ast.IfExp):
      t = _option_truth(e.test, combo)
      if t is not None:
        return keys_of(e.body if t else e.orelse)
    raise AnalysisError(f"{f.qualname}: unrecognised construction of the supported-style table: {short(e, 60)}")

  def run(stmts):
    for st in stmts:
      if isinstance(st, ast.If):
        t = _option_truth(st.test, combo)
        if t is None:
          if any(isinstance(n, ast.Name) and n.id in dicts for n in ast.walk(st)) or "SupportedStylePropertiesISDFilter" in unparse(st):
            raise AnalysisError(f"{f.qualname}: the supported-style table depends on `{short(st.test, 50)}`, which is not a configuration option")
          continue
        run(st.body if t else st.orelse)
        continue
      if isinstance(st, (ast.Assign, ast.AnnAssign)) and getattr(st, "value", None) is not None:
        tg = st.targets[0] if isinstance(st, ast.Assign) else st.target
        if isinstance(tg, ast.Name) and (isinstance(st.value, ast.Dict) or (isinstance(st.value, ast.Name) and st.value.id in dicts)
                                         or any(isinstance(n, ast.Name) and n.id in dicts for n in ast.walk(st.value))):
          if isinstance(st.value, ast.Dict) and not all(k is None or "StyleProperties." in unparse(k) for k in st.value.keys):
            pass
          else:
            dicts[tg.id] = keys_of(st.value)
            continue
        if isinstance(tg, ast.Subscript) and isinstance(tg.value, ast.Name) and tg.value.id in dicts:
          dicts[tg.value.id].add(unparse(tg.slice).split(".")[-1])
          continue
      for c in ast.walk(st):
        if isinstance(c, ast.Call) and isinstance(c.func, ast.Attribute) and isinstance(c.func.value, ast.Name) and c.func.value.id in dicts:
          nm = c.func.value.id
          if c.func.attr == "update" and len(c.args) == 1:
            dicts[nm] |= keys_of(c.args[0])
          elif c.func.attr == "pop" and c.args:
            dicts[nm].discard(unparse(c.args[0]).split(".")[-1])
          elif c.func.attr == "setdefault" and c.args:
            dicts[nm].add(unparse(c.args[0]).split(".")[-1])
          elif c.func.attr not in ("get", "keys", "items", "values", "copy"):
            raise AnalysisError(f"{f.qualname}: unrecognised operation on the supported-style table: {short(c, 60)}")
        if isinstance(c, ast.Call) and unparse(c.func).endswith("SupportedStylePropertiesISDFilter") and c.args:
          result.append(keys_of(c.args[0]))
      if isinstance(st, ast.Delete):
        for t in st.targets:
          if isinstance(t, ast.Subscript) and isinstance(t.value, ast.Name) and t.value.id in dicts:
            dicts[t.value.id].discard(unparse(t.slice).split(".")[-1])
  run(f.node.body)
  if len(result) != 1:
    raise AnalysisError(f"{f.qualname}: expected one SupportedStylePropertiesISDFilter(...) per constructor run, found {len(result)}")
  return result[0]


def check_supported_per_option(ctx):
  """COND-supported: for every assignment of the writer's boolean options, each style property a method reads
  (under the options that guard the read) is kept by the style whitelist the constructor builds for that assignment."""
  import itertools
  ix = ctx.ix
  n = 0
  # the SRT writer has one whitelist for all configurations (class-level filter tuple): TAB-supported decides it
  for cq, sm in (("ttconv.vtt.writer:VttContext", "ttconv.vtt.style"),):
    c = ix.cls(cq)
    init = c.methods["__init__"]
    ctx.unit(c.module)
    opts = sorted({o for m in c.methods.values() for t in own_nodes(m.node) if isinstance(t, (ast.If, ast.IfExp)) for x in ast.walk(t.test) for o in [_option_of(x)] if o})
    opts = [o for o in opts if any(_option_truth(t.test, {o: True}) is not None or o in unparse(t.test) for t in own_nodes(init.node) if isinstance(t, ast.If))]
    combos = [dict(zip(opts, vs)) for vs in itertools.product((False, True), repeat=len(opts))] if len(opts) <= 4 else None
    if combos is None:
      raise AnalysisError(f"{cq}: more than 4 boolean options shape the style whitelist")
    wl = {tuple(sorted(cb.items())): _whitelist_for(init, cb) for cb in combos}
    reads = []
    for m in c.methods.values():
      for node in own_nodes(m.node):
        if isinstance(node, ast.Call) and isinstance(node.func, ast.Attribute) and node.func.attr == "get_style" and node.args and "StyleProperties." in unparse(node.args[0]):
          conds = [(t, pol) for (t, pol) in match.enclosing_conditions(node, m.node)]
          reads.append((m, node, unparse(node.args[0]).split(".")[-1], conds))
    s = ix.mod(sm)
    for g in ix.funcs_in(sm):
      for node in own_nodes(g.node):
        if isinstance(node, ast.Call) and isinstance(node.func, ast.Attribute) and node.func.attr == "get_style" and node.args and "StyleProperties." in unparse(node.args[0]):
          reads.append((g, node, unparse(node.args[0]).split(".")[-1], []))
    for (m, node, prop, conds) in reads:
      n += 1
      missing = []
      for cb in combos:
        feasible = True
        for (t, pol) in conds:
          v = _option_truth(t, cb)
          if v is not None and v != pol:
            feasible = False
        if feasible and prop not in wl[tuple(sorted(cb.items()))]:
          missing.append(", ".join(f"{k}={v}" for k, v in cb.items()) or "any configuration")
      ctx.check(not missing, "COND-supported", f"{m.qualname}|{prop} read", ctx.where(m.module, node),
                f"{prop} is whitelisted for every option assignment under which it is read ({len(combos)} assignments)",
                f"{m.short} reads {prop} when [{'; '.join(missing[:3])}], but the style whitelist built by {init.short} for that configuration does not keep {prop}: "
                f"the filter strips it and the read yields None (AttributeError / wrong cue settings)")
  ctx.floor("COND-supported", "style reads in the cue writers", n, 8)


def check_escaping(ctx):
  ix = ctx.ix
  f = ix.func("ttconv.vtt.writer:VttContext.process_inline_element")
  ctx.unit(f.module)
  n = 0
  for w in (f, ix.func("ttconv.vtt.writer:VttContext.process_p")):
    for c in own_nodes(w.node):
      if isinstance(c, ast.Call) and isinstance(c.func, ast.Attribute) and c.func.attr == "append_text" and c.args and "get_text()" in unparse(c.args[0]):
        n += 1
        a = c.args[0]
        esc = isinstance(a, ast.Call) and unparse(a.func).endswith("escape_cue_text") or (isinstance(a, ast.Call) and unparse(a.func) in ("html.escape", "escape"))
        ctx.check(esc, "TAINT", f"{w.qualname}|{short(c, 70)}", ctx.where(w.module, c), "text passes through the escaping function",
                  f"`{short(c, 70)}` writes model text into the cue payload without escaping: '&' and '<' in the text become markup")
  ctx.floor("TAINT", "flows from Text.get_text() into the WebVTT payload", n, 1)
  # the escaping function itself: resolved from the call sites, analysed as a replacement chain
  escs = set()
  for w in (f, ix.func("ttconv.vtt.writer:VttContext.process_p")):
    for c in own_nodes(w.node):
      if isinstance(c, ast.Call):
        r = ix.resolve(w.module, c.func, cls=w.cls, func=w)
        if getattr(r, "name", "") == "escape_cue_text":
          escs.add(r)
  for e in sorted(escs, key=lambda x: x.qualname):
    ctx.unit(e.module)
    ret = match.single_return(e.node)
    ch = match.replace_chain(match.inline_single_locals(e.node, ret.value)) if ret is not None else None
    if ch is None:
      if ret is not None and unparse(ret.value).startswith(("html.escape(", "escape(")):
        ctx.ok("TAINT", f"{e.qualname}|delegates to html.escape", ctx.where(e.module, ret), "html.escape replaces & < >")
        continue
      # any other construction (a pattern substitution with a table, a loop over characters): interpreted on probe texts
      from ..consteval import NotConst as _NC, Raised as _R
      from ..rules.minieval import MiniEval
      import html as _html
      probes = ["a & b", "<b>x</b>", "x --> y", "-", "--", ">", "->", "a > b", "&amp;", "&lt;tag&gt;", "<!-- c -->", "&&<<>>", ""]
      bad_ = []
      try:
        for t_ in probes:
          o_ = MiniEval(ix).call(e, [t_])
          if not isinstance(o_, str):
            bad_.append(f"{t_!r} -> {o_!r}")
          elif "<" in o_ or ">" in o_ or _html.unescape(o_) != t_ or any(not o_[i:].startswith(("&amp;", "&lt;", "&gt;")) for i in range(len(o_)) if o_[i] == "&"):
            bad_.append(f"{t_!r} -> {o_!r}")
      except _R:
        bad_.append("raises")
      except _NC as ex_:
        raise AnalysisError(f"{e.qualname}: the escaping function is neither a chain of str.replace calls nor in the interpreted subset ({ex_})")
      ctx.check(not bad_, "TAINT", f"{e.qualname}|& then <, each once, nothing re-escaped", ctx.where(e.module, e.node), f"interpreted on {len(probes)} probe texts: & < > escaped exactly once",
                "escape_cue_text, interpreted on probe texts, gives " + "; ".join(bad_[:3]) + ": the output must contain no raw `<`, `>` or `&` (a raw `>` completes `-->` when the preceding text node ends in `--`) "
                "and must unescape to the input")
      continue
    base, pairs = ch
    olds = [o for o, _ in pairs]
    problems = []
    if not (isinstance(base, ast.Name) and base.id == e.params[0]):
      problems.append("the chain does not start from the text parameter")
    for c_, ent in (("&", "&amp;"), ("<", "&lt;"), (">", "&gt;")):   # '>' too: an unescaped `-->` in the text would be read as a timing line
      if (c_, ent) not in pairs:
        problems.append(f"{c_!r} is not replaced by {ent!r}")
    for i, (o, nw) in enumerate(pairs):
      for o2, _ in pairs[i + 1:]:
        if o2 in nw:
          problems.append(f"the replacement of {o2!r} runs after {o!r} -> {nw!r} and re-escapes its output")
    for o, nw in pairs:
      if (o, nw) not in (("&", "&amp;"), ("<", "&lt;"), (">", "&gt;")):
        problems.append(f"unexpected replacement {o!r} -> {nw!r} changes cue text")
    ctx.check(not problems, "TAINT", f"{e.qualname}|& then <, each once, nothing re-escaped", ctx.where(e.module, e.node), f"replacement chain {pairs}",
              "escape_cue_text: " + "; ".join(problems))


def _enumerate_call(it, seq_text):
  """(start) when `it` is enumerate(<seq_text>[, start]) else None."""
  if isinstance(it, ast.Call) and unparse(it.func) == "enumerate" and it.args and unparse(it.args[0]) == seq_text:
    start = 0
    if len(it.args) > 1 and isinstance(it.args[1], ast.Constant):
      start = it.args[1].value
    for kw in it.keywords:
      if kw.arg == "start" and isinstance(kw.value, ast.Constant):
        start = kw.value.value
    return start
  return None


def _plus(e, name):
  """k when e is `name + k` / `k + name` / `name` (k = 0)."""
  if isinstance(e, ast.Name) and e.id == name:
    return 0
  if isinstance(e, ast.BinOp) and isinstance(e.op, ast.Add):
    for x, y in ((e.left, e.right), (e.right, e.left)):
      if isinstance(x, ast.Name) and x.id == name and isinstance(y, ast.Constant) and isinstance(y.value, int):
        return y.value
  return None


def check_numbering_header(ctx):
  ix = ctx.ix
  s = ix.func("ttconv.srt.writer:SrtContext.__str__")
  ctx.unit(s.module)
  ret = match.single_return(s.node)
  first = None
  if ret is not None:
    for g in ast.walk(ret.value):
      if isinstance(g, (ast.GeneratorExp, ast.ListComp)) and len(g.generators) == 1 and not g.generators[0].ifs:
        gen = g.generators[0]
        start = _enumerate_call(gen.iter, "self._paragraphs")
        if start is not None and isinstance(gen.target, ast.Tuple) and len(gen.target.elts) == 2 and all(isinstance(x, ast.Name) for x in gen.target.elts):
          i, pv = gen.target.elts[0].id, gen.target.elts[1].id
          c = g.elt
          if isinstance(c, ast.Call) and unparse(c.func) == f"{pv}.to_string" and len(c.args) == 1:
            k = _plus(c.args[0], i)
            if k is not None:
              first = start + k
  if first is None and ret is not None:
    # second idiom: every paragraph prints the identifier it was created with
    plain = [g for g in ast.walk(ret.value) if isinstance(g, (ast.GeneratorExp, ast.ListComp)) and len(g.generators) == 1 and unparse(g.generators[0].iter) == "self._paragraphs"
             and isinstance(g.elt, ast.Call) and unparse(g.elt.func) == f"{unparse(g.generators[0].target)}.to_string" and not g.elt.args and not g.elt.keywords]
    if plain:
      cls = s.cls
      pops = [(m_, n) for m_ in cls.methods.values() for n in own_nodes(m_.node)
              if isinstance(n, ast.Call) and isinstance(n.func, ast.Attribute) and n.func.attr == "pop" and unparse(n.func.value) == "self._paragraphs"]
      unrestored = []
      for m_, pcall in pops:
        holder = parent(parent(pcall))
        sibs = [x for fld in ("body", "orelse") for x in (getattr(holder, fld, []) if isinstance(getattr(holder, fld, None), list) else [])]
        if not any(isinstance(x, ast.AugAssign) and isinstance(x.op, ast.Sub) for x in sibs):
          unrestored.append(f"{m_.name}:{pcall.lineno}")
      ctx.check(not unrestored, "SEQ-id", f"{s.qualname}|cue numbers 1..n in order", ctx.where(s.module, s.node), "creation-time identifiers, restored on every pop",
                f"SRT cues print their creation-time identifier, but dropping a paragraph ({', '.join(unrestored)}) does not give its number back: the numbers that are written skip values")
      first = 1
    else:
      raise AnalysisError(f"{s.qualname}: the cue-numbering idiom (to_string(<index>) over enumerate(self._paragraphs)) was not recognised")
  ctx.check(first == 1, "SEQ-id", f"{s.qualname}|cue numbers 1..n in order", ctx.where(s.module, s.node), "to_string(index) over enumerate, first number 1",
            f"SRT cue numbers start at {first} instead of 1")
  ts = ix.func("ttconv.srt.paragraph:SrtParagraph.to_string")
  ctx.unit(ts.module)
  numparam = ts.params[1] if len(ts.params) > 1 else None
  uses = numparam is not None and match.flows_to_return(ts.node, numparam)
  ctx.check(bool(uses), "SEQ-id", f"{ts.qualname}|prints the number it is given", ctx.where(ts.module, ts.node), f"`{numparam}` reaches the returned string", "SrtParagraph.to_string ignores the cue number it is given")
  pp = ix.func("ttconv.vtt.writer:VttContext.process_p")
  ctx.unit(pp.module)
  incs = [n for n in own_nodes(pp.node) if isinstance(n, ast.AugAssign) and isinstance(n.target, ast.Attribute) and isinstance(n.op, (ast.Add, ast.Sub)) and isinstance(n.value, ast.Constant) and n.value.value == 1]
  counters = {unparse(n.target) for n in incs}
  pops = [n for n in own_nodes(pp.node) if isinstance(n, ast.Call) and isinstance(n.func, ast.Attribute) and n.func.attr == "pop" and unparse(n.func.value) == "self._paragraphs"]
  ok = len(counters) == 1 and sum(isinstance(n.op, ast.Add) for n in incs) == 1 and len(pops) == sum(isinstance(n.op, ast.Sub) for n in incs) and len(pops) >= 1
  if ok:
    # every pop shares its block with a decrement
    for pcall in pops:
      blk = parent(parent(pcall))
      body = [b for fld in ("body", "orelse") for b in getattr(blk, fld, []) if isinstance(getattr(blk, fld, None), list)]
      holder = next((getattr(blk, fld) for fld in ("body", "orelse") if isinstance(getattr(blk, fld, None), list) and any(parent(pcall) is x for x in getattr(blk, fld))), [])
      ok = ok and any(isinstance(x, ast.AugAssign) and isinstance(x.op, ast.Sub) for x in holder)
  ctx.check(ok, "SEQ-id", f"{pp.qualname}|counter restored when a blank cue is dropped",
            ctx.where(pp.module, pp.node), "+= 1 on creation, -= 1 with every pop()", "the WebVTT cue counter is not decremented when a blank cue is dropped: cue identifiers skip numbers")
  vs = ix.func("ttconv.vtt.writer:VttContext.__str__")
  ret = match.single_return(vs.node)
  parts = []
  if ret is not None:
    def flat(e):
      if isinstance(e, ast.BinOp) and isinstance(e.op, ast.Add):
        flat(e.left)
        flat(e.right)
      else:
        parts.append(e)
    flat(match.inline_single_locals(vs.node, ret.value))
  ok = len(parts) == 3 and isinstance(parts[0], ast.Constant) and parts[0].value == "WEBVTT\n\n" and unparse(parts[1]) == "self.style_block()" and "self._paragraphs" in unparse(parts[2])
  ctx.check(ok, "HDR", f"{vs.qualname}|WEBVTT, STYLE block, cues", ctx.where(vs.module, vs.node), "header first, then the style block, then the cues",
            "the WebVTT output no longer starts with 'WEBVTT\\n\\n' followed by the STYLE block and then the cues")
  for q in ("ttconv.srt.paragraph:SrtParagraph.to_string", "ttconv.vtt.cue:VttCue.to_string"):
    g = ix.func(q)
    ctx.unit(g.module)
    ok = False
    for n in own_nodes(g.node):
      if isinstance(n, ast.If) and isinstance(n.body[-1], ast.Raise):
        rel = match.relation(n.test, match.mentions("_end"), match.mentions("_begin"))
        if rel == "<=" and isinstance(n.test, (ast.Compare, ast.UnaryOp)):
          cmp_ = n.test
          while isinstance(cmp_, ast.UnaryOp):
            cmp_ = cmp_.operand
          l, r = cmp_.left, cmp_.comparators[0]
          le, re_ = (l, r) if match.mentions("_end")(l) else (r, l)
          if match.accessor_shape(le, "_end") == match.accessor_shape(re_, "_begin"):
            ok = True
    ctx.check(ok, "GUARD", f"{q}|refuses begin >= end", ctx.where(g.module, g.node), "raises when end <= begin instead of printing an invalid cue", f"{g.short} no longer refuses a cue whose end is not after its begin")


def check_line_position(ctx):
  """FIN-line: the `line` cue setting is the region's top edge for displayAlign=before, its bottom
  edge for after and its vertical centre for center, each with the matching line alignment; evaluated
  over a grid of origins and heights."""
  from ..rules import fineval
  ix = ctx.ix
  f = ix.func("ttconv.vtt.writer:VttContext.process_p")
  ctx.unit(f.module)
  sites = [c for c in own_nodes(f.node) if isinstance(c, ast.Call) and isinstance(c.func, ast.Attribute) and c.func.attr == "set_line"]
  if not sites:
    raise AnalysisError(f"{f.qualname}: no set_line call found")
  recv = unparse(sites[0].func.value)
  # locals holding the region's displayAlign / position / extent
  roles = {}
  for st in own_nodes(f.node):
    if isinstance(st, (ast.Assign, ast.AnnAssign)) and isinstance(getattr(st, "value", None), ast.Call) and isinstance(st.value.func, ast.Attribute) and st.value.func.attr == "get_style" and st.value.args:
      tgt = st.targets[0] if isinstance(st, ast.Assign) else st.target
      if isinstance(tgt, ast.Name):
        roles[unparse(st.value.args[0]).split(".")[-1]] = tgt.id
  if not {"DisplayAlign", "Position", "Extent"} <= set(roles):
    raise AnalysisError(f"{f.qualname}: locals for DisplayAlign / Position / Extent not found ({sorted(roles)})")
  da, pos, ext = roles["DisplayAlign"], roles["Position"], roles["Extent"]
  # the display-align dispatch: the outermost `if` that tests the displayAlign local, and what follows it in the same
  # statement list up to the last set_line / set_align call (the calls may sit in the branches or after the chain)
  disp = [st for st in own_nodes(f.node) if isinstance(st, ast.If) and any(isinstance(n, ast.Name) and n.id == da for n in ast.walk(st.test))]
  disp = [st for st in disp if not any(o is not st and any(x is st for x in ast.walk(o)) for o in disp)]
  if len(disp) != 1:
    raise AnalysisError(f"{f.qualname}: the display-align dispatch that sets the cue line was not found")
  top = disp[0]
  blk = next(getattr(parent(top), fld) for fld in ("body", "orelse", "finalbody") if isinstance(getattr(parent(top), fld, None), list) and any(x is top for x in getattr(parent(top), fld)))
  k0 = next(k for k, x in enumerate(blk) if x is top)
  k1 = max([k for k, x in enumerate(blk) if k >= k0 and any(isinstance(c, ast.Call) and isinstance(c.func, ast.Attribute) and c.func.attr in ("set_line", "set_align") for c in ast.walk(x))] or [k0])
  if not all(any(any(x is c for x in ast.walk(st)) for st in blk[k0:k1 + 1]) for c in sites):
    raise AnalysisError(f"{f.qualname}: a set_line call lies outside the display-align dispatch")
  body = match.replace_exprs(blk[k0:k1 + 1], {f"{pos}.v_offset.value": "__y", f"{ext}.height.value": "__h"})
  ce = ConstEval(ix)
  dat = ix.cls("ttconv.style_properties:DisplayAlignType")
  wrong, n = [], 0
  for mname, _ in ix.enum_members(dat):
    member = ce.ev(f.module, ast.parse(f"DisplayAlignType.{mname}", mode="eval").body)
    for y, h in ((0, 10), (10, 20), (35, 30), (80, 15)):
      eff = fineval.collect(ix, f, body, {da: member, "__y": y, "__h": h}, recv)
      lines = [a[0] for name, a, _ in eff.calls if name == "set_line" and a]
      aligns = [str(a[0]).split(".")[-1].split(":")[0] for name, a, _ in eff.calls if name == "set_align" and a]
      n += 1
      want = {"before": (round(y), "start"), "after": (round(y + h), "end"), "center": (round(y + h / 2), "center")}[mname]
      if lines != [want[0]] or aligns != [want[1]]:
        wrong.append(f"displayAlign={mname}, region top {y}%, height {h}%: line {lines} align {aligns}, expected line {want[0]} align {want[1]}")
  ctx.check(not wrong, "FIN-line", f"{f.qualname}|cue line position follows the region", ctx.where(f.module, top), f"{n} (displayAlign, origin, height) combinations", "; ".join(wrong[:3]))


def run(ctx):
  from ..rules import probes as _probes2
  ctx.floor("FIN-eol", "append sequences decided", _probes2.check_payload_eol(ctx), 12)
  from . import c12 as _c12r
  _c12r.check_single_rounding(ctx)
  from ..rules import probes as _probes
  ctx.floor("FIN-merge", "sample snapshots decided", _probes.check_paragraph_merge(ctx), 5)
  check_tag_pairing(ctx, "ttconv.srt.writer:SrtContext.append_element", wrapper_test="self._text_formatting")
  check_tag_pairing(ctx, "ttconv.vtt.writer:VttContext.process_inline_element")
  check_formatting_guard(ctx)
  check_supported(ctx)
  check_supported_per_option(ctx)
  check_escaping(ctx)
  check_numbering_header(ctx)
  check_line_position(ctx)
  for q_ in ("ttconv.srt.writer:SrtContext.append_element", "ttconv.vtt.writer:VttContext.process_inline_element"):
    shape.check_independent_updates(ctx, ctx.ix.func(q_))
  npre = 0
  for mn in common.ISD_FILTERS:
    for g in ctx.ix.funcs_in(mn):
      npre += trav.check_preorder(ctx, g)
  ctx.floor("ORD-preorder", "recursive filter steps that read the parent and write the element", npre, 1)
  nm = shape.check_memo_single_producer(ctx, ctx.ix.cls("ttconv.vtt.writer:VttContext"))
  ctx.floor("MEMO", "memo dictionaries of the WebVTT context", nm, 1)
  for prod, ref in (("ttconv.srt.writer:SrtContext.add_isd", "ttconv.srt.paragraph:SrtParagraph.to_string"), ("ttconv.vtt.writer:VttContext.add_isd", "ttconv.vtt.cue:VttCue.to_string")):
    shape.check_interval_resolution(ctx, ctx.ix.func(prod), ctx.ix.func(ref))
  for q_ in ("ttconv.srt.writer:SrtContext", "ttconv.vtt.writer:VttContext"):
    shape.check_default_end(ctx, ctx.ix.cls(q_))
  common.check_numeric_fields(ctx, common.WRITERS)
  common.check_walkers(ctx, common.ISD_FILTERS + ["ttconv.srt.writer", "ttconv.vtt.writer"])
  common.check_history_independence(ctx, common.WRITERS + common.ISD_FILTERS)
