"""ttverif: repository-specific static analysis for sandflow/ttconv.

Every check parses /repo/src/main/python/ttconv on each run (stdlib ``ast`` only) and
decides its rules from the syntax tree, per-function control-flow graphs, the resolved
class hierarchy / call graph and the literal tables of the code.  ttconv itself is never
imported or executed by a check.
"""

__all__ = ["core", "report"]
