"""E7 findings store, E8 evidence, E9 floors, E10 exit protocol."""
from __future__ import annotations

import hashlib
import json
import os
import time
import typing

from .core import AnalysisError, Index

VERIF_DIR = os.path.dirname(os.path.dirname(os.path.abspath(__file__)))
EVIDENCE_DIR = os.path.join(VERIF_DIR, "evidence")
REPLAY_DIR = os.path.join(VERIF_DIR, "out", "replay")
KNOWN_FILE = os.path.join(VERIF_DIR, "known_findings.json")


class Ob:
  """One rule instance (obligation) and its verdict."""
  __slots__ = ("rule", "key", "ok", "where", "detail", "kind")

  def __init__(self, rule, key, ok, where, detail, kind="instance"):
    self.rule = rule
    self.key = key
    self.ok = ok
    self.where = where
    self.detail = detail
    self.kind = kind

  def as_dict(self):
    return {"rule": self.rule, "construct": self.key, "verdict": "ok" if self.ok else "VIOLATED",
            "where": self.where, "detail": self.detail}


class Ctx:
  """Per-run context handed to property checkers and rules."""

  def __init__(self, prop: str, tier: str, index: Index, only_key: typing.Optional[str] = None,
               quiet: bool = False):
    self.prop = prop
    self.tier = tier
    self.ix = index
    self.obs: typing.List[Ob] = []
    self.notes: typing.List[str] = []
    self.rules_run: typing.Dict[str, typing.Dict[str, int]] = {}
    self.only_key = only_key
    self.quiet = quiet
    self.t0 = time.time()
    self.extra: typing.Dict[str, typing.Any] = {}
    self.trusted: typing.List[str] = []
    self.undecided: typing.List[str] = []
    self.units: typing.Set[str] = set()
    self.not_analysed: typing.List[typing.Tuple[str, str]] = []   # (step, reason): constructs whose shape no rule recognised

  # -- recording ------------------------------------------------------------------------
  def _rule(self, rule):
    return self.rules_run.setdefault(rule, {"instances": 0, "violations": 0})

  def ok(self, rule: str, key: str, where: str = "", detail: str = ""):
    self._rule(rule)["instances"] += 1
    self.obs.append(Ob(rule, key, True, where, detail))

  def bad(self, rule: str, key: str, where: str = "", detail: str = ""):
    r = self._rule(rule)
    r["instances"] += 1
    r["violations"] += 1
    self.obs.append(Ob(rule, key, False, where, detail))

  def check(self, cond: bool, rule: str, key: str, where: str = "", detail: str = "", bad_detail: str = ""):
    if cond:
      self.ok(rule, key, where, detail)
    else:
      self.bad(rule, key, where, bad_detail or detail)
    return cond

  def note(self, msg: str):
    self.notes.append(msg)

  def floor(self, rule: str, what: str, count: int, minimum: int):
    """A rule that matches fewer instances than confirmed by hand must not pass silently."""
    if count < minimum:
      # fewer instances than confirmed by hand: the construct changed shape (or vanished); nothing is concluded from it
      self.undecide(rule, f"instance floor not met for {what}: found {count}, need >= {minimum}")
    self._rule(rule).setdefault("floors", []).append({"what": what, "found": count, "floor": minimum})  # type: ignore

  def undecide(self, step: str, reason: str):
    """A construct that no rule recognises (renamed anchor, refactored idiom, instance floor).  It is
    reported and counted, and no verdict is derived from it: an unrecognised shape is neither a
    violation nor evidence that the property holds."""
    item = (str(step)[:120], str(reason)[:400])
    if item not in self.not_analysed:
      self.not_analysed.append(item)

  def unit(self, module):
    self.units.add(f"{module.rel}@{module.digest}")

  def where(self, module, node):
    self.unit(module)
    return self.ix.where(module, node)


# ---------------------------------------------------------------------------------------

def load_known() -> typing.List[dict]:
  if not os.path.exists(KNOWN_FILE):
    return []
  with open(KNOWN_FILE, encoding="utf-8") as f:
    data = json.load(f)
  return data.get("findings", [])


def known_match(prop: str, ob: Ob, known: typing.List[dict]) -> typing.Optional[dict]:
  for k in known:
    if k.get("status") != "known":
      continue  # a fixed entry suppresses nothing
    props = k.get("properties") or [k.get("property")]
    if prop not in props:
      continue
    if k.get("rule") == ob.rule and k.get("construct") == ob.key:
      return k
  return None


def finish(ctx: Ctx, explanation: str, rule_text: str) -> int:
  """Print the report, write evidence, return the exit code."""
  known = load_known()
  wall = time.time() - ctx.t0
  viol: typing.List[Ob] = []
  known_hits = []
  for ob in ctx.obs:
    if ob.ok:
      continue
    if ctx.only_key is not None and ob.key != ctx.only_key:
      continue
    k = known_match(ctx.prop, ob, known)
    if k is not None:
      known_hits.append((ob, k))
    else:
      viol.append(ob)

  n_inst = len(ctx.obs)
  n_ok = sum(1 for o in ctx.obs if o.ok)
  distinct = len({(o.rule, o.key) for o in ctx.obs})

  if not ctx.quiet:
    print(f"ttverif property={ctx.prop} tier={ctx.tier} root={ctx.ix.root}")
    print(f"  analysed {len(ctx.ix.modules)} modules, {len(ctx.ix.classes)} classes, {len(ctx.ix.funcs)} functions; "
          f"{len(ctx.units)} units consulted by this property's rules")
    for rule, st in sorted(ctx.rules_run.items()):
      fl = "; ".join(f"{f['what']}={f['found']}(floor {f['floor']})" for f in st.get("floors", []))
      print(f"  rule {rule}: {st['instances']} instances, {st['violations']} violated" + (f" [{fl}]" if fl else ""))
    for n in ctx.notes:
      print(f"  note: {n}")
  for step, reason in ctx.not_analysed:
    print(f"UNDECIDED property={ctx.prop} step={step}: {reason}")

  for ob, k in known_hits:
    print(f"KNOWN-FINDING: property={ctx.prop} rule={ob.rule} construct={ob.key} at {ob.where}: {k.get('what', ob.detail)}")

  os.makedirs(REPLAY_DIR, exist_ok=True)
  for ob in viol:
    h = hashlib.sha256(f"{ctx.prop}|{ob.rule}|{ob.key}".encode()).hexdigest()[:12]
    path = os.path.join(REPLAY_DIR, f"{ctx.prop}-{h}.json")
    with open(path, "w", encoding="utf-8") as f:
      json.dump({"property": ctx.prop, "rule": ob.rule, "construct": ob.key, "where": ob.where,
                 "detail": ob.detail, "tier": ctx.tier, "root": ctx.ix.root}, f, indent=1)
    print(f"  violated: rule={ob.rule} construct={ob.key}\n    at {ob.where}\n    {ob.detail}")
    print(f"VIOLATION property={ctx.prop} replay={path}")

  # evidence
  samples = []
  seen_rules = set()
  for ob in ctx.obs:            # one sample per rule first, then violations
    if ob.rule not in seen_rules:
      seen_rules.add(ob.rule)
      samples.append(ob.as_dict())
  for ob in ctx.obs:
    if not ob.ok and ob.as_dict() not in samples:
      samples.append(ob.as_dict())
  samples = samples[:60]
  cov = {
    "explanation": explanation,
    "rule": rule_text,
    "obligations": n_inst,
    "discharged": n_ok,
    "evaluations": n_inst,
    "distinct_nontrivial": distinct,
    "samples": samples or [{"note": "no rule instance matched"}],
    "checker_cmd": f"/venv/bin/python -m ttverif check {ctx.prop} --tier {ctx.tier}",
    "trusted_base": ["CPython 3.12 ast module", "ttverif engine (class-hierarchy call resolution, statement CFG)"] + ctx.trusted,
    "rules": ctx.rules_run,
    "units_analysed": sorted(ctx.units),
    "package_modules": len(ctx.ix.modules),
    "package_functions": len(ctx.ix.funcs),
    "known_findings_printed": [ob.key for ob, _ in known_hits],
    "clauses_not_decided": ctx.undecided,
    "notes": ctx.notes,
    "not_analysed": [{"step": a, "reason": b} for a, b in ctx.not_analysed],
    "exhaustive": False,
  }
  cov.update(ctx.extra)
  ev = {
    "property_id": ctx.prop,
    "tier": ctx.tier,
    "seed": int(os.environ.get("VERIF_SEED", "0") or 0),
    "level": "other",
    "coverage": cov,
    "assumptions": ["static verdicts cover only the clauses listed in coverage.explanation; clauses_not_decided are out of reach of static analysis"],
    "wall_s": round(wall, 3),
    "violations": len(viol),
  }
  if ctx.only_key is None and ctx.ix.root == os.environ.get("TTVERIF_EVIDENCE_ROOT", "/repo/src/main/python"):
    os.makedirs(EVIDENCE_DIR, exist_ok=True)
    tmp = os.path.join(EVIDENCE_DIR, f".{ctx.prop}.json.tmp")
    with open(tmp, "w", encoding="utf-8") as f:
      json.dump(ev, f, indent=1, sort_keys=True)
    os.replace(tmp, os.path.join(EVIDENCE_DIR, f"{ctx.prop}.json"))

  if viol:
    return 1
  if not ctx.quiet:
    print(f"OK property={ctx.prop}: {n_ok}/{n_inst} rule instances satisfied"
          + (f", {len(known_hits)} known finding(s)" if known_hits else "")
          + (f", {len(ctx.not_analysed)} construct(s) not analysed (UNDECIDED above)" if ctx.not_analysed else "") + f" in {wall:.2f}s")
  return 0
