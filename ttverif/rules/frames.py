"""FRAME-time: a frame-of-reference check (a units-of-measure analysis) of the IMSC reader's timing arithmetic.

Every ParsingContext carries four positions on a time axis - implicit_begin, desired_begin, desired_end,
implicit_end - expressed relative to the begin of the PARENT element (that is also what model.set_begin / set_end
expect), and three offsets - explicit_begin, explicit_dur, explicit_end - read from the attributes.  Inside
`process(self, parent_ctx, ..)` three axes are therefore in play:

  G  the axis of parent_ctx's positions (origin: begin of the grandparent)
  P  the axis of self's positions       (origin: begin of the parent, which is parent_ctx.desired_begin on G)
  S  the axis of a child's positions    (origin: begin of self, which is self.desired_begin on P)

The rule types every expression over these fields: position + offset stays on its axis; a position on S plus
self.desired_begin is a position on P (likewise P plus parent_ctx.desired_begin on G); a position minus the origin of
the next inner axis is a position on that axis; max / min / comparisons / conditional expressions need all operands on
one axis; a store into a position field of self needs a value on P.  A violation names the expression that mixes axes.
"""
from __future__ import annotations

import ast
import typing

from ..core import AnalysisError, FuncInfo, own_nodes, short, unparse

POSITIONS = ("implicit_begin", "desired_begin", "desired_end", "implicit_end")
OFFSETS = ("explicit_begin", "explicit_dur", "explicit_end")
INNER = {"G": "P", "P": "S"}
OUTER = {"S": "P", "P": "G"}


class Mix(Exception):
  def __init__(self, node, why):
    super().__init__(why)
    self.node, self.why = node, why


def _child_locals(f: FuncInfo, self_name: str) -> typing.Set[str]:
  """Locals bound to the context of a child: `<x> = <Class>.from_xml(self, ..)` (the callee builds a context whose parent is self)."""
  out = set()
  for n in own_nodes(f.node):
    if isinstance(n, ast.Assign) and len(n.targets) == 1 and isinstance(n.targets[0], ast.Name) and isinstance(n.value, ast.Call) \
        and isinstance(n.value.func, ast.Attribute) and n.value.func.attr == "from_xml" and n.value.args \
        and isinstance(n.value.args[0], ast.Name) and n.value.args[0].id == self_name:
      out.add(n.targets[0].id)
  return out


def check_time_frames(ctx, f: FuncInfo, rule="FRAME-time", sinks=("set_begin", "set_end")) -> int:
  params = f.params
  if len(params) < 2:
    raise AnalysisError(f"{f.qualname}: expected (self, parent_ctx, ..)")
  self_name, parent_name = params[0], params[1]
  kids = _child_locals(f, self_name)
  axis_of = {self_name: "P", parent_name: "G", **{k: "S" for k in kids}}
  origin = {"P": f"{parent_name}.desired_begin", "S": f"{self_name}.desired_begin"}   # origin of the axis, written on the next outer axis

  def typ(e) -> typing.Optional[str]:
    """'G' / 'P' / 'S' (a position on that axis), 'V' (an offset / duration), 'Z' (fits anything: 0, None), None (not typed)."""
    if isinstance(e, ast.Constant) and (e.value is None or e.value == 0):
      return "Z"
    if isinstance(e, ast.Call) and isinstance(e.func, ast.Name) and e.func.id == "Fraction" and len(e.args) == 1 and isinstance(e.args[0], ast.Constant) and e.args[0].value == 0:
      return "Z"
    if isinstance(e, ast.Attribute) and isinstance(e.value, ast.Name) and e.value.id in axis_of:
      if e.attr in POSITIONS:
        return axis_of[e.value.id]
      if e.attr in OFFSETS:
        return "V"
      return None
    if isinstance(e, ast.IfExp):
      return same([e.body, e.orelse], e, "the two arms of the conditional expression")
    if isinstance(e, ast.Call) and isinstance(e.func, ast.Name) and e.func.id in ("max", "min") and len(e.args) >= 2 and not e.keywords:
      return same(e.args, e, f"the arguments of {e.func.id}()")
    if isinstance(e, ast.BinOp) and isinstance(e.op, (ast.Add, ast.Sub)):
      l, r = typ(e.left), typ(e.right)
      if l is None or r is None:
        return None
      if isinstance(e.op, ast.Add):
        if r in ("V", "Z"):
          return l if l != "Z" else r
        if l in ("V", "Z"):
          return r
        # two positions: legal only as <position on an inner axis> + <origin of that axis>
        for a, b, bn in ((l, r, e.right), (r, l, e.left)):
          if a in origin and unparse(bn) == origin[a]:
            return OUTER[a]
        raise Mix(e, f"adds a position on axis {l} and a position on axis {r} (only the origin of an axis may be added to a position on it)")
      # subtraction
      if r in ("V", "Z"):
        return l if l != "Z" else r
      if l in ("V", "Z"):
        raise Mix(e, "subtracts a position from an offset")
      if l != r:
        raise Mix(e, f"subtracts a position on axis {r} from a position on axis {l}")
      inner = INNER.get(l)
      if inner is not None and unparse(e.right) == origin[inner]:
        return inner
      return "V"
    return None

  def same(exprs, node, what) -> typing.Optional[str]:
    ts = [typ(x) for x in exprs]
    if any(t is None for t in ts):
      return None
    real = sorted({t for t in ts if t != "Z"})
    if len(real) > 1:
      names = ", ".join(f"`{short(x, 40)}` on {t}" for x, t in zip(exprs, ts) if t != "Z")
      raise Mix(node, f"{what} are on different time axes: {names}")
    return real[0] if real else "Z"

  n = 0
  AXES = {"G": f"relative to the begin of {parent_name}'s parent", "P": f"relative to the begin of the parent element ({parent_name})",
          "S": "relative to the begin of this element", "V": "an offset", "Z": "zero / None"}

  def judge(node, fn, key, expect=None, what=""):
    nonlocal n
    try:
      t = fn()
    except Mix as m:
      n += 1
      ctx.bad(rule, f"{f.qualname}|{short(m.node, 70)}", ctx.where(f.module, m.node), f"`{short(m.node, 90)}` {m.why}")
      return
    if t is None:
      return
    n += 1
    if expect is not None and t not in (expect, "Z"):
      ctx.bad(rule, f"{f.qualname}|{key}", ctx.where(f.module, node), f"{what} needs a time {AXES[expect]}; `{short(node, 80)}` is {AXES[t]}")
    else:
      ctx.ok(rule, f"{f.qualname}|{key}", ctx.where(f.module, node), f"axis {t}")

  for st in own_nodes(f.node):
    if isinstance(st, ast.Assign) and len(st.targets) == 1:
      t = st.targets[0]
      if isinstance(t, ast.Attribute) and isinstance(t.value, ast.Name) and t.value.id in axis_of and t.attr in POSITIONS:
        judge(st.value, lambda v=st.value: typ(v), f"{unparse(t)} = {short(st.value, 60)}", expect=axis_of[t.value.id], what=f"the position field {unparse(t)}")
    elif isinstance(st, ast.Compare) and len(st.ops) == 1 and not (isinstance(st.ops[0], (ast.Is, ast.IsNot))):
      judge(st, lambda c=st: same([c.left, c.comparators[0]], c, "the two sides of the comparison"), short(st, 70))
    elif isinstance(st, ast.Call) and isinstance(st.func, ast.Attribute) and st.func.attr in sinks and len(st.args) == 1 \
        and unparse(st.func.value).startswith(self_name + "."):
      judge(st.args[0], lambda v=st.args[0]: typ(v), f"{st.func.attr}({short(st.args[0], 50)})", expect="P", what=f"model.{st.func.attr} (times of the model are relative to the parent's begin)")
  return n
