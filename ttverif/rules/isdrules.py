"""Rules specific to ttconv/isd.py: CMP (order abstraction / truth tables), DEP (dependence
signatures and frame agreement), ORD/PRI (marker ordering and precedence guards), AXIS."""
from __future__ import annotations

import ast
import copy
import itertools
import typing
from fractions import Fraction

from ..consteval import ConstEval, EnumMember, FuncEval, NotConst, Raised, Sym
from ..core import AnalysisError, ClassInfo, FuncInfo, Index, own_nodes, parent, short, unparse

ISD = "ttconv.isd:ISD"


# ---------------------------------------------------------------------------------------
# helpers
# ---------------------------------------------------------------------------------------

class _Subst(ast.NodeTransformer):
  def __init__(self, mapping):
    self.mapping = mapping

  def visit(self, node):
    if isinstance(node, ast.expr):
      t = unparse(node)
      if t in self.mapping:
        return ast.copy_location(ast.Name(id=self.mapping[t], ctx=ast.Load()), node)
    return self.generic_visit(node)


def substitute(expr, mapping: typing.Dict[str, str]):
  from ..core import clone as _c
  return ast.fix_missing_locations(_Subst(mapping).visit(_c(expr)))


def names_in(expr) -> typing.Set[str]:
  return {n.id for n in ast.walk(expr) if isinstance(n, ast.Name)}


def top_level_index(f: FuncInfo, node) -> int:
  """Index in f's body of the top-level statement that contains node."""
  cur = node
  while parent(cur) is not None and parent(cur) is not f.node:
    cur = parent(cur)
  try:
    return f.node.body.index(cur)
  except ValueError:
    return -1


def exits_after(st: ast.If) -> bool:
  """Does the body of this If end in return / continue (a 'skip' guard)?"""
  last = st.body[-1]
  return isinstance(last, (ast.Return, ast.Continue)) and (not isinstance(last, ast.Return) or last.value is None or
                                                         (isinstance(last.value, ast.Constant) and last.value.value is None))


# ---------------------------------------------------------------------------------------
# CMP: activity guards
# ---------------------------------------------------------------------------------------

def interval_pairs(f: FuncInfo) -> typing.List[typing.Tuple[str, str, ast.AST]]:
  """(begin var, end var, defining stmt) for tuple-unpackings of an interval: the result of
  _make_absolute(...) or a name that holds one (element_interval)."""
  out = []
  interval_names = set()
  for st in own_nodes(f.node):
    if isinstance(st, ast.Assign) and len(st.targets) == 1:
      v = st.value
      is_ma = isinstance(v, ast.Call) and unparse(v.func).endswith("_make_absolute")
      if is_ma and isinstance(st.targets[0], ast.Name):
        interval_names.add(st.targets[0].id)
  for st in own_nodes(f.node):
    if isinstance(st, ast.Assign) and len(st.targets) == 1 and isinstance(st.targets[0], ast.Tuple) and len(st.targets[0].elts) == 2 \
        and all(isinstance(e, ast.Name) for e in st.targets[0].elts):
      v = st.value
      if (isinstance(v, ast.Call) and unparse(v.func).endswith("_make_absolute")) or (isinstance(v, ast.Name) and v.id in interval_names):
        out.append((st.targets[0].elts[0].id, st.targets[0].elts[1].id, st))
  return out


TIME_DOMAIN = [None, Fraction(5), Fraction(10), Fraction(15)]


def inactive_oracle(b, e, t) -> bool:
  """TTML: active <=> (b is None or b <= t) and (e is None or t < e)."""
  return not ((b is None or b <= t) and (e is None or t < e))


def eval_skip_tests(ix: Index, f: FuncInfo, tests: typing.List[ast.AST], bname: str, ename: str, tname: str, b_may_be_none=True):
  """Evaluate any(tests) for all orderings of b, e against t=10 (and None cases)."""
  ce = ConstEval(ix, symbolic_ok=False)
  t = Fraction(10)
  rows = []
  for b in TIME_DOMAIN:
    if b is None and not b_may_be_none:
      continue
    for e in TIME_DOMAIN:
      env = {bname: b, ename: e, tname: t}
      got = False
      for test in tests:
        try:
          if ce.ev(f.module, test, f.cls, env):
            got = True
        except NotConst as ex:
          raise AnalysisError(f"{f.qualname}: activity test `{short(test)}` leaves the evaluable subset ({ex})")
        except TypeError as ex:
          raise AnalysisError(f"{f.qualname}: activity test `{short(test)}` compares None ({ex})")
      rows.append((b, e, got, inactive_oracle(b, e, t)))
  return rows


def check_activity_guards(ctx, rule="CMP-activity"):
  """The three guards that decide temporal activity agree with begin-inclusive / end-exclusive."""
  ix = ctx.ix
  pe = ix.func(f"{ISD}._process_element")
  ctx.unit(pe.module)
  fm = ix.func(f"{ISD}.from_model")
  # query-time parameter of from_model = its 2nd parameter; position in the _process_element call
  tparam_fm = fm.params[1]
  tname = None
  for c in own_nodes(fm.node):
    if isinstance(c, ast.Call) and unparse(c.func).endswith("_process_element"):
      for i, a in enumerate(c.args):
        if isinstance(a, ast.Name) and a.id == tparam_fm:
          tname = pe.params[i]
  if tname is None:
    raise AnalysisError("from_model no longer passes its time offset to _process_element (anchor changed)")
  n = 0
  pairs = interval_pairs(pe)
  if len(pairs) < 2:
    raise AnalysisError(f"_process_element: expected >= 2 interval unpackings (element, animation step), found {len(pairs)}")
  for (bv, ev, st) in pairs:
    tests = []
    from . import match as _mt
    for g0 in own_nodes(pe.node):
      if not isinstance(g0, ast.If):
        continue
      g = g0
      bare = g0.test.operand if isinstance(g0.test, ast.UnaryOp) and isinstance(g0.test.op, ast.Not) else g0.test
      if not (tname in names_in(g.test) and ({bv, ev} & names_in(g.test))) and isinstance(bare, ast.Name):
        # the test may read the comparison through a local (`is_active = not (...)`; `if not is_active: return None`)
        t_in = _mt.inline_locals_deep(pe.node, g0.test, keep={bv, ev, tname})
        if tname in names_in(t_in) and ({bv, ev} & names_in(t_in)):
          g = ast.If(test=t_in, body=g0.body, orelse=g0.orelse)
          ast.copy_location(g, g0)
          ast.fix_missing_locations(g)
          g._parent = getattr(g0, "_parent", None)
      if isinstance(g, ast.If) and tname in names_in(g.test) and ({bv, ev} & names_in(g.test)):
        if exits_after(g):
          tests.append(g)
        elif not g.orelse or (isinstance(g.orelse[-1], (ast.Continue, ast.Return)) and not exits_after(g)):
          # the positive form: `if <active>: <use the element / step>` (nothing else happens when the test fails)
          neg = ast.If(test=ast.UnaryOp(op=ast.Not(), operand=g.test), body=g.body, orelse=[])
          ast.copy_location(neg, g)
          ast.fix_missing_locations(neg)
          tests.append(neg)
    what = "animation step" if "anim" in bv or "anim" in unparse(st.value) else "element"
    if not tests:
      ctx.bad(rule, f"{pe.qualname}|{what} interval ({bv}, {ev})", ctx.where(pe.module, st),
              f"no guard compares the {what} interval ({bv}, {ev}) with the query time `{tname}`: inactive {what}s are not excluded")
      n += 1
      continue
    rows = eval_skip_tests(ix, pe, [g.test for g in tests], bv, ev, tname)
    wrong = [(b, e, got, want) for (b, e, got, want) in rows if got != want]
    n += 1
    ctx.check(not wrong, rule, f"{pe.qualname}|{what} interval ({bv}, {ev})", ctx.where(pe.module, tests[0]),
              f"skip <=> not(b <= t < e) for all {len(rows)} orderings incl. None (tests: {[short(g.test, 60) for g in tests]})",
              f"the {what} activity guard disagrees with begin-inclusive/end-exclusive activity: "
              + "; ".join(f"b={b} e={e} t=10: skips={got}, TTML says inactive={want}" for b, e, got, want in wrong[:3]))
  # from_model content-interval short cut (the interval is read as <x>.content_interval or through a local that holds it)
  ci_alias = {st.targets[0].id for st in own_nodes(fm.node) if isinstance(st, ast.Assign) and len(st.targets) == 1 and isinstance(st.targets[0], ast.Name)
              and unparse(st.value).endswith("content_interval")}

  def ci_subscripts(test):
    return [a for a in ast.walk(test) if isinstance(a, ast.Subscript) and isinstance(a.slice, ast.Constant) and a.slice.value in (0, 1)
            and (unparse(a.value).endswith("content_interval") or (isinstance(a.value, ast.Name) and a.value.id in ci_alias))]
  ci_tests = [g for g in own_nodes(fm.node) if isinstance(g, ast.If) and ci_subscripts(g.test) and tparam_fm in names_in(g.test) and exits_after(g)]
  n += 1
  if not ci_tests:
    ctx.ok(rule, f"{fm.qualname}|content-interval short cut absent", ctx.where(fm.module, fm.node), "no content-interval short cut")
  else:
    g = ci_tests[0]
    recv = unparse(ci_subscripts(g.test)[0].value)
    # `<interval> is not None` inside the test is the presence guard: the comparison is evaluated for a present interval
    tests_ = [substitute(gg.test, {f"{recv}[0]": "__b", f"{recv}[1]": "__e", f"{recv} is not None": "True", f"{recv} is None": "False"}) for gg in ci_tests]
    rows = eval_skip_tests(ix, fm, tests_, "__b", "__e", tparam_fm, b_may_be_none=False)
    wrong = [(b, e, got, want) for (b, e, got, want) in rows if got != want]
    ctx.check(not wrong, rule, f"{fm.qualname}|content-interval short cut", ctx.where(fm.module, g),
              f"skip <=> t outside [b, e) for all {len(rows)} orderings",
              "the content-interval short cut skips documents at times inside their content interval (or not outside): "
              + "; ".join(f"b={b} e={e} t=10: skips={got}, outside={want}" for b, e, got, want in wrong[:3]))
    # it must be guarded by `content_interval is not None`: an enclosing if, or the first operand of the same `and`
    from . import match as _m
    # decided by evaluation: with the interval absent (`recv is None`), the conditions that lead into the short cut, in their
    # evaluation order, must come out false before any component of the interval is read
    ce_ = ConstEval(ix, symbolic_ok=False)
    absent = {f"{recv}[0]": "__absent_b", f"{recv}[1]": "__absent_e", f"{recv} is not None": "False", f"{recv} is None": "True"}
    guarded = True
    for gg in ci_tests:
      conds = [(t, pol) for t, pol in _m.enclosing_conditions(gg, fm.node)] + [(gg.test, True)]
      reached = True
      for (t, pol) in conds:
        if not any(recv in unparse(x) for x in ast.walk(t) if isinstance(x, (ast.Name, ast.Attribute))):
          continue          # a condition about something else (the loop, the cache): does not decide the guard
        try:
          v = bool(ce_.ev(fm.module, substitute(t, absent), fm.cls, {tparam_fm: Fraction(10)}))
        except NotConst:
          guarded = False       # a component of the absent interval is read
          reached = False
          break
        if v != pol:
          reached = False
          break
      if reached:
        guarded = False         # the short cut is taken although there is no interval
    ctx.check(guarded, rule, f"{fm.qualname}|short cut only with a content interval",
              ctx.where(fm.module, g), "guarded by `content_interval is not None`", "the content-interval short cut is no longer guarded by `content_interval is not None`")
    n += 1
  return n


# ---------------------------------------------------------------------------------------
# FIN / DEP: _make_absolute
# ---------------------------------------------------------------------------------------

def make_absolute_oracle(bo, eo, pb, pe):
  base = pb if pb is not None else Fraction(0)
  begin = base + (bo if bo is not None else Fraction(0))
  if eo is None:
    end = pe
  else:
    end = base + eo
    if pe is not None:
      end = min(end, pe)
  return (begin, end)


def check_make_absolute(ctx, rule="CMP-absolute"):
  ix = ctx.ix
  f = ix.func(f"{ISD}._make_absolute")
  ctx.unit(f.module)
  fe = FuncEval(ix)
  p = f.params
  if len(p) != 4:
    raise AnalysisError("_make_absolute no longer has four parameters")
  dom_off = [None, Fraction(0), Fraction(2), Fraction(7)]
  dom_pb = [None, Fraction(0), Fraction(10)]
  dom_pe = [None, Fraction(12), Fraction(15), Fraction(30)]
  wrong = []
  n = 0
  for bo, eo, pb, pe in itertools.product(dom_off, dom_off, dom_pb, dom_pe):
    try:
      got = fe.call(f, {p[0]: bo, p[1]: eo, p[2]: pb, p[3]: pe})
    except NotConst as e:
      raise AnalysisError(f"_make_absolute leaves the evaluable subset: {e}")
    n += 1
    want = make_absolute_oracle(bo, eo, pb, pe)
    if tuple(got) != want:
      wrong.append(((bo, eo, pb, pe), got, want))
  ctx.extra["make_absolute_grid_points"] = n
  ctx.check(not wrong, rule, f"{f.qualname}|offsets relative to parent begin, end clipped by parent end", ctx.where(f.module, f.node),
            f"agrees with the TTML rule on all {n} grid points (every None combination and every ordering of end vs. parent end)",
            "absolute interval differs from 'parent begin + offset, end clipped by parent end': "
            + "; ".join(f"(begin_offset, end_offset, parent_begin, parent_end)={k}: got {g}, want {w}" for k, g, w in wrong[:3]))
  # dependence signature (data + control dependence of the two returned components)
  deps = dependence(f)
  rets = [r for r in own_nodes(f.node) if isinstance(r, ast.Return)]
  if len(rets) != 1 or not isinstance(rets[0].value, ast.Tuple) or len(rets[0].value.elts) != 2:
    raise AnalysisError("_make_absolute: expected a single `return (begin, end)`")
  sig = []
  for e in rets[0].value.elts:
    d = set()
    for nm in names_in(e):
      d |= deps.get(nm, {nm})
    sig.append(d & set(p))
  want_sig = [{p[0], p[2]}, {p[1], p[2], p[3]}]
  ctx.check(sig == want_sig, "DEP-absolute", f"{f.qualname}|dependence signature", ctx.where(f.module, rets[0]),
            f"begin depends on {sorted(sig[0])}, end on {sorted(sig[1])}",
            f"_make_absolute: begin depends on {sorted(sig[0])} (want {sorted(want_sig[0])}), end on {sorted(sig[1])} (want {sorted(want_sig[1])})")
  return n


def dependence(f: FuncInfo) -> typing.Dict[str, typing.Set[str]]:
  """var -> set of names it (transitively) depends on (data + control), for branch/assign code."""
  deps: typing.Dict[str, typing.Set[str]] = {}

  def walk(stmts, ctrl: typing.Set[str]):
    for st in stmts:
      if isinstance(st, ast.Assign):
        src = set()
        for nm in names_in(st.value):
          src |= deps.get(nm, {nm})
        src |= ctrl
        for t in st.targets:
          for nm in ast.walk(t):
            if isinstance(nm, ast.Name):
              deps[nm.id] = deps.get(nm.id, set()) | src if any(isinstance(a, ast.If) for a in _ancestors_until(st, f.node)) else set(src)
      elif isinstance(st, ast.If):
        c = set()
        for nm in names_in(st.test):
          c |= deps.get(nm, {nm})
        walk(st.body, ctrl | c)
        walk(st.orelse, ctrl | c)
      elif isinstance(st, (ast.For, ast.While)):
        walk(st.body, ctrl)
  walk(f.node.body, set())
  return deps


def _ancestors_until(node, stop):
  out = []
  cur = parent(node)
  while cur is not None and cur is not stop:
    out.append(cur)
    cur = parent(cur)
  return out


# ---------------------------------------------------------------------------------------
# DEP: frame agreement at _make_absolute / recursive call sites
# ---------------------------------------------------------------------------------------

def collector_frames_by_evaluation(ctx, f: FuncInfo, rule="DEP-frame"):
  """The collector of significant times, interpreted (rules/minieval.py) on a sample tree with begin / end offsets at four depths
  (an end that exceeds the parent's, unbounded ends, a line break, nested spans; no animation steps, which part (2) of DEP-frame
  decides): the interval it records for every element is the TTML absolute interval (begin relative to the parent's begin, end
  clamped by the parent's end), every element is visited, the times collected are exactly the begins and bounded ends, and the
  content interval is the hull of the span / br intervals.  Decides the clauses for any control structure (recursion, explicit
  stack).  Returns False when the function leaves the interpreted subset."""
  from .minieval import MiniEval, Node
  F_ = Fraction
  mk = lambda kind, name, b, e, ch=(): Node(kind, name, ch, begin=b, end=e, animation_steps=[])
  tree = mk("Body", "body", None, None, [
    mk("Div", "d1", F_(10), F_(40), [
      mk("P", "p1", F_(2), None, [mk("Span", "s1", F_(3), F_(5), [mk("Span", "s11", F_(1), F_(100))]), mk("Br", "br1", None, None), mk("Span", "s2", None, F_(4))]),
      mk("P", "p2", F_(20), F_(45), [mk("Span", "s3", None, None)])]),
    mk("Div", "d2", None, F_(7), [mk("P", "p3", F_(1), F_(3), [mk("Span", "s4", F_(1, 2), None)])])])

  # two animation steps on elements without an own offset (there the element's frame and its parent's coincide, so the
  # expected times do not depend on which of the two the collector uses - that is decided by DEP-frame part 2)
  step = lambda b, e: {"__record__": "DiscreteAnimationStep", "begin": b, "end": e}
  by_name = {n_.name: n_ for n_ in tree.walk()}
  by_name["s3"].fields["animation_steps"] = [step(F_(2), F_(5)), step(None, F_(1))]
  by_name["body"].fields["animation_steps"] = [step(F_(1), None)]
  anim_times = {F_(32), F_(35), F_(30), F_(31), F_(1), F_(0)}

  def absolute(n_, pb, pe):
    b = (pb or F_(0)) + (n_.fields["begin"] or F_(0))
    e = None if n_.fields["end"] is None else (pb or F_(0)) + n_.fields["end"]
    if pe is not None:
      e = pe if e is None else min(e, pe)
    return b, e
  want = {}

  def fill(n_, pb, pe):
    want[n_.name] = absolute(n_, pb, pe)
    for c_ in n_.children:
      fill(c_, *want[n_.name])
  fill(tree, F_(0), None)
  names = [x.arg for x in f.node.args.args]
  if len(names) != 6:
    return False
  cache, ci, times = {}, [None, None], set()
  # the initial content interval is what the caller passes (a list display assigned before the calls)
  outer = f.outer_func
  if outer is not None:
    for c_ in own_nodes(outer.node):
      if isinstance(c_, ast.Call) and isinstance(c_.func, ast.Name) and c_.func.id == f.name and len(c_.args) >= 2 and isinstance(c_.args[1], ast.Name):
        for st_ in own_nodes(outer.node):
          if isinstance(st_, ast.Assign) and len(st_.targets) == 1 and unparse(st_.targets[0]) == c_.args[1].id and isinstance(st_.value, ast.List) \
              and all(isinstance(x, ast.Constant) for x in st_.value.elts):
            ci = [x.value for x in st_.value.elts]
  if len(ci) != 2:
    return False
  if ci[1] == 0:
    ci[1] = Fraction(0)
  me = MiniEval(ctx.ix)
  try:
    me.call(f, [cache, ci, times, tree, F_(0), None])
  except NotConst:
    return False
  except Raised:
    ctx.bad(rule, f"{f.qualname}|element intervals on a sample tree", ctx.where(f.module, f.node), "interpreted on a sample tree, the collector raises")
    return True
  ctx.unit(f.module)
  got = {k.name: v for k, v in cache.items() if isinstance(k, Node)}
  diff = [f"{k}: {got.get(k)} instead of {v}" for k, v in want.items() if got.get(k) != v]
  ctx.check(not diff, rule, f"{f.qualname}|element intervals on a sample tree (own frame, children in the element's interval, every element visited)", ctx.where(f.module, f.node),
            f"{len(want)} elements: recorded interval = TTML absolute interval",
            "interpreted on a sample tree, the recorded intervals differ from the TTML absolute intervals: " + "; ".join(diff[:3]) + f" ({len(diff)} of {len(want)} elements)")
  exp_times = {t for iv in want.values() for t in iv if t is not None} | anim_times
  ctx.check(times == exp_times, "COMPLETE", f"{f.qualname}|begins and bounded ends of every element and animation step are collected (sample tree)", ctx.where(f.module, f.node),
            f"{len(exp_times)} times", f"interpreted on a sample tree, the collected times miss {sorted(exp_times - times)[:4]} and add {sorted(times - exp_times)[:4]}")
  leaves = [want[n_.name] for n_ in tree.walk() if n_.kind in ("Span", "Br")]
  hull = [min(b for b, _ in leaves), None if any(e is None for _, e in leaves) else max(e for _, e in leaves)]
  if any(n_.fields["end"] is None and want[n_.name][1] is None for n_ in tree.walk() if n_.kind in ("Span", "Br")):
    hull[1] = None
  ctx.check(list(ci) == hull, "FIN-hull", f"{f.qualname}|content interval of the sample tree", ctx.where(f.module, f.node), f"hull {hull}",
            f"interpreted on a sample tree, the content interval is {list(ci)} but the hull of the span / br intervals is {hull}")
  return True


def check_frames(ctx, f: FuncInfo, rule="DEP-frame", recursive_name: typing.Optional[str] = None, rec_positions=(None, None), parts=(1, 2, 3)):
  """In f: (1) the element's own interval comes from _make_absolute(element.get_begin(),
  element.get_end(), <parent begin param>, <parent end param>); (2) animation steps are made
  absolute against the element's own interval; (3) recursive calls over the children pass the
  element's own interval as the children's parent interval."""
  ix = ctx.ix
  ctx.unit(f.module)
  pairs = interval_pairs(f)
  own = None
  for (bv, ev, st) in pairs:
    src = st.value
    if isinstance(src, ast.Name):
      # find the _make_absolute that defines it
      name = src.id
      for st2 in own_nodes(f.node):
        if isinstance(st2, ast.Assign) and isinstance(st2.targets[0], ast.Name) and st2.targets[0].id == name and isinstance(st2.value, ast.Call) \
            and unparse(st2.value.func).endswith("_make_absolute"):
          src = st2.value
    if isinstance(src, ast.Call) and len(src.args) == 4 and "get_begin()" in unparse(src.args[0]) and "get_end()" in unparse(src.args[1]):
      own = (bv, ev, src)
  n = 0
  if own is None:
    raise AnalysisError(f"{f.qualname}: the element's own _make_absolute(element.get_begin(), element.get_end(), ...) was not found")
  bv, ev, call = own
  pb, pe_ = unparse(call.args[2]), unparse(call.args[3])
  if 1 in parts:
   n += 1
   ctx.check(pb in f.params and pe_ in f.params and pb != pe_, rule, f"{f.qualname}|element interval relative to the parent interval parameters",
            ctx.where(f.module, call), f"element interval = _make_absolute(begin, end, {pb}, {pe_})",
            f"the element's interval is computed against `{pb}`, `{pe_}`, which are not the function's parent-interval parameters")
  # (2) animation steps
  for c in (own_nodes(f.node) if 2 in parts else ()):
    if isinstance(c, ast.Call) and unparse(c.func).endswith("_make_absolute") and len(c.args) == 4 and ".begin" in unparse(c.args[0]) and ".end" in unparse(c.args[1]) \
        and "get_begin" not in unparse(c.args[0]):
      n += 1
      a2, a3 = unparse(c.args[2]), unparse(c.args[3])
      # (keyed by the frame that is used, not by the spelling of the local names)
      akey = f"{f.qualname}|animation steps resolved against the interval of the element's parent" if (a2, a3) == (pb, pe_) else f"{f.qualname}|{unparse(c)}"
      ctx.check((a2, a3) == (bv, ev), rule, akey, ctx.where(f.module, c),
                f"animation step resolved against the element's own interval ({bv}, {ev})",
                f"the animation step's begin/end are resolved against ({a2}, {a3}) instead of the element's own interval ({bv}, {ev}): "
                "a set on an element with a non-zero begin is placed at the wrong absolute time")
  # (3) recursion over children
  if recursive_name and 3 in parts:
    for loop in own_nodes(f.node):
      if not isinstance(loop, ast.For):
        continue
      it = unparse(loop.iter)
      if it not in ("element", "iter(element)", f.params[-1], f"iter({f.params[-1]})") and not (isinstance(loop.iter, ast.Name) and loop.iter.id in f.params):
        continue
      for c in own_nodes(loop):
        if isinstance(c, ast.Call) and unparse(c.func).endswith(recursive_name):
          args = [unparse(a) for a in c.args]
          n += 1
          ok = bv in args and ev in args and args.index(ev) == args.index(bv) + 1 and unparse(loop.target) in args
          if ok:
            callee_params = f.params
            ok = callee_params[args.index(bv)] == pb and callee_params[args.index(ev)] == pe_
          ctx.check(ok, rule, f"{f.qualname}|children resolved in the element's computed interval", ctx.where(f.module, c),
                    f"recursive call passes ({bv}, {ev}) as the child's ({pb}, {pe_})",
                    f"the recursive call over the children does not pass the element's own interval ({bv}, {ev}) as the child's parent interval "
                    f"({pb}, {pe_}): args {args}")
  return n


# ---------------------------------------------------------------------------------------
# CMP: region association / pruning predicate
# ---------------------------------------------------------------------------------------

def prune_oracle(is_region, assoc_is_selected, has_children, assoc_is_none):
  return (not is_region) and (not assoc_is_selected) and ((not has_children) or (not assoc_is_none))


def check_prune_predicate(ctx, f: FuncInfo, has_region_atom: bool, rule="CMP-prune"):
  from . import match as _m
  from ..consteval import FuncEval, Raised, _CallingConstEval
  ix = ctx.ix
  ctx.unit(f.module)
  # roles are read off the pruning test: an `if` that returns None and whose condition (locals read through, the
  # tests of the ifs around it included) compares a local with a region parameter by identity - that local is the
  # associated region, the parameter the selected region
  region_params = [p_ for p_ in f.params if "region" in p_]
  found = []
  for g in own_nodes(f.node):
    if not (isinstance(g, ast.If) and isinstance(g.body[-1], ast.Return)
            and (g.body[-1].value is None or (isinstance(g.body[-1].value, ast.Constant) and g.body[-1].value.value is None))):
      continue
    raw = [(t, pol) for t, pol in _m.enclosing_conditions(g, f.node)] + [(g.test, True)]

    def compares(t):
      out = []
      for c in ast.walk(t):
        if isinstance(c, ast.Compare) and len(c.ops) == 1 and isinstance(c.ops[0], (ast.Is, ast.IsNot, ast.Eq, ast.NotEq)):
          for a, b in ((c.left, c.comparators[0]), (c.comparators[0], c.left)):
            if isinstance(a, ast.Name) and a.id not in f.params and isinstance(b, ast.Name) and b.id in region_params:
              out.append((a.id, b.id))
      return out
    # the comparison may sit in the test itself or in a local the test reads (is_selected = ... ; if not is_selected: return None)
    roles = [r for t, _ in raw for r in compares(t)] or [r for t, _ in raw for r in compares(_m.inline_locals_deep(f.node, t))]
    if roles:
      av_, sel_ = roles[0]
      tests = [(_m.inline_locals_deep(f.node, t, keep={av_}), pol) for t, pol in raw]
      found.append((g, av_, sel_, tests))
  found = [x for k, x in enumerate(found) if not any(y[0] is x[0] for y in found[:k])]
  if len(found) != 1:
    raise AnalysisError(f"{f.qualname}: expected one region-pruning guard (an `if ...: return None` that compares a local with a region parameter), found {len(found)}")
  g, av, sel, tests = found[0]
  # association = own region if there is one, else the inherited region parameter: the statements that write the
  # variable (and the locals they read) before the guard are evaluated for own / inherited in {absent, present}
  # (the statements that precede the outermost `if` of the guard in its own statement list)
  top = g
  while isinstance(parent(top), ast.If):
    top = parent(top)
  blk = parent(top)
  holder = next((getattr(blk, fld) for fld in ("body", "orelse", "finalbody") if isinstance(getattr(blk, fld, None), list) and any(x is top for x in getattr(blk, fld))), [])
  stmts_all = holder[:next(k for k, x in enumerate(holder) if x is top)] if holder else []
  need, writers = {av}, []
  for st in reversed(stmts_all):
    stored = {n.id for n in ast.walk(st) if isinstance(n, ast.Name) and isinstance(n.ctx, ast.Store)}
    if stored & need and isinstance(st, (ast.Assign, ast.AnnAssign, ast.If)):
      writers.insert(0, st)
      need |= {n.id for n in ast.walk(st) if isinstance(n, ast.Name) and isinstance(n.ctx, ast.Load) and n.id not in f.params}
  owns = [unparse(c) for st in writers for c in ast.walk(st) if isinstance(c, ast.Call) and isinstance(c.func, ast.Attribute) and c.func.attr == "get_region"]
  if not writers or not owns:
    raise AnalysisError(f"{f.qualname}: associated-region assignment not found")
  first, own_txt = writers[0], owns[0]
  inh_params = [p_ for p_ in region_params if p_ != sel and p_ in {n.id for st in writers for n in ast.walk(st) if isinstance(n, ast.Name)}]
  ok = len(inh_params) == 1
  detail = ""
  if ok:
    inh = inh_params[0]
    fe = FuncEval(ix)
    stmts = _m.replace_exprs(writers, {own_txt: "__own"})
    try:
      for o, i_ in itertools.product((None, "OWN"), (None, "INH")):
        env = {"__own": o, inh: i_}
        fe._block(_CallingConstEval(ix, fe, f, 0, None), f, stmts, env)
        want = o if o is not None else i_
        if env.get(av) != want:
          ok = False
          detail = f"own={o}, inherited={i_}: associated region {env.get(av)}, expected {want}"
    except (NotConst, Raised) as e:
      raise AnalysisError(f"{f.qualname}: the association statements could not be evaluated ({e})")
  ctx.check(ok, rule, f"{f.qualname}|association = own region else inherited", ctx.where(f.module, first), f"`{short(first)}`",
            f"the associated region must be the element's own region if it has one, else the inherited region parameter ({detail or 'no single inherited-region parameter is read'})")
  outer = [(t, pol) for t, pol in tests[:-1] if av in names_in(t) or "has_children" in unparse(t)]
  gtest = tests[-1][0]
  all_tests = [t for t, _ in outer] + [gtest]
  elem = f.params[-1]
  for c in (x for t in all_tests for x in ast.walk(t)):
    if isinstance(c, ast.Call) and isinstance(c.func, ast.Attribute) and c.func.attr == "has_children":
      elem = unparse(c.func.value)

  def leaf(e):
    r = _m.relation(e, lambda x: unparse(x) == av, lambda x: isinstance(x, ast.Name) and x.id == sel)
    if r in ("is", "==", "is not", "!="):
      return ("S", r in ("is", "=="))
    nt = _m.is_none_test(e, lambda x: unparse(x) == av)
    if nt is not None:
      return ("N", nt)
    if unparse(e) == f"{elem}.has_children()":
      return ("C", True)
    if isinstance(e, ast.Call) and isinstance(e.func, ast.Name) and e.func.id == "isinstance" and len(e.args) == 2 and unparse(e.args[0]) == elem and unparse(e.args[1]).endswith("Region"):
      return ("R", True)
    return None
  wrong = []
  for R, S, C, N in itertools.product([False, True], repeat=4):
    if not has_region_atom and R:
      continue
    env = {"R": R, "S": S, "C": C, "N": N}
    try:
      got = all(_m.eval_bool(t, leaf, lambda a: env[a]) == pol for t, pol in outer) and _m.eval_bool(gtest, leaf, lambda a: env[a])
    except ValueError as e:
      raise AnalysisError(f"{f.qualname}: pruning test has a part outside the expected atoms: `{e}`")
    want = prune_oracle(R, S, C, N)
    if got != want:
      wrong.append((R, S, C, N, got, want))
  ctx.check(not wrong, rule, f"{f.qualname}|prune <=> not selected and (childless or explicitly elsewhere)", ctx.where(f.module, g),
            "truth table over {is region, associated is selected, has children, associated is None} agrees with the specification",
            "the region-pruning predicate differs from 'prune iff associated != selected and (no children or associated is not None)': "
            + "; ".join(f"region={r} selected={s} children={c} none={n}: prunes={g_}, want {w}" for r, s, c, n, g_, w in wrong[:3]))
  return g, av, sel


# ---------------------------------------------------------------------------------------
# ORD / PRI: marker ordering in _process_element
# ---------------------------------------------------------------------------------------

class Markers:
  def __init__(self, ix: Index):
    self.ix = ix
    self.f = ix.func(f"{ISD}._process_element")
    f = self.f
    self.m: typing.Dict[str, ast.AST] = {}
    loops = [n for n in own_nodes(f.node) if isinstance(n, ast.For)]
    for lp in loops:
      it = unparse(lp.iter)
      body_txt = unparse(lp)
      if "iter_animation_steps()" in it and ".set_style(" in body_txt:
        self.m["animation"] = lp
      elif it.endswith("element.iter_styles()") and "parent" not in it and "isd_element" not in it and ".set_style(" in body_txt:
        self.m["specified"] = lp
      elif "parent" in it and "iter_styles()" in it and ".inherit(" in body_txt:
        self.m["inherited"] = lp
      elif it.endswith("StyleProperties.ALL") and ".set_style(" in body_txt:
        self.m["initial"] = lp
      elif "iter_styles()" in it and "is_style_applicable" in body_txt:
        self.m["drop-inapplicable"] = lp
      elif isinstance(lp.iter, ast.Name) and lp.iter.id == f.params[-1] and "_process_element" in body_txt:
        self.m["children"] = lp
    for n in own_nodes(f.node):
      if isinstance(n, ast.If) and "WritingMode" in unparse(n.test) and "Direction" in unparse(n) and "direction" not in self.m:
        self.m["direction"] = n          # the outermost one (own_nodes yields parents first)
      if isinstance(n, ast.Expr) and isinstance(n.value, ast.Call) and unparse(n.value.func).endswith("_compute_styles"):
        self.m["compute"] = n
      if isinstance(n, ast.If) and "StyleProperties.Display" in unparse(n.test) and "DisplayType.none" in unparse(n.test) and isinstance(n.body[-1], ast.Return):
        self.m["display-none"] = n
    # the region -> body recursive call
    for n in own_nodes(f.node):
      if isinstance(n, ast.Call) and unparse(n.func).endswith("_process_element") and "get_body()" in unparse(n.args[-1] if n.args else n):
        self.m["region-body"] = n

  ORDER = ["animation", "specified", "direction", "inherited", "initial", "compute", "display-none", "children", "drop-inapplicable"]


def check_style_order(ctx, rule="ORD-style"):
  ix = ctx.ix
  mk = Markers(ix)
  f = mk.f
  ctx.unit(f.module)
  missing = [k for k in Markers.ORDER if k not in mk.m]
  if missing:
    raise AnalysisError(f"_process_element: style-resolution markers not found: {missing}")
  idx = {k: top_level_index(f, mk.m[k]) for k in Markers.ORDER}
  for a, b in zip(Markers.ORDER, Markers.ORDER[1:]):
    ctx.check(0 <= idx[a] < idx[b], rule, f"{f.qualname}|{a} before {b}", ctx.where(f.module, mk.m[b]),
              f"`{a}` (statement {idx[a]}) precedes `{b}` (statement {idx[b]})",
              f"style resolution order broken: `{a}` must come before `{b}` (precedence animation > specified > inherited > initial, then compute, "
              f"prune on display, children, drop inapplicable); found statement {idx[a]} vs {idx[b]}")
  # PRI guards: later writers must not overwrite earlier ones
  def has_skip_guard(loop):
    """every store of the loop's property on the snapshot element is reached only when the element has no value for it yet
    (an early `continue`, an enclosing `if not has_style(..)`, either polarity)"""
    from . import match as _mt
    var = unparse(loop.target)
    sets = [c for c in own_nodes(loop) if isinstance(c, ast.Call) and isinstance(c.func, ast.Attribute) and c.func.attr == "set_style" and c.args and var in unparse(c.args[0])]
    if not sets:
      return False
    for c in sets:
      ok = False
      for (t, pol) in _mt.reaching_conditions(c, loop):
        while isinstance(t, ast.UnaryOp) and isinstance(t.op, ast.Not):
          t, pol = t.operand, not pol
        if isinstance(t, ast.Call) and isinstance(t.func, ast.Attribute) and t.func.attr == "has_style" and var in unparse(t) and pol is False:
          ok = True
      if not ok:
        return False
    return True
  for k in ("specified", "initial"):
    ctx.check(has_skip_guard(mk.m[k]), "PRI-style", f"{f.qualname}|{k} does not overwrite", ctx.where(f.module, mk.m[k]),
              f"`{k}` styles are skipped when the property already has a value",
              f"the `{k}` style loop no longer skips properties that already have a value: it overwrites "
              + ("animated values with specified ones" if k == "specified" else "specified/inherited values with initial ones"))
  d = mk.m["direction"]
  ctx.check("not" in unparse(d.test) and "has_style" in unparse(d.test) and "Direction" in unparse(d.test) and "isinstance" in unparse(d.test) and "Region" in unparse(d.test),
            "PRI-style", f"{f.qualname}|writing mode implies direction only on regions without a specified direction", ctx.where(f.module, d),
            "guarded by isinstance(element, Region) and not has_style(Direction)",
            "the writing-mode-implies-direction rule must apply only to regions that do not specify tts:direction")
  # the implied direction: lrtb -> ltr, rltb -> rtl
  ce = ConstEval(ix)
  from . import match as _m2
  setd = [c for c in ast.walk(d) if isinstance(c, ast.Call) and isinstance(c.func, ast.Attribute) and c.func.attr == "set_style" and len(c.args) == 2 and unparse(c.args[0]).endswith("Direction")]
  ifexp = [_m2.inline_locals_deep(f.node, setd[0].args[1])] if setd else []
  ifexp = [n for n in ifexp if isinstance(n, ast.IfExp)] or [n for n in ast.walk(d) if isinstance(n, ast.IfExp)]
  okmap = False
  if ifexp:
    e = ifexp[0]
    wm_text = None
    for c in ast.walk(e.test):
      if isinstance(c, ast.Call) and "get_style" in unparse(c.func) and "WritingMode" in unparse(c):
        wm_text = unparse(c)
    if wm_text:
      t = substitute(e, {wm_text: "__wm"})
      styles_mod = ix.mod("ttconv.style_properties")
      res = {}
      for wm in ("lrtb", "rltb"):
        env = {"__wm": EnumMember("ttconv.style_properties:WritingModeType", wm, wm)}
        v = ce.try_ev(f.module, t, None, env)
        res[wm] = v.name if isinstance(v, EnumMember) else v
      okmap = res == {"lrtb": "ltr", "rltb": "rtl"}
  ctx.check(okmap, "PRI-style", f"{f.qualname}|lrtb->ltr, rltb->rtl", ctx.where(f.module, d), "implied direction table is correct",
            "writing mode lrtb must imply direction ltr and rltb must imply rtl")
  # inherit() wrappers keep precedence
  base = ix.cls("ttconv.isd:StyleProcessor")
  inh = base.methods["inherit"]
  txt = unparse(inh.node)
  ctx.check("is_inherited" in txt and "not element.has_style" in txt.replace(f"not {inh.params[2]}.has_style", "not element.has_style"), "PRI-style",
            "ttconv.isd:StyleProcessor.inherit|only inheritable and only if unset", ctx.where(inh.module, inh.node),
            "inherits only inheritable properties that have no value yet", "StyleProcessor.inherit no longer requires `is_inherited and not has_style`")
  sp = ix.cls("ttconv.isd:StyleProcessors")
  overrides = {name: c.methods["inherit"] for name, c in sp.nested.items() if "inherit" in c.methods}
  for name, m in sorted(overrides.items()):
    t = unparse(m.node)
    if name == "TextDecoration":
      # roles: the value read from the element (specified) and from the parent; every component of the
      # merged value must be `specified.k` when that is not None and `parent.k` otherwise, however the
      # conditional expression is spelled
      from . import match as _match
      roles = {}
      for st in own_nodes(m.node):
        if isinstance(st, (ast.Assign, ast.AnnAssign)) and isinstance(st.value, ast.Call) and isinstance(st.value.func, ast.Attribute) and st.value.func.attr == "get_style" \
            and isinstance(st.value.func.value, ast.Name) and st.value.func.value.id in m.params[1:3]:
          tgt = st.targets[0] if isinstance(st, ast.Assign) else st.target
          if isinstance(tgt, ast.Name):
            roles["parent" if st.value.func.value.id == m.params[1] else "spec"] = tgt.id
      ctor = [c for c in own_nodes(m.node) if isinstance(c, ast.Call) and unparse(c.func).endswith("TextDecorationType")]
      ok = len(roles) == 2 and len(ctor) == 1
      if ok:
        kws = {k.arg: k.value for k in ctor[0].keywords}
        for k in ("underline", "line_through", "overline"):
          e = kws.get(k)
          sv, pv = f"{roles['spec']}.{k}", f"{roles['parent']}.{k}"
          isnone = _match.is_none_test(e.test, lambda x: unparse(x) == sv) if isinstance(e, ast.IfExp) else None
          if isnone is None:
            ok = False
          else:
            when_set, when_none = (e.orelse, e.body) if isnone else (e.body, e.orelse)
            ok = ok and unparse(when_set) == sv and unparse(when_none) == pv
      ctx.check(ok, "PRI-style", "ttconv.isd:StyleProcessors.TextDecoration.inherit|per-component merge", ctx.where(m.module, m.node),
                "each component: specified if not None else the parent's", "text decoration must merge per component (specified component wins, None inherits)")
    else:
      first = [s for s in m.node.body if not (isinstance(s, ast.Expr) and isinstance(s.value, ast.Constant))][0]
      ok = isinstance(first, ast.If) and "has_style" in unparse(first.test) and isinstance(first.body[-1], ast.Return)
      ctx.check(ok, "PRI-style", f"ttconv.isd:StyleProcessors.{name}.inherit|returns if already set", ctx.where(m.module, m.node),
                "returns immediately when the element already has a value", f"StyleProcessors.{name}.inherit no longer returns early when the property is already set")
  return mk


def processors(ix: Index) -> typing.Dict[str, ClassInfo]:
  return dict(ix.cls("ttconv.isd:StyleProcessors").nested)


def ordered_props(ix: Index) -> typing.List[str]:
  isd = ix.cls(ISD)
  v = isd.assigns.get("_ORDERED_STYLE_PROPS")
  if not isinstance(v, ast.Tuple):
    raise AnalysisError("ISD._ORDERED_STYLE_PROPS is not a tuple literal")
  return [unparse(e).split(".")[-1] for e in v.elts]


def compute_reads(ix: Index) -> typing.Dict[str, typing.Set[str]]:
  out = {}
  for name, c in processors(ix).items():
    comp = c.methods.get("compute")
    if comp is None:
      continue
    reads = set()
    for n in own_nodes(comp.node):
      if isinstance(n, ast.Call) and isinstance(n.func, ast.Attribute) and n.func.attr == "get_style" and n.args:
        a = unparse(n.args[0])
        if a.startswith("styles.StyleProperties.") or a.startswith("StyleProperties."):
          reads.add(a.split(".")[-1])
        elif a == "cls.style_prop":
          reads.add(name)
      if isinstance(n, ast.Call) and unparse(n.func) == "_get_writing_mode":
        reads.add("WritingMode")
    out[name] = reads
  return out


def check_compute_order(ctx, rule="TAB-compute-order"):
  ix = ctx.ix
  order = ordered_props(ix)
  reads = compute_reads(ix)
  isd = ix.cls(ISD)
  ctx.unit(isd.module)
  w = ctx.where(isd.module, isd.assign_nodes["_ORDERED_STYLE_PROPS"])
  ctx.check(len(set(order)) == len(order), rule, "ISD._ORDERED_STYLE_PROPS|no duplicates", w, "no duplicates", "a property is computed twice")
  for x in sorted(reads):
    ctx.check(x in order, rule, f"StyleProcessors.{x}|has compute => is in _ORDERED_STYLE_PROPS", w, f"{x} is computed",
              f"StyleProcessors.{x} defines compute() but {x} is not in ISD._ORDERED_STYLE_PROPS, so it is never computed")
    for y in sorted(reads[x] - {x}):
      if y in reads:   # y has its own compute: must come first
        ok = y in order and x in order and order.index(y) < order.index(x)
        ctx.check(ok, rule, f"StyleProcessors.{x}|reads computed {y}", w, f"{y} precedes {x}",
                  f"{x}.compute reads {y}, which is itself computed, but {y} does not precede {x} in ISD._ORDERED_STYLE_PROPS: {x} sees an uncomputed {y}")
  for x in order:
    ctx.check(x in reads, rule, f"ISD._ORDERED_STYLE_PROPS|{x} has a compute()", w, "has a compute override",
              f"{x} is listed in _ORDERED_STYLE_PROPS but StyleProcessors.{x} has no compute()")
  # _compute_styles iterates that tuple in order and dispatches by BY_STYLE_PROP
  cs = ix.func(f"{ISD}._compute_styles")
  loops = [n for n in own_nodes(cs.node) if isinstance(n, ast.For)]
  def in_order(it):
    # the table itself, or an order-preserving copy of it (list(X), tuple(X), X[:])
    while isinstance(it, ast.Call) and isinstance(it.func, ast.Name) and it.func.id in ("list", "tuple", "iter") and len(it.args) == 1:
      it = it.args[0]
    if isinstance(it, ast.Subscript) and isinstance(it.slice, ast.Slice) and it.slice.lower is None and it.slice.upper is None and it.slice.step is None:
      it = it.value
    return unparse(it).endswith("_ORDERED_STYLE_PROPS")
  ok = len(loops) == 1 and in_order(loops[0].iter) and "BY_STYLE_PROP" in unparse(loops[0]) and ".compute(" in unparse(loops[0])
  if not ok:
    # another shape (a precomputed table of (property, processor) pairs, an early return ...): decided by interpretation - with every
    # processor's compute() replaced by a recorder, the calls made for the full set of properties follow the order of the tuple
    from .minieval import MiniEval, Node
    from ..consteval import Raised
    sp_ = ix.cls("ttconv.isd:StyleProcessors")
    seen_ = []
    hooks_ = {}
    for nm_, pc_ in sp_.nested.items():
      if "compute" in pc_.methods:
        hooks_[pc_.methods["compute"].qualname] = (lambda *a_, _n=nm_: seen_.append(_n))
    props_cls = ix.cls("ttconv.style_properties:StyleProperties")
    all_props = [props_cls.nested[x_] for x_ in props_cls.nested]
    try:
      MiniEval(ix, func_hooks=hooks_).call(cs, [set(all_props) if False else list(all_props), Node("P", "parent", ()), Node("Span", "elem", ())])
      ok = seen_ == [x_ for x_ in order if x_ in seen_] and set(seen_) == set(order)
      if not ok:
        ctx.bad(rule, f"{cs.qualname}|iterates _ORDERED_STYLE_PROPS in order", ctx.where(cs.module, cs.node),
                f"interpreted with every compute() replaced by a recorder and all properties to be computed, _compute_styles calls {seen_} - not the order of ISD._ORDERED_STYLE_PROPS {order}: "
                "a property is computed before one it reads, or not at all")
        return
    except Raised:
      ctx.bad(rule, f"{cs.qualname}|iterates _ORDERED_STYLE_PROPS in order", ctx.where(cs.module, cs.node), "interpreted with every compute() replaced by a recorder, _compute_styles raises")
      return
    except NotConst as ex_:
      ctx.undecide(rule, f"{cs.qualname}: neither a single in-order loop over the tuple nor in the interpreted subset ({ex_})")
      return
  ctx.check(ok, rule, f"{cs.qualname}|iterates _ORDERED_STYLE_PROPS in order", ctx.where(cs.module, cs.node), "single in-order loop",
            "_compute_styles no longer iterates ISD._ORDERED_STYLE_PROPS in order (sorted/reversed/other container)")
  return len(reads)


# ---------------------------------------------------------------------------------------
# AXIS
# ---------------------------------------------------------------------------------------

H, W, FS = "H", "W", "FS"


def _defs_of(f: FuncInfo, name: str):
  """[(value expression or ('unpack', value, index), statement)] for the plain assignments of a local."""
  out = []
  for st in own_nodes(f.node):
    if isinstance(st, ast.Assign) and len(st.targets) == 1:
      t = st.targets[0]
      if isinstance(t, ast.Name) and t.id == name:
        out.append((st.value, st))
      elif isinstance(t, ast.Tuple):
        for i, x in enumerate(t.elts):
          if isinstance(x, ast.Name) and x.id == name:
            out.append((("unpack", st.value, i), st))
    elif isinstance(st, ast.AnnAssign) and isinstance(st.target, ast.Name) and st.target.id == name and st.value is not None:
      out.append((st.value, st))
  return out


def _top_index(f: FuncInfo, node):
  cur = node
  while cur is not None and getattr(cur, "_parent", None) is not f.node:
    cur = getattr(cur, "_parent", None)
  if cur is None:
    return None
  try:
    return f.node.body.index(cur)
  except ValueError:
    return None


def _reaching_defs(f: FuncInfo, use, defs):
  """The definitions of a local that can reach `use`: those between the last unconditional (top-level) definition before the
  statement of the use and that statement.  (A helper inlined twice leaves two straight-line definitions of each of its
  parameters.)"""
  ui = _top_index(f, use)
  if ui is None or len(defs) < 2:
    return defs
  idx = [(_top_index(f, st), v, st) for v, st in defs]
  if any(i is None for i, _v, _st in idx):
    return defs
  before = [(i, v, st) for i, v, st in idx if i < ui or (i == ui and getattr(st, "_parent", None) is not f.node)]
  if not before:
    return defs
  tops = [i for i, _v, st in before if getattr(st, "_parent", None) is f.node]
  last = max(tops) if tops else -1
  return [(v, st) for i, v, st in before if i >= last]


def _pick(e, i, depth=0):
  """element i of a tuple-valued expression (distributing over conditional expressions)"""
  if isinstance(e, ast.Tuple) and i < len(e.elts):
    return e.elts[i]
  if isinstance(e, ast.IfExp) and depth < 4:
    a, b = _pick(e.body, i, depth + 1), _pick(e.orelse, i, depth + 1)
    if a is not None and b is not None:
      return ast.copy_location(ast.IfExp(test=e.test, body=a, orelse=b), e)
  return None


def _field(ix, f: FuncInfo, e, attr: str, depth=0):
  """(expression, function) of field `attr` of a record-valued expression: a constructor call with keywords (or positional
  arguments of a NamedTuple / dataclass of the module), a helper whose single return is one, a local holding one."""
  if depth > 5:
    return None
  if isinstance(e, ast.IfExp):
    a, b = _field(ix, f, e.body, attr, depth + 1), _field(ix, f, e.orelse, attr, depth + 1)
    if a is not None and b is not None and a[1] is b[1]:
      return (ast.copy_location(ast.IfExp(test=e.test, body=a[0], orelse=b[0]), e), a[1])
    return None
  if isinstance(e, ast.Name):
    ds = _defs_of(f, e.id)
    if len(ds) == 1:
      v = ds[0][0]
      if isinstance(v, tuple):
        v = _pick(v[1], v[2])
      return _field(ix, f, v, attr, depth + 1) if v is not None else None
    return None
  if isinstance(e, ast.Attribute):
    inner = _field(ix, f, e.value, e.attr, depth + 1)
    return _field(ix, inner[1], inner[0], attr, depth + 1) if inner is not None else None
  if isinstance(e, ast.Call):
    for kw in e.keywords:
      if kw.arg == attr:
        return (kw.value, f)
    r = ix.resolve(f.module, e.func, cls=f.cls, func=f)
    if isinstance(r, ClassInfo):
      fields = [k for k in r.field_order] or list(r.ann)
      if attr in fields and fields.index(attr) < len(e.args):
        return (e.args[fields.index(attr)], f)
    if isinstance(r, FuncInfo) and r.module is f.module:
      rets = [x for x in own_nodes(r.node) if isinstance(x, ast.Return) and x.value is not None]
      if len(rets) == 1:
        return _field(ix, r, rets[0].value, attr, depth + 1)
  return None


def axis_of(f: FuncInfo, e, depth=0):
  """Axis of a reference-length expression: 'H', 'W', 'FS', None (absent), ('cond', test, a, b),
  '?' (resolved, but to a mixture of axes) or 'UNK' (an expression form this abstraction does not follow:
  a field of a tuple / record, a helper's result ...)."""
  if depth > 4:
    return "UNK"
  if isinstance(e, ast.Constant) and e.value is None:
    return None
  t = unparse(e)
  if isinstance(e, ast.Call):
    fn = unparse(e.func)
    if fn.endswith("_make_rh_length"):
      # the argument must not mention a column / width quantity
      a = unparse(e.args[0]) if e.args else ""
      return "?" if ("columns" in a or ".width" in a) else H
    if fn.endswith("_make_rw_length"):
      a = unparse(e.args[0]) if e.args else ""
      return "?" if ("rows" in a or ".height" in a) else W
    if fn.endswith("get_style") and e.args and unparse(e.args[0]).endswith("FontSize"):
      return FS
    if fn.endswith("get_style") and e.args and unparse(e.args[0]) == "cls.style_prop" and f.cls is not None and f.cls.name == "FontSize":
      return FS
  if isinstance(e, ast.Attribute):
    if e.attr in ("width",):
      return W
    if e.attr in ("height",):
      return H
    if _IX:
      fld = _field(_IX[0], f, e.value, e.attr)
      if fld is not None:
        return axis_of(fld[1], fld[0], depth + 1)
  if isinstance(e, ast.Subscript) and isinstance(e.slice, ast.Constant) and isinstance(e.slice.value, int) and isinstance(e.value, ast.Name):
    ds = _defs_of(f, e.value.id)
    picked = [(_pick(v, e.slice.value) if not isinstance(v, tuple) else None, st) for v, st in ds]
    if picked and all(p_ is not None for p_, _ in picked):
      if len(picked) == 1:
        return axis_of(f, picked[0][0], depth + 1)
      if len(picked) == 2:
        pa, pb = parent(picked[0][1]), parent(picked[1][1])
        if pa is pb and isinstance(pa, ast.If):
          first_in_body = any(x is picked[0][1] for x in pa.body)
          x_, y_ = (picked[0][0], picked[1][0]) if first_in_body else (picked[1][0], picked[0][0])
          return ("cond", unparse(pa.test), axis_of(f, x_, depth + 1), axis_of(f, y_, depth + 1))
  if isinstance(e, ast.IfExp):
    test = e.test
    if getattr(test, "_parent", None) is not None:
      from . import match as _mt
      try:
        test = _mt.inline_locals_deep(f.node, test, depth=1, keep={"is_vertical"})      # `along = not is_vertical; a if along else b` reads as `a if not is_vertical else b`
      except Exception:
        test = e.test
    return ("cond", unparse(test), axis_of(f, e.body, depth + 1), axis_of(f, e.orelse, depth + 1))
  if isinstance(e, ast.Name):
    ds = []
    for v, st in _reaching_defs(f, e, _defs_of(f, e.id)):
      if isinstance(v, tuple):
        v = _pick(v[1], v[2])
        if v is None:
          return "UNK"
      ds.append((v, st))
    # `if T: v = a  else: v = b` is the statement form of `v = a if T else b`
    if len(ds) == 2:
      pa, pb = parent(ds[0][1]), parent(ds[1][1])
      if pa is pb and isinstance(pa, ast.If):
        in_body = [any(x is st for x in pa.body) for _v, st in ds]
        in_else = [any(x is st for x in pa.orelse) for _v, st in ds]
        if in_body[0] and in_else[1]:
          return ("cond", unparse(pa.test), axis_of(f, ds[0][0], depth + 1), axis_of(f, ds[1][0], depth + 1))
        if in_body[1] and in_else[0]:
          return ("cond", unparse(pa.test), axis_of(f, ds[1][0], depth + 1), axis_of(f, ds[0][0], depth + 1))
    axes = [axis_of(f, v, depth + 1) for v, _st in ds]
    if axes and all(a == axes[0] for a in axes):
      return axes[0]
    if len(axes) > 1 and all(a in (FS, H) for a in axes):
      return FS if FS in axes else H
    if not axes or any(a == "UNK" or (isinstance(a, tuple) and "UNK" in str(a)) for a in axes):
      return "UNK"
    return "?"
  return "UNK"


DEST_AXIS = {  # keyword / field the computed length is stored into -> axis
  "height": H, "width": W, "y": H, "x": W, "v_offset": H, "h_offset": W,
}


PROCESSOR_DEST = {"Disparity": W}   # tts:disparity is a horizontal offset (percentage of the root container width)


_IX: list = []


def check_axes(ctx, rule="AXIS"):
  ix = ctx.ix
  _IX[:] = [ix]
  n = 0
  for name, c in sorted(processors(ix).items()):
    comp = c.methods.get("compute")
    if comp is None:
      continue
    ctx.unit(comp.module)
    for call in own_nodes(comp.node):
      if not (isinstance(call, ast.Call) and unparse(call.func) == "_compute_length" and len(call.args) == 5):
        continue
      n += 1
      src, pct, em, cref, px = call.args
      a_pct, a_em, a_c, a_px = (axis_of(comp, x) for x in (pct, em, cref, px))

      def leaves(a):
        if isinstance(a, tuple) and a[0] == "cond":
          return leaves(a[2]) | leaves(a[3])
        return {a}
      # a reference that is the parent's font size or, failing that, one cell height is a font size
      if name not in ("Padding",):
        a_pct, a_em = (FS if (isinstance(a, tuple) and leaves(a) <= {FS, H, None} and FS in leaves(a)) else a for a in (a_pct, a_em))
      key = f"{comp.qualname}|_compute_length({short(src, 40)})"
      where = ctx.where(comp.module, call)
      if any("UNK" in str(a) for a in (a_pct, a_em, a_c, a_px)):
        ctx.undecide(rule, f"{key}: the reference lengths `{short(pct, 25)}`, `{short(cref, 25)}`, `{short(px, 25)}` are not built in a way the axis abstraction follows")
        continue
      # destination axis
      dest = None
      par = parent(call)
      if isinstance(par, ast.keyword) and par.arg in DEST_AXIS:
        dest = DEST_AXIS[par.arg]
      elif isinstance(par, ast.Assign) and isinstance(par.targets[0], ast.Name):
        tname = par.targets[0].id
        for k, v in (("height", H), ("width", W), ("v_offset", H), ("h_offset", W), ("y", H), ("x", W)):
          if tname == k:
            dest = v
        if tname in ("c_before", "c_after"):
          dest = "block"
        if tname in ("c_start", "c_end"):
          dest = "inline"
        if dest is None:
          # an intermediate local: the axis is that of the local it flows into before it is assigned again
          ui = _top_index(comp, par)
          flows = set()
          if ui is not None:
            for st2 in comp.node.body[ui + 1:]:
              if isinstance(st2, ast.Assign) and len(st2.targets) == 1 and unparse(st2.targets[0]) == tname:
                break
              for a2 in ast.walk(st2):
                if isinstance(a2, ast.Assign) and len(a2.targets) == 1 and isinstance(a2.targets[0], ast.Name) and a2.targets[0].id in DEST_AXIS \
                    and any(isinstance(x2, ast.Name) and x2.id == tname for x2 in ast.walk(a2.value)):
                  flows.add(DEST_AXIS[a2.targets[0].id])
          if len(flows) == 1:
            dest = flows.pop()
          elif name not in PROCESSOR_DEST and any(a in (H, W) for a in (a_pct,)):
            ctx.undecide(rule, f"{key}: the result is held in `{tname}`, whose destination axis the rule does not follow")
            continue
      if dest is None and name in PROCESSOR_DEST:
        dest = PROCESSOR_DEST[name]
      problems = []
      if a_em not in (FS, None):
        problems.append(f"em reference is {a_em}, must be the font size")
      if "?" in (a_pct, a_c, a_px):
        problems.append(f"reference of unknown / mixed axis (pct={a_pct}, c={a_c}, px={a_px})")
      if dest in (H, W):
        for nm, a in (("percentage", a_pct), ("cell", a_c), ("pixel", a_px)):
          if a not in (dest, None):
            problems.append(f"{nm} reference is on axis {a} but the result is stored on axis {dest}")
      elif dest in ("block", "inline"):
        # block axis: H unless vertical; inline axis: W unless vertical
        for nm, a in (("percentage", a_pct), ("cell", a_c), ("pixel", a_px)):
          if not (isinstance(a, tuple) and a[0] == "cond"):
            problems.append(f"{nm} reference of a padding edge must depend on the writing mode, found {a}")
            continue
          _, test, x, y = a
          neg = test.replace(" ", "").startswith("not")
          vertical_axis, horizontal_axis = (y, x) if neg else (x, y)
          want_v, want_h = (W, H) if dest == "block" else (H, W)
          if (vertical_axis, horizontal_axis) != (want_v, want_h) or "is_vertical" not in test:
            problems.append(f"{nm} reference of a {dest}-axis padding edge is {horizontal_axis} when horizontal / {vertical_axis} when vertical; "
                            f"must be {want_h} / {want_v}")
      else:
        # axis-less font-relative lengths: percentage of the font size, cells/pixels measured vertically
        if a_pct not in (FS, H, None):
          problems.append(f"percentage reference is {a_pct}; font-relative lengths take the font size")
        for nm, a in (("cell", a_c), ("pixel", a_px)):
          if a not in (H, None):
            problems.append(f"{nm} reference is {a}; font-relative lengths are measured against the height")
      ctx.check(not problems, rule, key, where, f"axes pct={a_pct} em={a_em} c={a_c} px={a_px} dest={dest}", "; ".join(problems))
  return n



def _tuple_rows_for(f: FuncInfo, node, name: str):
  """When `name` is bound by an enclosing `for (a, b, c) in L` and L is a local built from tuple displays (list literal,
  comprehension, append): (['a', 'b', 'c'], [row component lists])."""
  cur = getattr(node, "_parent", None)
  while cur is not None and cur is not f.node:
    if isinstance(cur, ast.For) and isinstance(cur.target, ast.Tuple) and all(isinstance(e, ast.Name) for e in cur.target.elts) and name in [e.id for e in cur.target.elts] \
        and isinstance(cur.iter, ast.Name):
      names = [e.id for e in cur.target.elts]
      rows = []
      for st in own_nodes(f.node):
        vals = []
        if isinstance(st, ast.Assign) and len(st.targets) == 1 and unparse(st.targets[0]) == cur.iter.id:
          v = st.value
          if isinstance(v, (ast.List, ast.Tuple)):
            vals = list(v.elts)
          elif isinstance(v, ast.ListComp):
            vals = [v.elt]
            v.elt._comp_bound = {x.id for g in v.generators for x in ast.walk(g.target) if isinstance(x, ast.Name)}
          elif isinstance(v, ast.IfExp):
            for br in (v.body, v.orelse):
              vals += list(br.elts) if isinstance(br, (ast.List, ast.Tuple)) else ([br.elt] if isinstance(br, ast.ListComp) else [None])
          else:
            return None
        elif isinstance(st, ast.Call) and isinstance(st.func, ast.Attribute) and st.func.attr == "append" and unparse(st.func.value) == cur.iter.id and st.args:
          vals = [st.args[0]]
        for v in vals:
          if not (isinstance(v, ast.Tuple) and len(v.elts) == len(names)):
            return None
          rows.append(list(v.elts))
      return (names, rows) if rows else None
    cur = getattr(cur, "_parent", None)
  return None


def check_body_frame(ctx, rule="DEP-frame"):
  """The body is timed from the document origin: whenever the element handed to a recursive
  _process_element call can be the document body (directly, or through locals that hold
  doc.get_body()), the parent interval handed with it must be (None, None) - a region's own interval
  gates the body, it does not shift it."""
  ix = ctx.ix
  pe = ix.func(f"{ISD}._process_element")
  ctx.unit(pe.module)
  tainted = set()
  changed = True
  while changed:
    changed = False
    for st in own_nodes(pe.node):
      tgts, srcs = [], []
      if isinstance(st, ast.Assign):
        tgts, srcs = st.targets, [st.value]
      elif isinstance(st, ast.AnnAssign) and st.value is not None:
        tgts, srcs = [st.target], [st.value]
      elif isinstance(st, ast.For):
        tgts, srcs = [st.target], [st.iter]
      for s_ in srcs:
        if "get_body()" in unparse(s_) or any(isinstance(n, ast.Name) and n.id in tainted for n in ast.walk(s_)):
          for t in tgts:
            for n in ast.walk(t):
              if isinstance(n, ast.Name) and n.id not in tainted:
                tainted.add(n.id)
                changed = True
  e_i = len(pe.params) - 1
  pb_i, pe_i = pe.params.index("parent_computed_begin"), pe.params.index("parent_computed_end")
  n = 0
  for c in own_nodes(pe.node):
    if isinstance(c, ast.Call) and unparse(c.func).endswith("_process_element") and len(c.args) == len(pe.params):
      ea = c.args[e_i]
      may_be_body = "get_body()" in unparse(ea) or any(isinstance(x, ast.Name) and x.id in tainted for x in ast.walk(ea))
      if not may_be_body:
        continue
      n += 1
      ok = all(isinstance(c.args[i], ast.Constant) and c.args[i].value is None for i in (pb_i, pe_i))
      if not ok and isinstance(ea, ast.Name):
        # (child, parent begin, parent end) rows unpacked by the enclosing loop: decide row by row
        rows = _tuple_rows_for(pe, c, ea.id)
        if rows is not None:
          names, row_list = rows
          want = [unparse(c.args[i]) for i in (pb_i, pe_i)]
          if all(w in names for w in want):
            k = names.index(ea.id)
            def _bound(r):
              par_ = getattr(r[k], "_parent", None)
              return getattr(par_, "_comp_bound", set()) if par_ is not None else set()
            body_rows = [r for r in row_list if "get_body()" in unparse(r[k]) or any(isinstance(x, ast.Name) and x.id in tainted and x.id not in _bound(r) for x in ast.walk(r[k]))]
            if not body_rows:
              n -= 1
              continue
            ok = all(isinstance(r[names.index(w)], ast.Constant) and r[names.index(w)].value is None for r in body_rows for w in want)
      ctx.check(ok, rule, f"{pe.qualname}|the body is processed without a parent interval", ctx.where(pe.module, c), "parent interval (None, None)",
                f"`{short(c.args[e_i], 30)}` can be the document body, and the call hands it the parent interval ({short(c.args[pb_i], 20)}, {short(c.args[pe_i], 20)}): "
                "the body is resolved relative to the region's interval; region timing must gate, not shift, the body")
  if n == 0:
    raise AnalysisError("_process_element: no recursive call receives the document body (anchor changed)")
  return n


def check_clone_pruning(ctx, rule="CLONE-prune"):
  """The per-region clone of the document (built once, used for every later snapshot) may leave out
  content only because of its region association.  A decision taken from a specified style value
  (display, visibility, opacity ...) is wrong for every time at which animation, or an initial value,
  gives the element another value: a `return None` in the copying function whose condition reads a
  style of the source element is reported."""
  ix = ctx.ix
  outer = ix.func("ttconv.isd:_clone_doc_with_one_region")
  ctx.unit(outer.module)
  n = 0
  for f in [outer] + list(outer.nested.values()):
    for g in own_nodes(f.node):
      if isinstance(g, ast.If) and isinstance(g.body[-1], ast.Return) and (g.body[-1].value is None or (isinstance(g.body[-1].value, ast.Constant) and g.body[-1].value.value is None)):
        n += 1
        reads_style = [c for c in ast.walk(g.test) if isinstance(c, ast.Call) and isinstance(c.func, ast.Attribute) and c.func.attr in ("get_style", "has_style", "iter_styles")]
        ctx.check(not reads_style, rule, f"{f.qualname}|{short(g.test, 60)}", ctx.where(f.module, g), "content is left out of the clone by region association only",
                  f"`{short(g.test, 80)}` leaves an element out of the per-region clone because of a specified style value: the clone is reused for every time, "
                  "so an animation step (or initial value) that changes the style later has nothing to act on")
  return n


def check_content_kinds(ctx, rule="COVER-content"):
  """The content interval of the cached path is extended by the kinds named in one isinstance test of the
  collector.  Every kind that snapshot generation treats as text (the leaf kinds `_construct_text_list`
  collects: a line break, a text node) must be covered by that test - directly, or because every kind that
  may contain it (content model of model.py) is covered - otherwise the cached path skips times at which the
  uncached path still produces content."""
  from .dsp import ContentModel, isinstance_classes
  ix = ctx.ix
  f = ix.func("ttconv.isd:ISD.significant_times.<locals>.compute_sig_times")
  ctx.unit(f.module)
  site = None
  for st in own_nodes(f.node):
    if isinstance(st, ast.If) and any(isinstance(x, (ast.Assign, ast.AugAssign)) and "content_interval" in unparse(x.targets[0] if isinstance(x, ast.Assign) else x.target)
                                       for b_ in st.body for x in ast.walk(b_)):
      if any(isinstance(c, ast.Call) and isinstance(c.func, ast.Name) and c.func.id == "isinstance" for c in ast.walk(st.test)):
        site = st
        break
  if site is None:
    raise AnalysisError(f"{f.qualname}: the test that decides which elements extend the content interval was not found")
  named = set()
  for c in ast.walk(site.test):
    if isinstance(c, ast.Call) and isinstance(c.func, ast.Name) and c.func.id == "isinstance" and len(c.args) == 2:
      spec = c.args[1]
      for e in (spec.elts if isinstance(spec, (ast.Tuple, ast.List)) else [spec]):
        r = ix.resolve(f.module, e, cls=f.cls, func=f)
        if isinstance(r, ClassInfo) and r.name != "Region":
          named.add(r.qualname)
  cm = ContentModel(ix)
  tl = ix.func("ttconv.isd:_construct_text_list")
  text_kinds = sorted(ix.classes[q].name for q in isinstance_classes(ix, tl) if not cm.allowed.get(ix.classes[q].name))
  if len(text_kinds) < 2:
    raise AnalysisError(f"_construct_text_list: expected the leaf kinds Br and Text among its isinstance tests, found {text_kinds}")
  parents = {k: {p for p, ch in cm.allowed.items() if k in ch} for k in cm.allowed}

  def direct(k):
    ci = ix.cls(f"ttconv.model:{k}")
    return any(c.qualname in named for c in ix.mro(ci))

  def covered(k, seen=()):
    if direct(k):
      return True
    if k in seen or not parents.get(k):
      return False
    return all(covered(p, seen + (k,)) for p in parents[k])
  for k in text_kinds:
    ctx.check(covered(k), rule, f"{f.qualname}|{k} extends the content interval", ctx.where(f.module, site),
              f"{k} is covered by `{short(site.test, 60)}` directly or through every kind that may contain it ({sorted(parents.get(k, ()))})",
              f"`{short(site.test, 70)}` does not cover {k} (which may occur under {sorted(parents.get(k, ()))}): at times when only such content is active the cached path "
              f"(ISD.from_model with a SignificantTimes object) returns an empty snapshot while the uncached path returns the region with its content")
  return len(text_kinds)


MODEL_KINDS = ("Body", "Div", "P", "Span", "Br", "Text", "Ruby", "Rb", "Rt", "Rp", "Rbc", "Rtc", "Region")


def check_prune_sites(ctx, f: FuncInfo, rule="PRUNE-sites"):
  """Who may drop an element from a snapshot.  Every `return None` of ISD._process_element is one of: the element is not active
  at the offset; it belongs to another region; it computes to display=none; the final rule (no children left, and not a kind
  that is kept when empty).  Any other site is evaluated over every element kind, with and without children: it may only drop
  what the final rule would drop anyway - a childless element of a kind the final rule does not keep."""
  from . import match as _m
  from .minieval import MiniEval, Node, _Return
  from ..consteval import Raised
  ix = ctx.ix
  ctx.unit(f.module)
  sites = [r for r in own_nodes(f.node) if isinstance(r, ast.Return) and (r.value is None or (isinstance(r.value, ast.Constant) and r.value.value is None))]
  # the tail of the function: the statements of the final keep-or-prune rule
  body = f.node.body
  k = len(body)
  while k > 0 and (isinstance(body[k - 1], ast.Return) or (isinstance(body[k - 1], ast.If) and body[k - 1].body and isinstance(body[k - 1].body[-1], ast.Return) and not body[k - 1].orelse)):
    k -= 1
  tail = body[k:]
  n = 0
  guard_index = {}      # ground -> index of the last top-level statement that holds such a `return None`
  for r in sites:
    conds = list(_m.enclosing_conditions(r, f.node))
    txt = " && ".join(unparse(_m.inline_locals_deep(f.node, t)) if getattr(t, "_parent", None) is not None else unparse(t) for t, _p in conds)
    raw = " && ".join(unparse(t) for t, _p in conds)
    if any(r is x for st in tail for x in ast.walk(st)):
      kind = "final rule"
    elif "StyleProperties.Display)" in raw and "DisplayType.none" in raw:
      kind = "display=none"
      # display=none is a ground only as the value the snapshot element has after the animation steps were applied: a test of
      # the source element's specified style, or one that runs before the loop over the animation steps, ignores `set` steps
      recv = [unparse(c_.func.value) for t_, _p in conds for c_ in ast.walk(t_) if isinstance(c_, ast.Call) and isinstance(c_.func, ast.Attribute)
              and c_.func.attr == "get_style" and "Display" in unparse(c_)]
      anim = [i_ for i_, st_ in enumerate(f.node.body) if any(isinstance(x_, ast.For) and "iter_animation_steps" in unparse(x_.iter) for x_ in ast.walk(st_))]
      ti_ = _top_index(f, r)
      src = f.params[3] if len(f.params) > 3 and f.params[3] == "element" else "element"
      early = bool(anim) and ti_ is not None and ti_ <= max(anim)
      if any(rv == src for rv in recv) or early:
        n += 1
        ctx.bad(rule, f"{f.qualname}|return None under `{short(conds[-1][0], 50)}`", ctx.where(f.module, r),
                f"`{short(conds[-1][0], 70)}` drops the element on " + ("the specified style of the source element" if any(rv == src for rv in recv) else "a display value read before the animation steps are applied")
                + ": an element with display=none and an active `set` step to auto is shown by TTML and missing from the snapshot")
        continue
    elif "is_active" in raw or "activity" in txt or ("offset" in raw and ("begin" in raw or "end" in raw or "interval" in raw)):
      kind = "inactive at the offset"
    elif "region" in raw.lower() and any(op_ in raw for op_ in (" is not ", " != ", " is ")) and any(isinstance(c_, ast.Compare) and any(isinstance(x_, ast.Name) and "region" in x_.id for x_ in ast.walk(c_)) for t_, _p in conds for c_ in ast.walk(t_)):
      kind = "another region"
    else:
      kind = None
    key = f"{f.qualname}|return None under `{short(conds[-1][0], 50) if conds else 'no condition'}`" + (f" #{sum(1 for x in sites[:sites.index(r)] if True)}" if False else "")
    n += 1
    if kind is not None:
      ctx.ok(rule, key, ctx.where(f.module, r), kind)
      ti = _top_index(f, r)
      if ti is not None and kind in ("inactive at the offset", "another region"):
        guard_index[kind] = max(guard_index.get(kind, -1), ti)
      continue
    # an unlisted ground: it may only anticipate the final rule
    elem_names = {p_ for p_ in f.params if p_ in ("element", "isd_element")} or {"element"}
    bad, und = [], None
    for kd in MODEL_KINDS:
      for nkids in (0, 1):
        node = Node(kd, kd.lower(), [Node("Text", "t", ())] if nkids else [])
        env = {nm: node for nm in elem_names | {"isd_element"}}
        me = MiniEval(ix, node_classes={"Region": ix.classes.get("ttconv.isd:ISD.Region")} if False else None)
        try:
          holds = all(bool(MiniEval.truth(me.ev(t, dict(env), f, 0))) == pol for t, pol in conds)
        except Raised:
          holds = False
        except NotConst as ex:
          und = str(ex)
          break
        if not holds:
          continue
        if nkids:
          bad.append(f"a {kd} with children")
          continue
        try:
          me2 = MiniEval(ix, node_methods={"has_children": lambda n_: bool(n_.children)})
          try:
            me2.block(tail, dict(env), f, 0)
            verdict = None
          except _Return as ret:
            verdict = ret.v
        except (NotConst, Raised):
          verdict = "?"
        if verdict is not None:
          bad.append(f"a childless {kd}" + (" (which the final rule keeps)" if verdict != "?" else " (which the final rule may keep)"))
      if und is not None:
        break
    if und is not None:
      ctx.undecide(rule, f"{key}: a ground for dropping an element that the rule neither lists nor can evaluate over the element kinds ({und})")
    else:
      ctx.check(not bad, rule, key, ctx.where(f.module, r), "anticipates the final rule: drops only childless elements of kinds the final rule drops",
                f"this `return None` is none of the grounds for leaving an element out of a snapshot (inactive, other region, display=none, the final emptiness rule) and it drops "
                f"{', '.join(bad[:6])}: the parent then receives an incomplete child list (a ruby container without its base or text fails its content check) or content disappears")
  # ... and nothing is handed to the snapshot before those two grounds were tested: every `return <element>` comes after the
  # activity test and the region test
  keeps = [r for r in own_nodes(f.node) if isinstance(r, ast.Return) and r.value is not None and not (isinstance(r.value, ast.Constant) and r.value.value is None)]
  for r in keeps:
    ti = _top_index(f, r)
    if ti is None:
      continue
    early = [g for g, gi in guard_index.items() if ti <= gi]
    n += 1
    ctx.check(not early, rule, f"{f.qualname}|`{short(r, 40)}` comes after the activity and region tests", ctx.where(f.module, r), "after both tests",
              f"`{short(r, 50)}` (line {getattr(r, 'lineno', '?')}) hands an element to the snapshot before the test for {' / '.join(early)} has run: "
              "content that is not active at the offset, or that belongs to another region (or to none, in a document that has regions), shows up in the snapshot and in the cues")
  return n


def check_cached_snapshot_calls(ctx, rule="FIN-cacheskip"):
  """ISD.from_model with and without a SignificantTimes object, interpreted with _process_element replaced by a recorder: for every
  offset inside the content interval of a cached single-region document - also offsets after the last significant time, where an
  unbounded paragraph is still shown - the cached call processes the same regions as the uncached one; it may skip a document only
  outside its content interval."""
  from fractions import Fraction as F
  from .minieval import MiniEval, Node
  from ..consteval import Raised
  ix = ctx.ix
  f = ix.func("ttconv.isd:ISD.from_model")
  ctx.unit(f.module)
  stc = ix.cls("ttconv.isd:SignificantTimes")
  key = f"{f.qualname}|the cache skips a document only outside its content interval"
  bad, n = [], 0
  for times, interval, offsets in (((F(0), F(1)), (F(1), None), (F(1, 2), F(1), F(5, 2), F(100))), ((F(1), F(4)), (F(1), F(4)), (F(0), F(1), F(3), F(4), F(9))),
                                   ((), None, (F(0), F(7))), ((F(2), F(6)), (F(0), None), (F(0), F(2), F(6), F(50)))):
    for off in offsets:
      region = Node("Region", "r1", ())
      doc = Node("ContentDocument", "doc", (), regions=[region])
      cached = {"__record__": "_SingleRegionDocumentCache", "interval_cache": {}, "doc": doc, "content_interval": interval}
      st = {"__record__": "SignificantTimes", "__class__": stc, "_sig_times": tuple(times), "_cache": [cached]}
      calls = {}
      for label, arg in (("uncached", None), ("cached", st)):
        seen = []
        hooks = {"ttconv.isd:ISD._process_element": lambda *a_, _s=seen: (_s.append((getattr(a_[4], "name", a_[4]), a_[3])), Node("Region", "isd_region", ()))[1],
                 "ttconv.isd:ISD.put_region": lambda *a_: None}
        me = MiniEval(ix, func_hooks=hooks, node_methods={"iter_regions": lambda n_: list(n_.fields.get("regions", []))})
        try:
          me.call(f, [doc, off, arg])
        except Raised:
          bad.append(f"offset {off}, {label}: raises")
          seen = None
        except NotConst as ex:
          ctx.undecide(rule, f"{f.qualname}: not in the interpreted subset ({ex})")
          return 0
        calls[label] = seen
      n += 1
      if calls["uncached"] is None or calls["cached"] is None:
        continue
      inside = interval is None or (interval[0] <= off and (interval[1] is None or off < interval[1]))
      if inside and calls["cached"] != calls["uncached"]:
        bad.append(f"significant times {[str(t) for t in times]}, content interval [{interval[0] if interval else None}, {interval[1] if interval else None}), offset {off}: "
                   f"with the cache the regions processed are {calls['cached']}, without it {calls['uncached']}")
      if not inside and calls["cached"] not in ([], calls["uncached"]):
        bad.append(f"offset {off} outside the content interval: the cached call processes {calls['cached']}")
  ctx.check(not bad, rule, key, ctx.where(f.module, f.node), f"interpreted on {n} (cache, offset) samples",
            "ISD.from_model, interpreted with _process_element replaced by a recorder: " + "; ".join(bad[:3]) + (f" (+{len(bad) - 3} more)" if len(bad) > 3 else "") +
            " - a snapshot taken with the SignificantTimes cache differs from the snapshot without it (content that is still shown after the last significant time, e.g. a paragraph without end, disappears)")
  return n


def check_region_docs_cover(ctx, rule="COVER-regions"):
  """ISD.significant_times interpreted with the per-region clone and the collector replaced by recorders: whatever the regions
  specify (display=none included - an animation step may show the region later), every region of the document gets its own
  single-region document, and the collector visits that region and the body of that document."""
  from .minieval import MiniEval, Node
  from ..consteval import Raised
  ix = ctx.ix
  f = ix.func("ttconv.isd:ISD.significant_times")
  ctx.unit(f.module)
  inner = next((g for g in ix.funcs.values() if g.qualname.startswith(f.qualname + ".<locals>.") and g.name == "compute_sig_times"), None)
  if inner is None:
    ctx.undecide(rule, f"{f.qualname}: the nested collector was not found")
    return 0
  me0 = MiniEval(ix)
  disp = me0._enum_table(ix.cls("ttconv.style_properties:DisplayType"), f)
  vis = me0._enum_table(ix.cls("ttconv.style_properties:VisibilityType"), f)
  key = f"{f.qualname}|every region gets its single-region document"
  bad, n = [], 0
  for what, specs in (("three regions, the first with display=none, the second hidden and transparent", [("r1", {"Display": disp["none"]}), ("r2", {"Visibility": vis["hidden"], "Opacity": 0}), ("r3", {})]),
                      ("two plain regions", [("r1", {}), ("r2", {})]), ("one region", [("r1", {"Display": disp["none"]})])):
    body = Node("Body", "body", ())
    regions = [Node("Region", rid, (), styles=st, id=rid, animation_steps=[]) for rid, st in specs]
    doc = Node("ContentDocument", "doc", (), regions=regions, body=body)
    visits = []

    def clone(d_, rid_, _regions=regions, _body=body):
      r_ = next(x for x in _regions if x.name == rid_)
      return Node("ContentDocument", f"clone({rid_})", (), regions=[r_], body=_body)
    hooks = {"ttconv.isd:_clone_doc_with_one_region": clone,
             inner.qualname: lambda *a_, _v=visits: _v.append(getattr(a_[3], "name", a_[3]))}
    methods = {"iter_regions": lambda n_: list(n_.fields.get("regions", [])), "get_body": lambda n_: n_.fields.get("body"), "get_id": lambda n_: n_.fields.get("id"),
               "get_style": lambda n_, p_: n_.fields.get("styles", {}).get(getattr(p_, "name", p_)), "has_style": lambda n_, p_: getattr(p_, "name", p_) in n_.fields.get("styles", {}),
               "iter_animation_steps": lambda n_: [], "iter_styles": lambda n_: list(n_.fields.get("styles", {}))}
    try:
      MiniEval(ix, func_hooks=hooks, node_methods=methods).call(f, [doc])
    except Raised:
      bad.append(f"{what}: raises")
      n += 1
      continue
    except NotConst as ex:
      ctx.undecide(rule, f"{f.qualname}: not in the interpreted subset ({ex})")
      return 0
    n += 1
    want = []
    for rid, _st in specs:
      want += [rid, "body"]
    if visits != want:
      bad.append(f"{what}: the collector visits {visits} instead of {want}")
  ctx.check(not bad, rule, key, ctx.where(f.module, f.node), f"interpreted on {n} sample documents",
            "ISD.significant_times, interpreted with the clone and the collector replaced by recorders: " + "; ".join(bad[:3]) +
            " - a region that is left out has no cached document: its times are not significant times and snapshots taken with the cache never show it, even while an animation step displays it")
  return n


def check_animation_last_wins(ctx, f: FuncInfo, rule="ORD-animlast"):
  """Among the `set` steps of an element that are active at the offset the last one in document order decides the value (TTML2
  animation: later steps override earlier ones).  In the loop of _process_element over iter_animation_steps() the store on the
  snapshot element is therefore reached for every active step: no test in that loop reads the snapshot element itself (a
  has_style / get_style guard would let the first active step win), and the store is not moved behind a `break`."""
  ctx.unit(f.module)
  loops = [n for n in own_nodes(f.node) if isinstance(n, ast.For) and "iter_animation_steps" in unparse(n.iter)]
  n = 0
  for lp in loops:
    stores = [c for c in ast.walk(lp) if isinstance(c, ast.Call) and isinstance(c.func, ast.Attribute) and c.func.attr == "set_style"]
    if not stores:
      ctx.undecide(rule, f"{f.qualname}: the loop over the animation steps holds no set_style call")
      continue
    recv = {unparse(c.func.value) for c in stores}
    key = f"{f.qualname}|every active step reaches `{short(stores[0], 50)}`"
    n += 1
    offenders = []
    for t in [x for x in ast.walk(lp) if isinstance(x, (ast.If, ast.IfExp, ast.While))]:
      reads = {unparse(c.func.value) for c in ast.walk(t.test) if isinstance(c, ast.Call) and isinstance(c.func, ast.Attribute)}
      if reads & recv:
        offenders.append(t)
    brk = [b for b in ast.walk(lp) if isinstance(b, ast.Break)]
    if offenders:
      ctx.bad(rule, key, ctx.where(f.module, offenders[0]), f"the loop over the animation steps tests `{short(offenders[0].test, 60)}` on the snapshot element: a step is skipped when an earlier "
              "active step has set the property, so of two overlapping `set` steps the first wins where TTML lets the last one win")
    elif brk:
      ctx.bad(rule, key, ctx.where(f.module, brk[0]), "the loop over the animation steps is left by `break`: later active steps are not applied")
    else:
      ctx.ok(rule, key, ctx.where(f.module, lp), "no test on the snapshot element, no break")
  return n
