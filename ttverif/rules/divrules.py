"""DIV-parsed: a count that was parsed from the input (or handed in by the caller) is not used as a divisor
before it has been made positive."""
from __future__ import annotations

import ast
import typing

from ..consteval import ConstEval
from ..core import ClassInfo, FuncInfo, own_nodes, short, unparse
from . import match


def _is_positivity_test(test, path: str) -> bool:
  """`<path> < 1`, `<path> <= 0`, `<path> == 0`, `not <path>`, `<path> is None or <path> < 1` ..."""
  if isinstance(test, ast.BoolOp) and isinstance(test.op, ast.Or):
    return any(_is_positivity_test(v, path) for v in test.values)
  if isinstance(test, ast.UnaryOp) and isinstance(test.op, ast.Not):
    return unparse(test.operand) == path
  if isinstance(test, ast.Compare) and len(test.ops) == 1 and unparse(test.left) == path and isinstance(test.comparators[0], ast.Constant):
    op, v = test.ops[0], test.comparators[0].value
    return (isinstance(op, ast.Lt) and v == 1) or (isinstance(op, ast.LtE) and v == 0) or (isinstance(op, ast.Eq) and v == 0)
  return False


def unsanitised_fields(ix, classes: typing.Iterable[ClassInfo]) -> typing.Dict[typing.Tuple[str, str], typing.Tuple[FuncInfo, ast.AST, str]]:
  """(class qualname, field) -> (function, store, why) for int-valued fields that receive a value parsed from the input
  (`int(<non-constant>)`) or a constructor parameter and are not re-checked for positivity afterwards in the same function
  (a later top-level `if self.F < 1: <reassign | raise>`)."""
  ce = ConstEval(ix, symbolic_ok=False)
  out = {}
  for c in classes:
    for f in c.methods.values():
      stores = []
      for st in own_nodes(f.node):
        if isinstance(st, ast.Assign) and len(st.targets) == 1 and isinstance(st.targets[0], ast.Attribute) and isinstance(st.targets[0].value, ast.Name) and st.targets[0].value.id == "self":
          v = st.value
          why = None
          if isinstance(v, ast.Call) and isinstance(v.func, ast.Name) and v.func.id == "int" and v.args and not isinstance(v.args[0], ast.Constant):
            why = f"parsed by `{short(v, 40)}`"
          elif isinstance(v, ast.Name) and v.id in f.params and f.name == "__init__":
            ann = next((a.annotation for a in f.node.args.args if a.arg == v.id), None)
            if ann is not None and "int" in unparse(ann):
              why = f"the constructor argument `{v.id}`"
          if why:
            stores.append((st, why))
      for (st, why) in stores:
        path = unparse(st.targets[0])
        ok = False
        for later in f.node.body:
          if later.lineno > st.lineno and isinstance(later, ast.If) and _is_positivity_test(later.test, path) and later.body:
            last = later.body[-1]
            if isinstance(last, ast.Raise) or any(isinstance(x, ast.Assign) and unparse(x.targets[0]) == path for x in later.body):
              ok = True
        if not ok:
          out[(c.qualname, st.targets[0].attr)] = (f, st, why)
  return out


def check_parsed_divisors(ctx, funcs: typing.Iterable[FuncInfo], classes: typing.Iterable[ClassInfo], rule="DIV-parsed"):
  ix = ctx.ix
  classes = list(classes)
  bad_fields = unsanitised_fields(ix, classes)
  # getters: method name -> field it returns (single `return self.F`)
  getter = {}
  all_fields = set()
  for c in classes:
    for m in c.methods.values():
      rets = [r for r in own_nodes(m.node) if isinstance(r, ast.Return)]
      if len(rets) == 1 and isinstance(rets[0].value, ast.Attribute) and unparse(rets[0].value.value) == "self":
        getter[m.name] = (c.qualname, rets[0].value.attr)
    init = c.methods.get("__init__")
    for st in own_nodes(init.node) if init is not None else ():
      if isinstance(st, ast.Assign) and isinstance(st.targets[0], ast.Attribute) and unparse(st.targets[0].value) == "self":
        all_fields.add((c.qualname, st.targets[0].attr))
  n = 0
  for f in funcs:
    for d in own_nodes(f.node):
      if not (isinstance(d, ast.BinOp) and isinstance(d.op, (ast.Div, ast.FloorDiv, ast.Mod))):
        continue
      div = d.right
      fld = None
      if isinstance(div, ast.Call) and isinstance(div.func, ast.Attribute) and not div.args and div.func.attr in getter:
        fld = getter[div.func.attr]
      elif isinstance(div, ast.Attribute) and unparse(div.value) == "self" and f.cls is not None and (f.cls.qualname, div.attr) in all_fields:
        fld = (f.cls.qualname, div.attr)
      if fld is None:
        continue
      n += 1
      key = f"{f.qualname}|{short(d, 60)}"
      guarded = any(pol is False and _is_positivity_test(t, unparse(div)) for (t, pol) in match.reaching_conditions(d, f.node))
      if fld in bad_fields and not guarded:
        g, st, why = bad_fields[fld]
        ctx.unit(f.module)
        ctx.bad(rule, key, ctx.where(f.module, d),
                f"`{short(d, 60)}` divides by `{unparse(div)}`, i.e. by {fld[0].split(':')[-1]}.{fld[1]}, which {g.short} sets from {why} (line {st.lineno}) without making it positive: "
                f"a count of 0 in the input raises ZeroDivisionError")
      else:
        ctx.ok(rule, key, ctx.where(f.module, d), "the divisor field is a constant, is re-checked for positivity after it is parsed, or the division is guarded")
  return n
