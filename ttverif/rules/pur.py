"""PUR / OWN: provenance of model objects.

Provenance atoms (a value has a *set* of them):
  source  the caller's document or something reachable from it
  isd     an object created with an ISD as its owning document, or reachable from an ISD
  fresh   an object this code created for a document clone / scratch structure
  other   not a model object as far as the analysis can tell

Rules:
  PUR  no model mutator is applied to (and no mutating callee receives) a value that may be `source`;
  OWN  no timing / animation / region mutator (and no copy_to destination) is applied to a value
       that may be `isd`.
Flow-insensitive per function, interprocedural through parameter provenance joined over the call
sites inside the analysed function set, and return provenance summaries.
"""
from __future__ import annotations

import ast
import typing

from ..core import ClassInfo, FuncInfo, Index, call_name, own_nodes, short, unparse
from ..modelfacts import ModelFacts
from ..typing_lite import Typer, strip_opt

SOURCE, ISDP, FRESH, OTHER = "source", "isd", "fresh", "other"
PART_GETTERS = {"get_region", "parent", "get_doc", "get_body", "first_child", "last_child", "next_sibling", "previous_sibling", "root",
                "iter_regions", "dfs_iterator", "iter_animation_steps", "get_style"}
TIMING_MUTATORS = {"set_begin", "set_end", "add_animation_step", "remove_animation_step", "set_region"}


class Provenance:
  def __init__(self, ix: Index, funcs: typing.List[FuncInfo], entry_roles: typing.Dict[typing.Tuple[str, str], str], mf=None, ty=None):
    self.ix = ix
    self.funcs = {f.qualname: f for f in funcs}
    self.mf = mf or ModelFacts(ix)
    self.ty = ty or Typer(ix)
    self.isd_cls = ix.cls("ttconv.isd:ISD")
    self.param: typing.Dict[typing.Tuple[str, str], typing.Set[str]] = {}
    for f in funcs:
      for p in f.params:
        self.param[(f.qualname, p)] = set()
    for k, v in entry_roles.items():
      if k in self.param:
        self.param[k].add(v)
    self.entry_roles = entry_roles
    self.ret: typing.Dict[str, typing.Set[str]] = {q: set() for q in self.funcs}
    self.env: typing.Dict[str, typing.Dict[str, typing.Set[str]]] = {}
    self._solve()

  # ------------------------------------------------------------------------------------
  def _annot_prov(self, f: FuncInfo, p: str) -> typing.Set[str]:
    t = strip_opt(self.ty.env(f).get(p))
    if t is not None and t[0] == "inst" and self.ix.is_subclass(t[1], self.isd_cls):
      return {ISDP}
    if t is not None and t[0] == "inst" and t[1].qualname == "ttconv.isd:ISD.Region":
      return {ISDP}
    return set()

  def _solve(self):
    for f in self.funcs.values():
      self.env[f.qualname] = {}
      for p in f.params:
        self.param[(f.qualname, p)] |= self._annot_prov(f, p)
    for _ in range(8):
      changed = False
      for f in self.funcs.values():
        env = self.env[f.qualname]
        if f.outer_func is not None and f.outer_func.qualname in self.env:
          for k, v in self.env[f.outer_func.qualname].items():
            if k not in f.params and not v <= env.get(k, set()):
              env[k] = env.get(k, set()) | v
              changed = True
        for p in f.params:
          pv = self.param[(f.qualname, p)]
          if not pv <= env.get(p, set()):
            env[p] = env.get(p, set()) | pv
            changed = True
        for n in own_nodes(f.node):
          if isinstance(n, ast.Assign):
            pv = self.prov(f, n.value)
            for t in n.targets:
              changed |= self._bind(env, t, pv)
          elif isinstance(n, ast.AnnAssign) and n.value is not None:
            changed |= self._bind(env, n.target, self.prov(f, n.value))
          elif isinstance(n, (ast.For, ast.comprehension)):
            changed |= self._bind(env, n.target, self.prov(f, n.iter))
          elif isinstance(n, ast.Return) and n.value is not None:
            pv = self.prov(f, n.value)
            if not pv <= self.ret[f.qualname]:
              self.ret[f.qualname] |= pv
              changed = True
          elif isinstance(n, ast.Call):
            changed |= self._propagate_call(f, n)
      if not changed:
        break

  def _bind(self, env, target, pv) -> bool:
    ch = False
    for nm in ast.walk(target):
      if isinstance(nm, ast.Name) and isinstance(nm.ctx, ast.Store):
        if not pv <= env.get(nm.id, set()):
          env[nm.id] = env.get(nm.id, set()) | pv
          ch = True
    return ch

  def callee_of(self, f: FuncInfo, call: ast.Call) -> typing.Optional[FuncInfo]:
    c = self.ty.callee(f.module, call, self.ty.env(f), f.cls, f)
    if isinstance(c, FuncInfo):
      return c
    # name-based for local / nested functions and ISD static methods
    name = call_name(call)
    cands = [g for g in self.funcs.values() if g.name == name]
    if len(cands) == 1:
      return cands[0]
    return None

  def arg_pairs(self, f: FuncInfo, call: ast.Call, callee: FuncInfo):
    params = list(callee.params)
    pairs = []
    off = 0
    if callee.cls is not None and not callee.is_static and isinstance(call.func, ast.Attribute):
      r = self.ix.resolve(f.module, call.func.value, cls=f.cls, func=f) if isinstance(call.func.value, (ast.Name, ast.Attribute)) else None
      if isinstance(r, ClassInfo):
        off = 0            # Class.method(self_obj, ...) form
      else:
        if params:
          pairs.append((call.func.value, params[0]))
        off = 1
    for i, a in enumerate(call.args):
      if i + off < len(params):
        pairs.append((a, params[i + off]))
    for kw in call.keywords:
      if kw.arg in params:
        pairs.append((kw.value, kw.arg))
    return pairs

  def _propagate_call(self, f: FuncInfo, call: ast.Call) -> bool:
    callee = self.callee_of(f, call)
    if callee is None or callee.qualname not in self.funcs:
      return False
    ch = False
    for (a, p) in self.arg_pairs(f, call, callee):
      pv = self.prov(f, a) - {OTHER}
      key = (callee.qualname, p)
      if key in self.entry_roles:
        continue
      if not pv <= self.param[key]:
        self.param[key] |= pv
        ch = True
    return ch

  def prov(self, f: FuncInfo, e) -> typing.Set[str]:
    env = self.env[f.qualname]
    if isinstance(e, ast.Name):
      return set(env.get(e.id, set()))
    if isinstance(e, ast.Attribute):
      return self.prov(f, e.value)
    if isinstance(e, ast.Subscript):
      return self.prov(f, e.value)
    if isinstance(e, ast.IfExp):
      return self.prov(f, e.body) | self.prov(f, e.orelse)
    if isinstance(e, ast.BoolOp):
      out = set()
      for v in e.values:
        out |= self.prov(f, v)
      return out
    if isinstance(e, (ast.Tuple, ast.List, ast.Set)):
      out = set()
      for v in e.elts:
        out |= self.prov(f, v)
      return out
    if isinstance(e, (ast.ListComp, ast.GeneratorExp, ast.SetComp)):
      return self.prov(f, e.elt) | self.prov(f, e.generators[0].iter)
    if isinstance(e, ast.Call):
      fn = e.func
      name = call_name(e)
      if isinstance(fn, ast.Name) and fn.id in ("list", "tuple", "iter", "sorted", "enumerate", "reversed", "zip", "map", "filter") and e.args:
        out = set()
        for a in e.args:
          out |= self.prov(f, a)
        return out
      # constructors
      t = self.ty.call_type(f.module, e, self.ty.env(f), f.cls, f)
      callee = self.callee_of(f, e)
      is_ctor = False
      if isinstance(fn, ast.Attribute) and fn.attr == "__class__":
        is_ctor = True
      if isinstance(fn, ast.Call) and isinstance(fn.func, ast.Name) and fn.func.id == "type":
        is_ctor = True
      r = self.ix.resolve(f.module, fn, cls=f.cls, func=f) if isinstance(fn, (ast.Name, ast.Attribute)) else None
      if isinstance(r, ClassInfo):
        is_ctor = True
      if is_ctor:
        is_model = not isinstance(r, ClassInfo) or self.ix.is_subclass(r, self.mf.element) or self.ix.is_subclass(r, self.mf.document)
        if not is_model:
          # a plain wrapper / record (dataclass, tuple-like): it *contains* its arguments
          out = set()
          for a in list(e.args) + [k.value for k in e.keywords]:
            out |= self.prov(f, a) - {OTHER}
          return out or {OTHER}
        # owned by an ISD if any constructor argument is an ISD
        for a in list(e.args) + [k.value for k in e.keywords]:
          if ISDP in self.prov(f, a):
            return {ISDP}
        if isinstance(r, ClassInfo) and self.ix.is_subclass(r, self.isd_cls):
          return {ISDP}
        return {FRESH}
      if callee is not None and callee.qualname in self.funcs:
        return set(self.ret[callee.qualname])
      if isinstance(fn, ast.Attribute) and (name in PART_GETTERS or name in self.mf.views):
        return self.prov(f, fn.value)
      return {OTHER}
    return {OTHER}


def check_purity(ctx, prov: Provenance, funcs: typing.List[FuncInfo], ps, rule="PUR"):
  """ps: live.ParamSummaries (which parameters a callee mutates)."""
  mf = prov.mf
  n = 0
  mut_names = set(mf.mutators) | set(mf.parent_mutators) | {"set_doc"}
  for f in funcs:
    ctx.unit(f.module)
    for c in own_nodes(f.node):
      if not isinstance(c, ast.Call):
        continue
      name = call_name(c)
      if isinstance(c.func, ast.Attribute) and name in mut_names:
        pv = prov.prov(f, c.func.value)
        if pv and pv != {OTHER}:
          n += 1
          key = f"{f.qualname}|{short(c, 70)}"
          ctx.check(SOURCE not in pv, rule, key, ctx.where(f.module, c), f"receiver provenance {sorted(pv)}",
                    f"`{short(c, 70)}` mutates `{unparse(c.func.value)}`, which may be (part of) the caller's source document "
                    f"(provenance {sorted(pv)}): snapshots / writers must not change the document they read")
      callee = prov.callee_of(f, c)
      if isinstance(callee, FuncInfo):
        summ = ps.mut.get(callee.qualname, {})
        for (a, p) in prov.arg_pairs(f, c, callee):
          eff = summ.get(p, set())
          if eff:
            pv = prov.prov(f, a)
            if pv and pv != {OTHER}:
              n += 1
              key = f"{f.qualname}|{short(c, 50)}|{p}"
              ctx.check(SOURCE not in pv, rule, key, ctx.where(f.module, c), f"argument `{short(a, 30)}` provenance {sorted(pv)}",
                        f"`{short(c, 60)}` passes `{short(a, 30)}` (provenance {sorted(pv)}) as `{p}`, which {callee.short} mutates "
                        f"({sorted(eff)}): the caller's source document would be changed")
  return n


def check_isd_ownership(ctx, prov: Provenance, funcs: typing.List[FuncInfo], rule="OWN-isd"):
  n = 0
  for f in funcs:
    for c in own_nodes(f.node):
      if not (isinstance(c, ast.Call) and isinstance(c.func, ast.Attribute)):
        continue
      name = c.func.attr
      if name in TIMING_MUTATORS:
        pv = prov.prov(f, c.func.value)
        if pv and pv != {OTHER}:
          n += 1
          ctx.check(ISDP not in pv, rule, f"{f.qualname}|{short(c, 70)}", ctx.where(f.module, c), f"receiver provenance {sorted(pv)}",
                    f"`{short(c, 70)}` gives an ISD-owned element timing / animation / a region reference; snapshots must carry none")
      if name == "copy_to" and c.args:
        pv = prov.prov(f, c.args[0])
        if pv and pv != {OTHER}:
          n += 1
          ctx.check(ISDP not in pv, rule, f"{f.qualname}|{short(c, 70)}", ctx.where(f.module, c), f"destination provenance {sorted(pv)}",
                    f"`{short(c, 70)}` copies timing and animation onto an ISD-owned element")
  return n
