"""Small structural matchers shared by the property modules.  They match the syntax tree with
captured names (never source text with fixed local names), so renaming a local, reordering the
operands of a comparison or pushing a `not` inwards does not change the verdict."""
from __future__ import annotations

import ast
import typing

from ..core import own_nodes, unparse
from ..core import clone as _clone

_FLIP = {ast.Lt: ">", ast.LtE: ">=", ast.Gt: "<", ast.GtE: "<=", ast.Eq: "==", ast.NotEq: "!=", ast.Is: "is", ast.IsNot: "is not"}
_SYM = {ast.Lt: "<", ast.LtE: "<=", ast.Gt: ">", ast.GtE: ">=", ast.Eq: "==", ast.NotEq: "!=", ast.Is: "is", ast.IsNot: "is not"}
_NEG = {"<": ">=", "<=": ">", ">": "<=", ">=": "<", "==": "!=", "!=": "==", "is": "is not", "is not": "is"}


def relation(test, is_a: typing.Callable[[ast.AST], bool], is_b: typing.Callable[[ast.AST], bool]) -> typing.Optional[str]:
  """The relation R such that `test` means `a R b`, for a two-operand comparison (possibly under
  `not`, possibly written `b R' a`); None when `test` is not such a comparison."""
  neg = False
  while isinstance(test, ast.UnaryOp) and isinstance(test.op, ast.Not):
    neg = not neg
    test = test.operand
  if not (isinstance(test, ast.Compare) and len(test.ops) == 1):
    return None
  l, r, op = test.left, test.comparators[0], type(test.ops[0])
  if op not in _SYM:
    return None
  if is_a(l) and is_b(r):
    rel = _SYM[op]
  elif is_b(l) and is_a(r):
    rel = _FLIP[op]
  else:
    return None
  return _NEG[rel] if neg else rel


def mentions(attr: str):
  """Predicate: the expression reads `<something>.<attr>` or the name `attr` (through calls such as .to_seconds())."""
  def pred(e):
    for n in ast.walk(e):
      if isinstance(n, ast.Attribute) and n.attr == attr:
        return True
      if isinstance(n, ast.Name) and n.id == attr:
        return True
    return False
  return pred


def accessor_shape(e, attr: str) -> str:
  """The expression with the `attr` access replaced by a hole: used to require both sides of a comparison to be read the same way."""
  class T(ast.NodeTransformer):
    def visit_Attribute(self, n):
      if n.attr == attr:
        return ast.Name(id="_", ctx=ast.Load())
      return self.generic_visit(n)

    def visit_Name(self, n):
      return ast.Name(id="_", ctx=ast.Load()) if n.id == attr else n
  import copy
  return unparse(T().visit(_clone(e)))


def is_none_test(test, subject_pred) -> typing.Optional[bool]:
  """True for `x is None`, False for `x is not None` (or equivalents), None otherwise."""
  r = relation(test, subject_pred, lambda e: isinstance(e, ast.Constant) and e.value is None)
  if r in ("is", "=="):
    return True
  if r in ("is not", "!="):
    return False
  return None


def replace_chain(expr) -> typing.Optional[typing.Tuple[ast.AST, typing.List[typing.Tuple[str, str]]]]:
  """For `x.replace(a, b).replace(c, d)...` returns (x, [(a, b), (c, d), ...]) in application order."""
  pairs = []
  cur = expr
  while isinstance(cur, ast.Call) and isinstance(cur.func, ast.Attribute) and cur.func.attr == "replace" and len(cur.args) == 2 \
      and all(isinstance(a, ast.Constant) and isinstance(a.value, str) for a in cur.args):
    pairs.append((cur.args[0].value, cur.args[1].value))
    cur = cur.func.value
  if not pairs:
    return None
  return cur, list(reversed(pairs))


def single_return(fnode) -> typing.Optional[ast.Return]:
  rets = [r for r in own_nodes(fnode) if isinstance(r, ast.Return) and r.value is not None]
  return rets[0] if len(rets) == 1 else None


def local_defs(fnode) -> typing.Dict[str, typing.List[ast.AST]]:
  """name -> values assigned to it by plain single-target assignments in fnode."""
  out: typing.Dict[str, typing.List[ast.AST]] = {}
  for st in own_nodes(fnode):
    if isinstance(st, ast.Assign) and len(st.targets) == 1 and isinstance(st.targets[0], ast.Name):
      out.setdefault(st.targets[0].id, []).append(st.value)
    elif isinstance(st, ast.AnnAssign) and isinstance(st.target, ast.Name) and st.value is not None:
      out.setdefault(st.target.id, []).append(st.value)
  return out


def inline_single_locals(fnode, expr, depth=3):
  """Replace names that have exactly one plain assignment in fnode by that value (bounded depth)."""
  import copy
  defs = local_defs(fnode)

  class T(ast.NodeTransformer):
    def visit_Name(self, n):
      if isinstance(n.ctx, ast.Load) and n.id in defs and len(defs[n.id]) == 1:
        return _clone(defs[n.id][0])
      return n
  e = _clone(expr)
  for _ in range(depth):
    new = T().visit(e)
    if unparse(new) == unparse(e):
      break
    e = new
  return e


class PathUndecided(Exception):
  pass


def path_result(fnode, decide, max_steps=400):
  """Walk the statements of fnode along the single path selected by decide(test_expr_with_locals_inlined)
  -> True / False (it raises PathUndecided for a test it cannot decide).  Plain assignments to local
  names are recorded and inlined into later expressions.  Returns ("return", expr) with locals
  inlined, ("raise", node) or ("end", None)."""
  import copy
  env: typing.Dict[str, ast.AST] = {}

  class Inl(ast.NodeTransformer):
    def visit_Name(self, n):
      if isinstance(n.ctx, ast.Load) and n.id in env:
        return _clone(env[n.id])
      return n

  def inl(e):
    return Inl().visit(_clone(e))
  steps = [0]

  def run(stmts):
    for st in stmts:
      steps[0] += 1
      if steps[0] > max_steps:
        raise PathUndecided("too many steps")
      if isinstance(st, ast.Return):
        return ("return", inl(st.value) if st.value is not None else None)
      if isinstance(st, ast.Raise):
        return ("raise", st)
      if isinstance(st, ast.If):
        r = run(st.body if decide(inl(st.test)) else st.orelse)
        if r is not None:
          return r
        continue
      if isinstance(st, ast.Assign) and len(st.targets) == 1 and isinstance(st.targets[0], ast.Name):
        env[st.targets[0].id] = inl(st.value)
        continue
      if isinstance(st, ast.AnnAssign) and isinstance(st.target, ast.Name) and st.value is not None:
        env[st.target.id] = inl(st.value)
        continue
      if isinstance(st, (ast.Expr, ast.Pass, ast.Assert)):
        continue
      raise PathUndecided(f"statement {type(st).__name__} at line {getattr(st, 'lineno', '?')}")
    return None
  r = run(fnode.body)
  return r if r is not None else ("end", None)


def depends_on(fnode, name: str) -> typing.Set[str]:
  """Locals whose value may depend on `name` (flow-insensitive closure over assignments,
  augmented assignments and loop targets; control dependence on a test that reads `name` counts
  for assignments made under that test)."""
  dep = {name}
  changed = True
  while changed:
    changed = False
    for st in own_nodes(fnode):
      tgts, srcs = [], []
      if isinstance(st, ast.Assign):
        tgts, srcs = st.targets, [st.value]
      elif isinstance(st, ast.AnnAssign) and st.value is not None:
        tgts, srcs = [st.target], [st.value]
      elif isinstance(st, ast.AugAssign):
        tgts, srcs = [st.target], [st.value]
      elif isinstance(st, (ast.For, ast.comprehension)):
        tgts, srcs = [st.target], [st.iter]
      else:
        continue
      # control dependence: enclosing if-tests
      p = getattr(st, "_parent", None)
      while p is not None and p is not fnode:
        if isinstance(p, (ast.If, ast.While)):
          srcs = srcs + [p.test]
        p = getattr(p, "_parent", None)
      if any(isinstance(n, ast.Name) and n.id in dep for s in srcs for n in ast.walk(s)):
        for t in tgts:
          for n in ast.walk(t):
            if isinstance(n, ast.Name) and n.id not in dep:
              dep.add(n.id)
              changed = True
  return dep


def flows_to_return(fnode, name: str) -> bool:
  dep = depends_on(fnode, name)
  for r in own_nodes(fnode):
    if isinstance(r, ast.Return) and r.value is not None and any(isinstance(n, ast.Name) and n.id in dep for n in ast.walk(r.value)):
      return True
  return False


def replace_exprs(stmts, mapping: typing.Dict[str, str]):
  """Clones of the statements with every expression whose source text is a key of `mapping`
  replaced by the Name given (longest keys first, outermost match wins)."""
  keys = sorted(mapping, key=len, reverse=True)

  class R(ast.NodeTransformer):
    def generic_visit(self, node):
      if isinstance(node, ast.expr):
        t = unparse(node)
        for k in keys:
          if t == k:
            return ast.copy_location(ast.Name(id=mapping[k], ctx=getattr(node, "ctx", ast.Load())), node)
      return super().generic_visit(node)

    def visit(self, node):
      if isinstance(node, ast.expr):
        t = unparse(node)
        for k in keys:
          if t == k:
            return ast.copy_location(ast.Name(id=mapping[k], ctx=getattr(node, "ctx", ast.Load())), node)
      return super().visit(node)
  out = []
  for st in stmts:
    out.append(ast.fix_missing_locations(R().visit(_clone(st))))
  return out


class AtomError(Exception):
  """Raised by an atom valuation to say that evaluating this atom under the current assignment would fail at run time."""


def eval_bool(test, leaf, val):
  """Evaluate a test built from and / or / not over recognised leaves with Python's short-circuit
  order.  leaf(e) -> (atom, polarity) or None (unrecognised: ValueError).  val(atom) -> bool, or
  raises AtomError when the atom must not be evaluated under the assignment being explored."""
  if isinstance(test, ast.BoolOp):
    if isinstance(test.op, ast.And):
      for v in test.values:
        if not eval_bool(v, leaf, val):
          return False
      return True
    for v in test.values:
      if eval_bool(v, leaf, val):
        return True
    return False
  if isinstance(test, ast.UnaryOp) and isinstance(test.op, ast.Not):
    return not eval_bool(test.operand, leaf, val)
  r = leaf(test)
  if r is None:
    raise ValueError(unparse(test))
  atom, pol = r
  b = val(atom)
  return b if pol else not b


def nonempty_test(test, is_subject) -> typing.Optional[bool]:
  """True when `test` holds exactly when the container is non-empty (`x`, `len(x) > 0`,
  `len(x) != 0`, `len(x) >= 1`, `x is not None and len(x) > 0`), False when it holds exactly when
  it is empty (`not x`, `len(x) == 0`, `len(x) < 1`), None otherwise."""
  neg = False
  while isinstance(test, ast.UnaryOp) and isinstance(test.op, ast.Not):
    neg = not neg
    test = test.operand
  r = None
  if is_subject(test):
    r = True
  elif isinstance(test, ast.BoolOp) and isinstance(test.op, ast.And) and len(test.values) == 2 and is_none_test(test.values[0], is_subject) is False:
    r = nonempty_test(test.values[1], is_subject)
  else:
    def is_len(e):
      return isinstance(e, ast.Call) and isinstance(e.func, ast.Name) and e.func.id == "len" and len(e.args) == 1 and is_subject(e.args[0])
    for k, table in ((0, {">": True, "!=": True, "==": False, "<=": False}), (1, {">=": True, "<": False})):
      rel = relation(test, is_len, lambda e, k=k: isinstance(e, ast.Constant) and e.value == k and not isinstance(e.value, bool))
      if rel in table:
        r = table[rel]
  if r is None:
    return None
  return (not r) if neg else r


def enclosing_conditions(node, fnode) -> typing.List[typing.Tuple[ast.AST, bool]]:
  """(test, polarity) of every if / while / conditional expression between fnode and node, outermost first:
  node is evaluated only when each test has the given truth value (early exits before it are not considered)."""
  out = []
  cur = node
  p = getattr(cur, "_parent", None)
  while p is not None and cur is not fnode:
    if isinstance(p, (ast.If, ast.While)):
      if any(x is cur for x in p.body):
        out.append((p.test, True))
      elif any(x is cur for x in p.orelse):
        out.append((p.test, False))
    elif isinstance(p, ast.IfExp):
      if p.body is cur:
        out.append((p.test, True))
      elif p.orelse is cur:
        out.append((p.test, False))
    cur, p = p, getattr(p, "_parent", None)
  return list(reversed(out))


def reaching_conditions(node, fnode) -> typing.List[typing.Tuple[ast.AST, bool]]:
  """enclosing_conditions plus the early exits before node: a preceding sibling `if T: ... return / raise / continue / break`
  (in any enclosing block) means node is reached only when T was false (or true, when it is the else branch that leaves)."""
  def leaves(block):
    return bool(block) and isinstance(block[-1], (ast.Return, ast.Raise, ast.Continue, ast.Break))
  out = list(enclosing_conditions(node, fnode))
  cur = node
  while cur is not None and cur is not fnode:
    par = getattr(cur, "_parent", None)
    for fld in ("body", "orelse", "finalbody"):
      blk = getattr(par, fld, None)
      if isinstance(blk, list) and any(x is cur for x in blk):
        for prev in blk:
          if prev is cur:
            break
          if isinstance(prev, ast.If):
            if leaves(prev.body) and not leaves(prev.orelse):
              out.append((prev.test, False))
            elif leaves(prev.orelse) and not leaves(prev.body):
              out.append((prev.test, True))
    cur = par
  return out


def local_value(stmts, name: str) -> typing.Optional[ast.AST]:
  """The expression a local holds after the given statement list, where `if T: v = a  else: v = b`
  (nested if / elif included) counts as `v = a if T else b`; None when some path leaves it unassigned
  or assigns it in another way."""
  val = None
  for st in stmts:
    if isinstance(st, ast.Assign) and len(st.targets) == 1 and isinstance(st.targets[0], ast.Name) and st.targets[0].id == name:
      val = st.value
    elif isinstance(st, ast.AnnAssign) and isinstance(st.target, ast.Name) and st.target.id == name and st.value is not None:
      val = st.value
    elif isinstance(st, ast.If) and any(isinstance(n, ast.Name) and n.id == name and isinstance(n.ctx, ast.Store) for n in ast.walk(st)):
      a = local_value(st.body, name)
      b = local_value(st.orelse, name) if st.orelse else val
      if a is None or b is None:
        return None
      val = ast.fix_missing_locations(ast.copy_location(ast.IfExp(test=st.test, body=a, orelse=b), st))
  return val


def _blocks(fnode):
  for n in own_nodes(fnode):
    for fld in ("body", "orelse", "finalbody"):
      b = getattr(n, fld, None)
      if isinstance(b, list) and b and isinstance(b[0], ast.stmt):
        yield b
  yield fnode.body


def inline_locals_deep(fnode, expr, depth=4, keep=()):
  """expr (a node of fnode) with every local replaced by the value it holds where expr is evaluated:
  the statements that precede expr in each enclosing statement list, innermost first, are read with
  local_value (plain assignment or if / else assignment); repeated `depth` times."""
  params = {a.arg for a in fnode.args.posonlyargs + fnode.args.args + fnode.args.kwonlyargs}
  # enclosing statement lists with the index of the statement that leads to expr
  chain = []
  cur = expr
  p = getattr(cur, "_parent", None)
  while p is not None and cur is not fnode:
    for fld in ("body", "orelse", "finalbody"):
      b = getattr(p, fld, None)
      if isinstance(b, list):
        for i, st in enumerate(b):
          if st is cur:
            chain.append((b, i))
    cur, p = p, getattr(p, "_parent", None)

  def value_of(name):
    for b, i in chain:
      if any(isinstance(n, ast.Name) and n.id == name and isinstance(n.ctx, ast.Store) for st in b[:i] for n in ast.walk(st)):
        return local_value(b[:i], name)
    return None

  class T(ast.NodeTransformer):
    def visit_Name(self, n):
      if isinstance(n.ctx, ast.Load) and n.id not in params and n.id not in keep:
        v = value_of(n.id)
        if v is not None and not any(isinstance(x, ast.Name) and x.id == n.id for x in ast.walk(v)):
          return _clone(v)
      return n
  e = _clone(expr)
  for _ in range(depth):
    new = T().visit(_clone(e))
    if unparse(new) == unparse(e):
      break
    e = new
  return ast.fix_missing_locations(e)
