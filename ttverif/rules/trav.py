"""Traversal / coverage rules.

READ-COVER   a predicate that reads the specified values of style properties P and also looks at
             animation steps must let every property of P count: an animation filter narrower than
             the set of properties the predicate itself reads is an incomplete table.
TRAV         in a collector (a function that must visit every element / every source of a fact)
             the collecting loop is reached on every path from the entry of its scope: no early
             `return` / `continue` skips it.
TYPE-GUARD   a guard made of isinstance tests is evaluated over the finite set of (element class,
             parent class) pairs and compared with an oracle predicate.
COMPUTED     decisions taken after style computation read the computed value (from the ISD element),
             never the specified value of the source element.
"""
from __future__ import annotations

import ast
import itertools
import typing

from ..cfg import CFG
from ..core import AnalysisError, ClassInfo, FuncInfo, Index, own_nodes, parent, short, unparse


# ---------------------------------------------------------------------------------------
# helpers
# ---------------------------------------------------------------------------------------

def style_prop_name(e) -> typing.Optional[str]:
  t = unparse(e)
  for pre in ("styles.StyleProperties.", "StyleProperties.", "model_styles.StyleProperties."):
    if t.startswith(pre):
      return t[len(pre):]
  return None


def const_prop_set(ix: Index, f: FuncInfo, e) -> typing.Optional[typing.Set[str]]:
  """Set of StyleProperties member names denoted by a tuple / set / frozenset(...) display or by a
  name / attribute that resolves to a class- or module-level assignment of one."""
  if isinstance(e, (ast.Tuple, ast.List, ast.Set)):
    names = [style_prop_name(x) for x in e.elts]
    return set(names) if all(names) else None
  if isinstance(e, ast.Call) and unparse(e.func) in ("frozenset", "set", "tuple", "list") and len(e.args) == 1:
    return const_prop_set(ix, f, e.args[0])
  if isinstance(e, (ast.Name, ast.Attribute)):
    r = ix.resolve(f.module, e, cls=f.cls, func=f)
    if isinstance(r, tuple) and r[0] == "assign":
      return const_prop_set(ix, f, r[2])
  return None


# ---------------------------------------------------------------------------------------
# READ-COVER
# ---------------------------------------------------------------------------------------

def _check_absent(ctx, f: FuncInfo, subject: str, rule):
  """A `return False` ("never painted") must follow from a value that is specified: a style that is
  not specified on the region may still be set by a document-level initial value or by inheritance,
  so `get_style(...) is None` proves nothing."""
  from . import match as _m
  from ..core import parent as _p
  locals_from_style = {}
  for st in own_nodes(f.node):
    if isinstance(st, (ast.Assign, ast.AnnAssign)) and isinstance(getattr(st, "value", None), ast.Call) and isinstance(st.value.func, ast.Attribute) and st.value.func.attr == "get_style" \
        and unparse(st.value.func.value) == subject:
      tgt = st.targets[0] if isinstance(st, ast.Assign) else st.target
      if isinstance(tgt, ast.Name):
        locals_from_style[tgt.id] = unparse(st.value.args[0]).split(".")[-1] if st.value.args else "?"
  for r in own_nodes(f.node):
    if isinstance(r, ast.Return) and isinstance(r.value, ast.Constant) and r.value.value is False:
      child, par = r, _p(r)
      while par is not None and par is not f.node:
        if isinstance(par, ast.If):
          isn = _m.is_none_test(par.test, lambda e: (isinstance(e, ast.Name) and e.id in locals_from_style) or (isinstance(e, ast.Call) and isinstance(e.func, ast.Attribute) and e.func.attr == "get_style"))
          in_body = any(child is x for x in par.body)
          if isn is not None and ((isn and in_body) or (not isn and not in_body)):
            ctx.bad(rule, f"{f.qualname}|absent value taken as a verdict", ctx.where(f.module, r),
                    f"`{short(par.test, 50)}`: the region is declared never painted because a style is not specified on it; a document-level initial value (or animation) can still make it visible, "
                    "so the cached snapshots drop a region the uncached ones paint")
        child, par = par, _p(par)


def check_anim_cover(ctx, f: FuncInfo, subject: str, rule="READ-COVER"):
  """`f` decides something about `subject` from its specified styles; its loop over
  subject.iter_animation_steps() must treat a step on any of those properties as relevant."""
  ix = ctx.ix
  ctx.unit(f.module)
  reads = set()
  for c in own_nodes(f.node):
    if isinstance(c, ast.Call) and isinstance(c.func, ast.Attribute) and c.func.attr == "get_style" and unparse(c.func.value) == subject and c.args:
      p = style_prop_name(c.args[0])
      if p:
        reads.add(p)
  loops = [n for n in own_nodes(f.node) if isinstance(n, ast.For) and unparse(n.iter) == f"{subject}.iter_animation_steps()"]
  key = f"{f.qualname}|animation steps on every property the predicate reads count"
  if not reads:
    raise AnalysisError(f"{f.qualname}: reads no specified style of `{subject}` (anchor changed)")
  if not loops:
    # other idiom: `if <any step exists>: return True` (len(list(...)) > 0, any(...), next(..., None) is not None)
    tests = [n for n in own_nodes(f.node) if isinstance(n, ast.If) and f"{subject}.iter_animation_steps()" in unparse(n.test)]
    if len(tests) == 1 and "style_property" not in unparse(tests[0].test) and isinstance(tests[0].body[0], ast.Return) \
        and isinstance(tests[0].body[0].value, ast.Constant) and tests[0].body[0].value.value is True:
      ctx.ok(rule, key, ctx.where(f.module, tests[0]), f"any animation step counts (`{short(tests[0].test, 60)}`); specified reads: {sorted(reads)}")
      return
    if tests:
      raise AnalysisError(f"{f.qualname}: the test `{short(tests[0].test, 70)}` on the animation steps was not recognised (idiom)")
  if len(loops) != 1:
    ctx.bad(rule, key, ctx.where(f.module, f.node), f"{f.short} reads the specified {sorted(reads)} of `{subject}` but does not look at its animation steps (exactly one loop over {subject}.iter_animation_steps() expected, found {len(loops)})")
    return
  lp = loops[0]
  step = unparse(lp.target)
  first = lp.body[0] if lp.body else None
  covered: typing.Optional[typing.Set[str]] = None
  everything = False
  if isinstance(first, ast.Return):
    everything = True
  elif isinstance(first, ast.If) and len(lp.body) == 1 and not first.orelse and isinstance(first.body[0], ast.Return):
    t = first.test
    covered = set()
    parts = t.values if isinstance(t, ast.BoolOp) and isinstance(t.op, ast.Or) else [t]
    for part in parts:
      if isinstance(part, ast.Compare) and len(part.ops) == 1 and unparse(part.left) == f"{step}.style_property":
        if isinstance(part.ops[0], ast.In):
          s = const_prop_set(ix, f, part.comparators[0])
          if s is None:
            covered = None
            break
          covered |= s
        elif isinstance(part.ops[0], (ast.Is, ast.Eq)):
          p = style_prop_name(part.comparators[0])
          if p is None:
            covered = None
            break
          covered.add(p)
        else:
          covered = None
          break
      else:
        covered = None
        break
    if covered is None:
      raise AnalysisError(f"{f.qualname}: the animation-step filter `{short(t, 80)}` is not a membership / identity test on {step}.style_property (idiom not recognised)")
  else:
    raise AnalysisError(f"{f.qualname}: the body of the animation-step loop is neither `return ...` nor `if <filter>: return ...` (idiom not recognised)")
  _check_absent(ctx, f, subject, rule)
  if everything:
    ctx.ok(rule, key, ctx.where(f.module, lp), f"every animation step counts; specified reads: {sorted(reads)}")
  else:
    missing = sorted(reads - covered)
    ctx.check(not missing, rule, key, ctx.where(f.module, lp), f"filter {sorted(covered)} covers the specified reads {sorted(reads)}",
              f"{f.short} decides from the specified values of {sorted(reads)}, but only animation steps on {sorted(covered)} count: a set step on {missing} "
              f"changes the outcome and is ignored")


# ---------------------------------------------------------------------------------------
# TRAV
# ---------------------------------------------------------------------------------------

def check_loop_reached(ctx, f: FuncInfo, is_loop: typing.Callable[[ast.AST], bool], what: str, rule="TRAV", scope: typing.Optional[ast.AST] = None,
                       allowed_exit: typing.Callable[[ast.AST], bool] = lambda st: False, min_loops=1):
  """Every path from the entry of `scope` (default: the function; for a loop statement: one
  iteration of its body) to its end passes through each statement selected by `is_loop`, unless it
  leaves through a statement accepted by `allowed_exit` (or raises)."""
  ctx.unit(f.module)
  region = scope if scope is not None else f.node
  targets = [n for n in own_nodes(region) if is_loop(n)]
  key = f"{f.qualname}|{what}"
  if len(targets) < min_loops:
    ctx.bad(rule, key, ctx.where(f.module, region), f"{f.short}: {what}: the visiting statement was not found ({len(targets)} of at least {min_loops})")
    return 0
  for i, tgt in enumerate(targets):
    skip = _skipping_exit(region, tgt, allowed_exit)
    ctx.check(skip is None, rule, key + (f" #{i + 1}" if len(targets) > 1 else ""), ctx.where(f.module, tgt), f"`{short(tgt, 60)}` is reached on every path",
              f"{f.short}: {what}: `{short(skip, 70) if skip is not None else ''}` (line {getattr(skip, 'lineno', '?')}) leaves before `{short(tgt, 60)}` is reached, so part of the input is never visited")
  return len(targets)


def _skipping_exit(region, target, allowed_exit):
  """A return / continue / break statement that can execute before `target` inside `region`
  (syntactic: it precedes `target` in a statement list that encloses it, at any nesting), or None."""
  # chain of (statement list, index) from region down to target
  chain = []
  node = target
  while node is not region:
    par = parent(node)
    if par is None:
      raise AnalysisError("TRAV: target is not inside the region")
    for fld in ("body", "orelse", "finalbody", "handlers"):
      lst = getattr(par, fld, None)
      if isinstance(lst, list) and any(x is node for x in lst):
        chain.append((par, lst, [i for i, x in enumerate(lst) if x is node][0]))
        break
    node = par
  is_loop_region = isinstance(region, (ast.For, ast.While))
  for par, lst, idx in chain:
    for st in lst[:idx]:
      for n in ast.walk(st):
        if isinstance(n, (ast.FunctionDef, ast.AsyncFunctionDef, ast.Lambda, ast.ClassDef)):
          continue
        if isinstance(n, ast.Return) and not allowed_exit(n):
          if not _inside_nested_def(n, st):
            return n
        if isinstance(n, (ast.Continue, ast.Break)) and not allowed_exit(n):
          # only counts when it belongs to the region loop (not to a loop nested in st)
          if _owning_loop(n, st) is None and (is_loop_region or _encloses_loop(region, par)):
            return n
  return None


def _inside_nested_def(n, top):
  p = parent(n)
  while p is not None and p is not top:
    if isinstance(p, (ast.FunctionDef, ast.AsyncFunctionDef, ast.Lambda)):
      return True
    p = parent(p)
  return False


def _owning_loop(n, top):
  """The innermost loop between n and top (inclusive of top) that owns a continue/break, or None."""
  p = parent(n)
  while p is not None:
    if isinstance(p, (ast.For, ast.While)):
      return p
    if p is top:
      return None
    p = parent(p)
  return None


def _encloses_loop(region, par):
  p = par
  while p is not None and p is not region:
    if isinstance(p, (ast.For, ast.While)):
      return True
    p = parent(p)
  return isinstance(region, (ast.For, ast.While))


# ---------------------------------------------------------------------------------------
# TYPE-GUARD
# ---------------------------------------------------------------------------------------

class Undecidable(Exception):
  pass


def eval_type_predicate(ix: Index, f: FuncInfo, test, env: typing.Dict[str, ClassInfo]) -> bool:
  """Value of a guard built from isinstance(<name>, <class or tuple>) / `is None` on names bound in
  env, and / or / not, for the dynamic classes given in env (name -> ClassInfo, or None for None)."""
  if isinstance(test, ast.BoolOp):
    vals = [eval_type_predicate(ix, f, v, env) for v in test.values]
    return all(vals) if isinstance(test.op, ast.And) else any(vals)
  if isinstance(test, ast.UnaryOp) and isinstance(test.op, ast.Not):
    return not eval_type_predicate(ix, f, test.operand, env)
  if isinstance(test, ast.Call) and unparse(test.func) == "isinstance" and len(test.args) == 2 and isinstance(test.args[0], ast.Name) and test.args[0].id in env:
    c = env[test.args[0].id]
    if c is None:
      return False
    clss = test.args[1].elts if isinstance(test.args[1], ast.Tuple) else [test.args[1]]
    for ce in clss:
      r = ix.resolve(f.module, ce, cls=f.cls, func=f)
      if not isinstance(r, ClassInfo):
        raise Undecidable(unparse(ce))
      if ix.is_subclass(c, r):
        return True
    return False
  if isinstance(test, ast.Compare) and len(test.ops) == 1 and isinstance(test.left, ast.Name) and test.left.id in env and isinstance(test.comparators[0], ast.Constant) and test.comparators[0].value is None:
    isnone = env[test.left.id] is None
    return isnone if isinstance(test.ops[0], (ast.Is, ast.Eq)) else not isnone
  raise Undecidable(short(test, 60))


def check_type_guard(ctx, f: FuncInfo, test, names: typing.Dict[str, typing.List[typing.Optional[ClassInfo]]], oracle, rule, key, where, what: str):
  """Compares `test` with `oracle(**{name: ClassInfo})` for every combination of classes."""
  ix = ctx.ix
  keys = sorted(names)
  bad = []
  n = 0
  try:
    for combo in itertools.product(*[names[k] for k in keys]):
      env = dict(zip(keys, combo))
      got = eval_type_predicate(ix, f, test, env)
      want = oracle(**env)
      n += 1
      if want is None:   # the specification does not care
        continue
      if bool(got) != bool(want):
        bad.append(", ".join(f"{k}={'None' if v is None else v.name}" for k, v in env.items()) + f": guard is {got}, must be {want}")
  except Undecidable as e:
    raise AnalysisError(f"{f.qualname}: the guard `{short(test, 80)}` contains `{e}`, which is not an isinstance / None test on {keys} (idiom not recognised)")
  ctx.check(not bad, rule, key, where, f"{what}: guard agrees with the oracle on {n} class combinations",
            f"{what}: the guard `{short(test, 90)}` disagrees with the specification for " + "; ".join(bad[:4]) + (f" (+{len(bad) - 4} more)" if len(bad) > 4 else ""))
  return n


# ---------------------------------------------------------------------------------------
# COMPUTED
# ---------------------------------------------------------------------------------------

def check_decisions_read_computed(ctx, f: FuncInfo, source_names: typing.Set[str], after: typing.Callable[[ast.AST], bool], rule="COMPUTED"):
  """In `f`, every `If` test that follows the first statement selected by `after` (the point from
  which computed values exist) must not call get_style / has_style on a name in `source_names`
  (the source-document objects): the decision must depend on the computed value."""
  ctx.unit(f.module)
  body = f.node.body
  start = next((i for i, st in enumerate(body) if any(after(n) for n in ast.walk(st))), None)
  if start is None:
    raise AnalysisError(f"{f.qualname}: the style computation step was not found (anchor changed)")
  n = 0
  for st in body[start + 1:]:
    for node in ast.walk(st):
      if isinstance(node, (ast.If, ast.IfExp, ast.While)):
        for c in ast.walk(node.test):
          if isinstance(c, ast.Call) and isinstance(c.func, ast.Attribute) and c.func.attr in ("get_style", "has_style"):
            n += 1
            recv = unparse(c.func.value)
            ctx.check(recv not in source_names, rule, f"{f.qualname}|{short(c, 70)}", ctx.where(f.module, c), "reads the computed value",
                      f"`{short(node.test, 90)}` decides from `{recv}`, the source element: after style computation the decision must read the computed value "
                      f"(animation, inheritance and initial values are otherwise ignored)")
          elif isinstance(c, ast.Call) and unparse(c.func) not in ("isinstance", "type", "id", "len") and any(isinstance(a, ast.Name) and a.id in source_names for a in c.args):
            # a predicate that is handed the source element can only look at specified values
            n += 1
            ctx.bad(rule, f"{f.qualname}|{short(c, 70)}", ctx.where(f.module, c),
                    f"`{short(node.test, 90)}` hands the source element to `{short(c.func, 40)}`: after style computation the decision must be taken from the computed "
                    f"values of the ISD element (a predicate over the source sees specified styles only and ignores animation, inheritance and initial values)")
  return n


# ---------------------------------------------------------------------------------------
# ORD-preorder
# ---------------------------------------------------------------------------------------

def check_preorder(ctx, f: FuncInfo, rule="ORD-preorder"):
  """A recursive per-element step that reads the *parent's* style state and writes the element's
  own must finish with the element before it descends: the children read this element as their
  parent.  (Post-order would let a child see the parent's not-yet-filtered state.)"""
  ctx.unit(f.module)
  elem = next((p for p in f.params if p not in ("self", "cls")), None)
  if elem is None:
    return 0
  rec = [c for c in own_nodes(f.node) if isinstance(c, ast.Call) and unparse(c.func) in (f"self.{f.name}", f"cls.{f.name}", f.name)]
  reads_parent = any(isinstance(c, ast.Call) and isinstance(c.func, ast.Attribute) and c.func.attr == "parent" and unparse(c.func.value) == elem for c in own_nodes(f.node))
  writes = [c for c in own_nodes(f.node) if isinstance(c, ast.Call) and isinstance(c.func, ast.Attribute) and c.func.attr in ("set_style", "remove_style") and unparse(c.func.value) == elem]
  if not rec or not reads_parent or not writes:
    return 0

  def top(n):
    for i, st in enumerate(f.node.body):
      if any(x is n for x in ast.walk(st)):
        return i
    return -1
  first_rec = min(top(c) for c in rec)
  late = [w for w in writes if top(w) >= first_rec]
  ctx.check(not late, rule, f"{f.qualname}|the element is finished before its children are visited", ctx.where(f.module, rec[0]),
            f"all {len(writes)} style writes on `{elem}` precede the recursion",
            f"{f.short} reads `{elem}.parent()`'s styles and writes `{elem}`'s own, but descends into the children before `{short(late[0], 50) if late else ''}`: "
            f"the children see a parent that has not been processed yet")
  return 1


def check_postorder_emptiness(ctx, f: FuncInfo, rule="ORD-postorder"):
  """A recursive step that removes a child because the child has nothing left (its own children are
  counted: `not child`, `len(child)`, `child.has_children()`, a quantifier over the child's
  children) must first have recursed into that child: only after the grandchildren were pruned is the
  child's emptiness final.  Testing first leaves containers that become empty afterwards."""
  ctx.unit(f.module)
  n = 0
  for lp in own_nodes(f.node):
    if not (isinstance(lp, ast.For) and isinstance(lp.target, ast.Name)):
      continue
    c = lp.target.id
    rec = [x for x in own_nodes(lp) if isinstance(x, ast.Call) and unparse(x.func).split(".")[-1] == f.name and any(isinstance(a, ast.Name) and a.id == c for a in x.args)]
    if not rec:
      continue

    def counts_children(e):
      for x in ast.walk(e):
        if isinstance(x, ast.UnaryOp) and isinstance(x.op, ast.Not) and isinstance(x.operand, ast.Name) and x.operand.id == c:
          return True
        if isinstance(x, ast.Call) and isinstance(x.func, ast.Name) and x.func.id in ("len", "any", "all", "list", "bool") and x.args and any(isinstance(y, ast.Name) and y.id == c for y in ast.walk(x.args[0])
                                                                                                                                       if not isinstance(getattr(y, "_parent", None), ast.Attribute)):
          return True
        if isinstance(x, ast.Call) and isinstance(x.func, ast.Attribute) and x.func.attr in ("has_children", "first_child", "last_child") and unparse(x.func.value) == c:
          return True
        if isinstance(x, ast.comprehension) and isinstance(x.iter, ast.Name) and x.iter.id == c:
          return True
      return False
    tests = [t for t in own_nodes(lp) if isinstance(t, ast.If) and counts_children(t.test)]
    if not tests:
      continue
    n += 1

    def idx(node):
      for i, st in enumerate(lp.body):
        if any(x is node for x in ast.walk(st)):
          return i
      return -1
    rec_top = [r for r in rec if isinstance(lp.body[idx(r)], ast.Expr)]
    first_rec = min((idx(r) for r in rec_top), default=None)
    early = [t for t in tests if first_rec is None or idx(t) < first_rec or (idx(t) == first_rec)]
    ctx.check(not early, rule, f"{f.qualname}|a child is tested for emptiness after its own children were processed", ctx.where(f.module, lp),
              f"`{f.name}({c})` runs unconditionally before `{short(tests[0].test, 50)}`",
              f"{f.short} decides whether `{c}` is empty (`{short(early[0].test, 50) if early else ''}`) before - or without unconditionally - recursing into it: "
              "a container whose content is pruned afterwards stays in the result although it is empty")
  return n


def recursive_child_loops(f: FuncInfo):
  """The for-loops of f whose body calls f again (a walk over children)."""
  out = []
  for lp in own_nodes(f.node):
    if isinstance(lp, ast.For) and any(isinstance(c, ast.Call) and unparse(c.func).split(".")[-1] == f.name for st in lp.body for c in ast.walk(st)):
      out.append(lp)
  return out


def check_recursive_walkers(ctx, funcs, rule="TRAV-rec", exempt: typing.Optional[typing.Dict[str, str]] = None):
  """A function that walks a tree by calling itself on every child reaches that child loop on every
  path: an early return in front of it (for some kind of element, say) silently stops the walk there,
  and everything below is never visited."""
  exempt = exempt or {}
  n = 0
  for f in funcs:
    loops = recursive_child_loops(f)
    if not loops or f.qualname in exempt:
      continue
    n += check_loop_reached(ctx, f, lambda x: any(x is lp for lp in loops), "the walk descends into the children of every element", rule=rule,
                            allowed_exit=lambda st, _f=f, _l=loops: _empty_lookup_exit(_f, st) or _no_children_exit(_f, st, _l))
  return n


def _no_children_exit(f: FuncInfo, ret, loops) -> bool:
  """`if not p.has_children(): return` / `if len(p) == 0: return` where p is the parameter whose children the walk's loop
  visits: without children there is nothing to descend into."""
  if not isinstance(ret, ast.Return) or ret.value is not None:
    return False
  par = parent(ret)
  if not (isinstance(par, ast.If) and len(par.body) == 1 and par.body[0] is ret and not par.orelse):
    return False
  t = par.test
  name = None
  if isinstance(t, ast.UnaryOp) and isinstance(t.op, ast.Not) and isinstance(t.operand, ast.Call) and isinstance(t.operand.func, ast.Attribute) \
      and t.operand.func.attr == "has_children" and isinstance(t.operand.func.value, ast.Name) and not t.operand.args:
    name = t.operand.func.value.id
  elif isinstance(t, ast.Compare) and len(t.ops) == 1 and isinstance(t.ops[0], ast.Eq) and isinstance(t.comparators[0], ast.Constant) and t.comparators[0].value == 0 \
      and isinstance(t.left, ast.Call) and unparse(t.left.func) == "len" and len(t.left.args) == 1 and isinstance(t.left.args[0], ast.Name):
    name = t.left.args[0].id
  if name is None or name not in f.params:
    return False
  if any(isinstance(n, ast.Name) and n.id == name and isinstance(n.ctx, ast.Store) for n in own_nodes(f.node)):
    return False
  # the loops that descend iterate over that parameter (directly or through a local copy of its children)
  copies = {name, f"list({name})", f"iter({name})", f"tuple({name})"}
  for st in own_nodes(f.node):
    if isinstance(st, ast.Assign) and len(st.targets) == 1 and isinstance(st.targets[0], ast.Name) and unparse(st.value) in (f"list({name})", f"tuple({name})"):
      copies.add(st.targets[0].id)
  return all(isinstance(lp, ast.For) and unparse(lp.iter) in copies for lp in loops)

def _empty_lookup_exit(f: FuncInfo, ret) -> bool:
  """`if len(p) == 0: return` (or `if not p: return`) at the top of a recursive walker, where p is a parameter that every
  recursive call passes on unchanged and that the walker otherwise only looks things up in (`x in p`, `p.get(x)`, `p[x]`):
  with an empty table no look-up can succeed, so leaving at once visits nothing that would have been changed."""
  if not isinstance(ret, ast.Return) or ret.value is not None:
    return False
  par = parent(ret)
  if not (isinstance(par, ast.If) and len(par.body) == 1 and par.body[0] is ret and not par.orelse and parent(par) is f.node):
    return False
  t = par.test
  name = None
  if isinstance(t, ast.UnaryOp) and isinstance(t.op, ast.Not) and isinstance(t.operand, ast.Name):
    name = t.operand.id
  elif isinstance(t, ast.Compare) and len(t.ops) == 1 and isinstance(t.ops[0], ast.Eq) and isinstance(t.comparators[0], ast.Constant) and t.comparators[0].value == 0 \
      and isinstance(t.left, ast.Call) and unparse(t.left.func) == "len" and len(t.left.args) == 1 and isinstance(t.left.args[0], ast.Name):
    name = t.left.args[0].id
  if name is None or name not in f.params:
    return False
  pos = f.params.index(name)
  for n in own_nodes(f.node):
    if isinstance(n, ast.Name) and n.id == name:
      if isinstance(n.ctx, ast.Store):
        return False
      up = parent(n)
      if up is t or up is getattr(t, "left", None) or (isinstance(t, ast.UnaryOp) and up is t):
        continue
      if isinstance(up, ast.Compare) and len(up.ops) == 1 and isinstance(up.ops[0], (ast.In, ast.NotIn)) and up.comparators[0] is n:
        continue
      if isinstance(up, ast.Subscript) and up.value is n and isinstance(up.ctx, ast.Load):
        continue
      if isinstance(up, ast.Attribute) and up.attr == "get" and isinstance(parent(up), ast.Call) and parent(up).func is up:
        continue
      if isinstance(up, ast.Call) and unparse(up.func).split(".")[-1] == f.name:
        if any(a is n and i == pos - (1 if f.cls is not None and not f.is_static and isinstance(up.func, ast.Attribute) else 0) for i, a in enumerate(up.args)):
          continue
      if isinstance(up, ast.keyword) and up.arg == name and up.value is n:
        continue
      return False
  return True
