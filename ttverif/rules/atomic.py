"""ORD raise-before-write (a rejected single-element operation changes nothing), guard
dominance before the first write, and OWN (who may write the private link fields)."""
from __future__ import annotations

import ast
import typing

from ..cfg import CFG, header_exprs
from ..core import AnalysisError, ClassInfo, FuncInfo, Index, own_nodes, short, unparse
from ..modelfacts import CONTAINER_MUTATORS, ModelFacts


class Effects:
  """Per model method: does it write state, can it raise, and does it raise only before it
  writes (so that a caller may treat it as an atomic 'check then write' step)."""

  def __init__(self, ix: Index, mf: ModelFacts):
    self.ix, self.mf = ix, mf
    self.summary: typing.Dict[str, typing.Tuple[bool, bool, bool]] = {}   # qualname -> (writes, raises, atomic)
    self._busy = set()

  def method_effects(self, f: FuncInfo, none_params: frozenset = frozenset()):
    """none_params: parameters bound to the constant None at the call site; branches of the
    callee decided by `p is None` / `p is not None` / `p` are pruned accordingly."""
    key = f.qualname + "|" + ",".join(sorted(none_params))
    if key in self.summary:
      return self.summary[key]
    if key in self._busy:
      return (True, True, False)   # recursion: conservatively non-atomic
    self._busy.add(key)
    try:
      cfg = CFG(f.node)
      live = self.reachable_given_none(cfg, none_params)
      kinds = {n: k for n, k in self.node_kinds(f, cfg).items() if n in live}
      writes = any("W" in k for k in kinds.values())
      raises = any("R" in k for k in kinds.values())
      viol = self.write_then_raise(f, cfg, kinds, live)
      res = (writes, raises, viol is None)
    finally:
      self._busy.discard(key)
    self.summary[key] = res
    return res

  @staticmethod
  def _decided(test, none_params) -> typing.Optional[bool]:
    if isinstance(test, ast.Name) and test.id in none_params:
      return False
    if isinstance(test, ast.UnaryOp) and isinstance(test.op, ast.Not):
      v = Effects._decided(test.operand, none_params)
      return None if v is None else not v
    if isinstance(test, ast.BoolOp):
      # `p is not None and <anything>` is false when p is None; `p is None or <anything>` is true
      vals = [Effects._decided(v, none_params) for v in test.values]
      if isinstance(test.op, ast.And):
        if any(v is False for v in vals):
          return False
        return True if all(v is True for v in vals) else None
      if any(v is True for v in vals):
        return True
      return False if all(v is False for v in vals) else None
    if isinstance(test, ast.Compare) and len(test.ops) == 1 and isinstance(test.left, ast.Name) and test.left.id in none_params \
        and isinstance(test.comparators[0], ast.Constant) and test.comparators[0].value is None:
      if isinstance(test.ops[0], (ast.Is, ast.Eq)):
        return True
      if isinstance(test.ops[0], (ast.IsNot, ast.NotEq)):
        return False
    return None

  def reachable_given_none(self, cfg: CFG, none_params) -> typing.Set[int]:
    seen, stack = {cfg.entry}, [cfg.entry]
    while stack:
      n = stack.pop()
      for (s, lab) in cfg.nodes[n].succ:
        if none_params and isinstance(lab, tuple) and lab[0] == "cond":
          v = self._decided(lab[1], none_params)
          if v is not None and v != lab[2]:
            continue
        if s not in seen:
          seen.add(s)
          stack.append(s)
    return seen

  def node_kinds(self, f: FuncInfo, cfg: CFG) -> typing.Dict[int, typing.Set[str]]:
    """For each CFG node: 'W' if it writes object state, 'R' if it may raise *before* any write
    it performs itself, 'RW'-style callee = {'R','W'} with atomic callee, and 'X' (non-atomic
    callee: may raise after writing)."""
    out: typing.Dict[int, typing.Set[str]] = {}
    selfname = f.params[0] if f.params and not f.is_static else None
    for node in cfg.nodes:
      k: typing.Set[str] = set()
      a = node.ast
      if a is None:
        out[node.id] = k
        continue
      if node.kind == "stmt" and isinstance(a, ast.Raise):
        k.add("R")
      exprs = header_exprs(node)
      for e in exprs:
        if isinstance(e, (ast.FunctionDef, ast.ClassDef)):
          continue
        for n in ast.walk(e):
          # direct writes
          targets = []
          if isinstance(n, ast.Assign):
            targets = n.targets
          elif isinstance(n, (ast.AugAssign, ast.AnnAssign)):
            targets = [n.target]
          elif isinstance(n, ast.Delete):
            targets = n.targets
          for t in targets:
            if isinstance(t, ast.Attribute):
              k.add("W")
            elif isinstance(t, ast.Subscript) and isinstance(t.value, ast.Attribute):
              k.add("W")
          if isinstance(n, ast.Call) and isinstance(n.func, ast.Attribute):
            name = n.func.attr
            recv = n.func.value
            if name in CONTAINER_MUTATORS and isinstance(recv, ast.Attribute) and isinstance(recv.value, ast.Name) and recv.value.id == selfname:
              k.add("W")
              continue
            callee = self.resolve_callee(f, n)
            if callee is not None:
              nonep = set()
              off = 1 if (callee.cls is not None and not callee.is_static) else 0
              if isinstance(self.ix.resolve(f.module, n.func, cls=f.cls, func=f), FuncInfo) and off and n.args:
                off = 0  # Base.m(self, ...) form: arguments include self
              for i, a in enumerate(n.args):
                if isinstance(a, ast.Constant) and a.value is None and i + off < len(callee.params):
                  nonep.add(callee.params[i + off])
              w, r, atomic = self.method_effects(callee, frozenset(nonep))
              if r:
                k.add("R")
              if w:
                k.add("W")
              if w and r and not atomic:
                k.add("X")
      out[node.id] = k
    return out

  def resolve_callee(self, f: FuncInfo, call: ast.Call) -> typing.Optional[FuncInfo]:
    """Model-method callees: self.m(), super().m(), Base.m(self, ...), and x.m() where m is a
    model mutator name (class-hierarchy: the base implementation)."""
    fn = call.func
    recv = fn.value
    name = fn.attr
    cls = f.cls
    selfname = f.params[0] if f.params and not f.is_static else None
    if isinstance(recv, ast.Call) and isinstance(recv.func, ast.Name) and recv.func.id == "super" and cls is not None:
      for b in self.ix.mro(cls)[1:]:
        if name in b.methods:
          return b.methods[name]
      return None
    if isinstance(recv, ast.Name) and recv.id == selfname and cls is not None:
      return self.ix.lookup_method(cls, name)
    r = self.ix.resolve(f.module, fn, cls=cls, func=f)
    if isinstance(r, FuncInfo):
      return r
    # other receivers: any model method of that name that writes state
    if name in self.mf.mutators or name == "set_doc":
      for c in (self.mf.element, self.mf.content_document, self.mf.document):
        m = self.ix.lookup_method(c, name)
        if m is not None:
          return m
    return None

  def write_then_raise(self, f: FuncInfo, cfg: CFG, kinds=None, live=None):
    """Return (write node, raise node) if some path performs a write and later may raise."""
    kinds = kinds if kinds is not None else self.node_kinds(f, cfg)
    if live is not None:
      kinds = {n: k for n, k in kinds.items() if n in live}
    wnodes = [n for n, k in kinds.items() if "W" in k]
    rnodes = {n for n, k in kinds.items() if "R" in k}
    for n, k in kinds.items():
      if "X" in k:
        return (n, n)
    for w in wnodes:
      # reachable from w (excluding w itself unless in a cycle)
      seen, stack = set(), [s for (s, lab) in cfg.nodes[w].succ if not (isinstance(lab, tuple) and lab[0] == "exc")]
      while stack:
        cur = stack.pop()
        if cur in seen or (live is not None and cur not in live):
          continue
        seen.add(cur)
        if cur in rnodes:
          return (w, cur)
        for (s, lab) in cfg.nodes[cur].succ:
          if isinstance(lab, tuple) and lab[0] == "exc":
            continue
          stack.append(s)
    return None


def check_raise_before_write(ctx, methods: typing.Iterable[FuncInfo], rule="ORD-atomic", shared=None):
  shared = shared if shared is not None else {}
  mf = shared.get("mf") or ModelFacts(ctx.ix)
  eff = shared.get("eff") or Effects(ctx.ix, mf)
  shared.update(mf=mf, eff=eff)
  n = 0
  for f in methods:
    ctx.unit(f.module)
    cfg = CFG(f.node)
    kinds = eff.node_kinds(f, cfg)
    if not any("W" in k for k in kinds.values()):
      continue
    n += 1
    v = eff.write_then_raise(f, cfg, kinds)
    key = f"{f.qualname}|raise-before-write"
    if v is None:
      ctx.ok(rule, key, ctx.where(f.module, f.node), "every raise (own or in a callee) precedes every state write on all paths")
    else:
      w, r = cfg.nodes[v[0]].ast, cfg.nodes[v[1]].ast
      ctx.bad(rule, f"{f.qualname}|{short(w, 50)}->{short(r, 50)}", ctx.where(f.module, r),
              f"after the state write `{short(w, 70)}` (line {getattr(w, 'lineno', '?')}) the operation can still be rejected at "
              f"`{short(r, 70)}` (line {getattr(r, 'lineno', '?')}): a rejected call leaves the model half-updated")
  return n


def check_link_owners(ctx, modules, allowed: typing.Set[str], rule="OWN-links", mf: typing.Optional[ModelFacts] = None):
  """Private link fields are stored only inside the allowed functions (qualnames)."""
  mf = mf or ModelFacts(ctx.ix)
  n = 0
  for m in modules:
    ctx.unit(m)
    for node in ast.walk(m.tree):
      if isinstance(node, ast.Attribute) and isinstance(node.ctx, (ast.Store, ast.Del)) and node.attr in mf.link_fields:
        n += 1
        scope = ctx.ix.scope_name(m, node)
        key = f"{scope}|{unparse(node)}"
        ctx.check(scope in allowed, rule, key, ctx.where(m, node),
                  "link field written by the base class's own link-maintenance code",
                  f"`{unparse(node)}` writes a private tree link outside {sorted(a.split(':')[1] for a in allowed)}: "
                  "parent/sibling/first/last links can no longer be guaranteed to agree")
  return n


def guards_before_first_write(ctx, f: FuncInfo, required: typing.Dict[str, typing.Callable[[ast.AST], bool]], rule: str,
                              is_write: typing.Callable[[ast.AST], bool], explain: typing.Dict[str, str]):
  """Each required guard (an `if <test>: raise`) must lie on every path from the entry to a
  state write, except paths that legitimately by-pass it: the other branch of a condition that
  encloses the guard (e.g. `if region is not None:` around the checks of set_region), or a loop
  header enclosing the guard (the guard is applied per item)."""
  from ..core import parent as _parent
  cfg = CFG(f.node)
  ctx.unit(f.module)
  writes = []
  reach = cfg.reachable()
  for node in cfg.nodes:
    if node.kind == "stmt" and node.ast is not None and is_write(node.ast) and node.id in reach:
      writes.append(node.id)
  if not writes:
    raise AnalysisError(f"{f.qualname}: no state write found (anchor changed shape)")
  # a write made under `<parameter> is None` handles the "nothing given" case: there is nothing for the guards to check
  from . import match as _match

  def under_none_case(st):
    child, par = st, _parent(st)
    while par is not None and par is not f.node:
      if isinstance(par, ast.If):
        isn = _match.is_none_test(par.test, lambda e: isinstance(e, ast.Name) and e.id in f.params)
        if isn is not None and ((isn and any(child is x for x in par.body)) or (not isn and any(child is x for x in par.orelse))):
          return True
      child, par = par, _parent(par)
    return False
  writes = [w for w in writes if not under_none_case(cfg.nodes[w].ast)] or writes
  single = {}
  for st in own_nodes(f.node):
    if isinstance(st, ast.Assign) and len(st.targets) == 1 and isinstance(st.targets[0], ast.Name):
      single.setdefault(st.targets[0].id, []).append(st.value)

  class _Expanded:
    """A test together with the defining expressions of the single-assignment locals it uses."""
    def __init__(self, test):
      self.test = test

  def expand(test):
    extra = []
    for nm in ast.walk(test):
      if isinstance(nm, ast.Name) and len(single.get(nm.id, [])) == 1:
        extra.append(ast.Compare(left=ast.Name(id=nm.id, ctx=ast.Load()), ops=[ast.Is()], comparators=[single[nm.id][0]]))
    if not extra:
      return test
    return ast.BoolOp(op=ast.And(), values=[test] + extra)

  for name, pred0 in required.items():
    pred = (lambda p_: (lambda t: p_(t) or p_(expand(t))))(pred0)
    gids = []
    cut_edges = set()   # (node id, polarity) condition edges that legitimately by-pass the guard
    for node in cfg.nodes:
      if node.kind == "test" and isinstance(node.ast, ast.If) and node.ast.body and isinstance(node.ast.body[-1], ast.Raise) \
          and not node.ast.orelse and pred(node.ast.test):
        gids.append(node.id)
        child, par = node.ast, _parent(node.ast)
        while par is not None and par is not f.node:
          if isinstance(par, ast.If):
            pid = cfg.node_of(par)
            if pid is not None:
              cut_edges.add((pid, not (child in par.body)))
          elif isinstance(par, (ast.For, ast.While)):
            pid = cfg.node_of(par)
            if pid is not None:
              gids.append(pid)
          child, par = par, _parent(par)
    ok = bool(gids)
    if ok:
      # is some write reachable from the entry without passing a guard node or a by-pass edge?
      blocked = set(gids)
      seen, stack = {cfg.entry}, [cfg.entry]
      while stack:
        n = stack.pop()
        for (s2, lab) in cfg.nodes[n].succ:
          if isinstance(lab, tuple) and lab[0] == "cond" and (n, lab[2]) in cut_edges:
            continue
          if s2 in blocked or s2 in seen:
            continue
          seen.add(s2)
          stack.append(s2)
      ok = not any(w in seen for w in writes)
    ctx.check(ok, rule, f"{f.qualname}|guard:{name}", ctx.where(f.module, f.node),
              f"a raising guard `{name}` lies on every path to a state write",
              f"{f.short} can reach a state write without passing a raising guard for: {explain.get(name, name)}")
