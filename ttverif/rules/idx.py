"""IDX-lookahead: a subscript `seq[i + k]` (k > 0, not a slice) reads beyond the position the
loop condition vouches for.  It needs its own dominating bound `i + k < len(seq)` (in any of the
equivalent spellings), as an enclosing if / conditional expression / `and` operand / while test."""
from __future__ import annotations

import ast
import typing

from ..core import FuncInfo, own_nodes, parent, short, unparse
from . import match


def _linear(e, name: str) -> typing.Optional[int]:
  """c when e is `name + c` / `c + name` / `name - c` / `name`; None otherwise."""
  if isinstance(e, ast.Name) and e.id == name:
    return 0
  if isinstance(e, ast.BinOp) and isinstance(e.op, (ast.Add, ast.Sub)):
    l, r = e.left, e.right
    if isinstance(r, ast.Constant) and isinstance(r.value, int):
      base = _linear(l, name)
      if base is not None:
        return base + (r.value if isinstance(e.op, ast.Add) else -r.value)
    if isinstance(l, ast.Constant) and isinstance(l.value, int) and isinstance(e.op, ast.Add):
      base = _linear(r, name)
      if base is not None:
        return base + l.value
  return None


def _len_linear(e, seq: str) -> typing.Optional[int]:
  """c when e is `len(seq) + c` / `len(seq) - c` / `len(seq)`."""
  if isinstance(e, ast.Call) and unparse(e.func) == "len" and len(e.args) == 1 and unparse(e.args[0]) == seq:
    return 0
  if isinstance(e, ast.BinOp) and isinstance(e.op, (ast.Add, ast.Sub)) and isinstance(e.right, ast.Constant) and isinstance(e.right.value, int):
    base = _len_linear(e.left, seq)
    if base is not None:
      return base + (e.right.value if isinstance(e.op, ast.Add) else -e.right.value)
  return None


def bound_from_test(test, name: str, seq: str, pol: bool) -> typing.Optional[int]:
  """Largest k such that `test == pol` implies name + k < len(seq); None if the test says nothing."""
  if isinstance(test, ast.BoolOp):
    vals = [bound_from_test(v, name, seq, pol) for v in test.values]
    conj = (isinstance(test.op, ast.And) and pol) or (isinstance(test.op, ast.Or) and not pol)
    known = [v for v in vals if isinstance(v, int)]
    if conj:
      ne = [v for v in vals if isinstance(v, tuple)]
      return max(known) if known else (ne[0] if ne else None)
    return min(known) if len(known) == len(vals) else None
  if isinstance(test, ast.UnaryOp) and isinstance(test.op, ast.Not):
    return bound_from_test(test.operand, name, seq, not pol)
  rel = match.relation(test, lambda e: _linear(e, name) is not None, lambda e: _len_linear(e, seq) is not None)
  if rel is None:
    return None
  cmp_ = test
  l, r = cmp_.left, cmp_.comparators[0]
  a, b = (l, r) if _linear(l, name) is not None else (r, l)
  ca, cb = _linear(a, name), _len_linear(b, seq)
  if not pol:
    rel = {"<": ">=", "<=": ">", ">": "<=", ">=": "<", "==": "!=", "!=": "=="}.get(rel)
  if rel == "<":       # name + ca < len + cb
    return ca - cb
  if rel == "<=":
    return ca - cb - 1
  if rel == "==":      # name + ca == len + cb: name + (ca - cb) == len: name + k < len for k < ca - cb
    return ca - cb - 1
  if rel == "!=":      # excludes one value: recorded as ("ne", d) meaning name + d != len
    return ("ne", ca - cb)
  return None


def check_lookahead(ctx, funcs: typing.Iterable[FuncInfo], rule="IDX-lookahead"):
  n = 0
  for f in funcs:
    for sub in own_nodes(f.node):
      if not (isinstance(sub, ast.Subscript) and isinstance(sub.ctx, ast.Load)) or isinstance(sub.slice, ast.Slice):
        continue
      idx = sub.slice
      names = [x.id for x in ast.walk(idx) if isinstance(x, ast.Name)]
      if len(names) != 1:
        continue
      k = _linear(idx, names[0])
      if k is None or k <= 0:
        continue
      seq = unparse(sub.value)
      n += 1
      ctx.unit(f.module)
      best = None
      excluded = set()

      def note(b):
        nonlocal best
        if isinstance(b, tuple):
          excluded.add(b[1])
        elif b is not None:
          best = b if best is None else max(best, b)
      node = sub
      while node is not f.node:
        par = parent(node)
        t, pol = None, True
        if isinstance(par, ast.IfExp) and node is not par.test:
          t, pol = par.test, node is par.body
        elif isinstance(par, (ast.If, ast.While)) and node is not par.test:
          in_body = any(node is x for x in par.body)
          t, pol = par.test, in_body
          if isinstance(par, ast.While) and not in_body:
            t = None
        elif isinstance(par, ast.BoolOp) and isinstance(par.op, ast.And):
          i = [j for j, v in enumerate(par.values) if v is node]
          if i:
            for v in par.values[:i[0]]:
              note(bound_from_test(v, names[0], seq, True))
        elif isinstance(par, ast.BoolOp) and isinstance(par.op, ast.Or):
          i = [j for j, v in enumerate(par.values) if v is node]
          if i:
            for v in par.values[:i[0]]:
              note(bound_from_test(v, names[0], seq, False))
        elif isinstance(par, ast.For) and any(node is x for x in par.body):
          # for i, x in enumerate(seq): i < len(seq) as long as i is only advanced by the loop
          it = par.iter
          if isinstance(it, ast.Call) and unparse(it.func) == "enumerate" and it.args and unparse(it.args[0]) == seq and isinstance(par.target, ast.Tuple) \
              and isinstance(par.target.elts[0], ast.Name) and par.target.elts[0].id == names[0]:
            note(0)
        if t is not None:
          note(bound_from_test(t, names[0], seq, pol))
        node = par
      # name + b < len and name + d != len with d == b + 1 (the largest value still possible) tighten the bound
      changed = True
      while changed and best is not None:
        changed = False
        if best + 1 in excluded:
          best += 1
          changed = True
      ok = best is not None and best >= k
      # a while-loop bound is only trusted when the index is not advanced between the test and the subscript: handled conservatively by requiring best >= k
      ctx.check(ok, rule, f"{f.qualname}|{short(sub, 50)}", ctx.where(f.module, sub), f"`{names[0]} + {k} < len({seq})` holds here",
                f"`{short(sub, 60)}` reads {k} past `{names[0]}` but no enclosing test guarantees `{names[0]} + {k} < len({seq})`"
                + (f" (the enclosing tests only give `{names[0]} + {best} < len`)" if best is not None else "") + ": IndexError on input that ends here")
  return n
