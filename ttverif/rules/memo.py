"""MEMO: is a store into a module-level container a sound memo of a pure computation?

A module-level dict / set that a function fills is state that outlives the call.  It leaves every result unchanged
exactly when it is a memo: the stored value is looked up again under the same key, and the key determines the value.
The rule decides that from the function's own text:

  * the store `G[k] = v` (`G.setdefault(k, v)`, `G.add(k)`) has a look-up of G under the same key text in the same
    function (or, when the storing function is a helper that receives key and value as parameters, in its callers);
  * every access path rooted at a parameter (`ctx.frame_rate`, `time`) on which `v` depends - through local
    assignments, enclosing conditions and, one level deep, through the parameters of resolved callees - is covered by
    a path that occurs in `k` as a value (a path that only occurs in the test of a conditional expression does not
    determine the value);
  * the roots of the key are pinned to a type by an exact type test or by their annotation (str, int, Fraction, a
    class, an enumeration); values of unpinned type compare equal across types (1 == 1.0 == True), so a memo keyed by
    them returns the entry of one for the other.

Verdicts: ("sound", note) / ("violation", reason) / ("undecided", reason) / ("not-memo", "").
"""
from __future__ import annotations

import ast
import typing

from ..core import FuncInfo, Index, own_nodes, parent, unparse

PINNED_ANN = {"str", "int", "Fraction", "bytes", "float", "bool"}
UNPINNED_ANN = {"Any", "Dict", "dict", "List", "list", "object", "Mapping", "Sequence", "Iterable", "Tuple", "tuple", "Set", "set"}


def _path(e) -> typing.Optional[str]:
  """`p`, `p.a.b` for a Name / Attribute chain"""
  parts = []
  while isinstance(e, ast.Attribute):
    parts.append(e.attr)
    e = e.value
  if isinstance(e, ast.Name):
    return ".".join([e.id] + parts[::-1])
  return None


class _Slice:
  def __init__(self, ix: Index, f: FuncInfo, ty):
    self.ix, self.f, self.ty = ix, f, ty
    self.params = [a.arg for a in f.node.args.posonlyargs + f.node.args.args + f.node.args.kwonlyargs]
    self.defs: typing.Dict[str, typing.List[typing.Tuple[ast.AST, ast.AST]]] = {}
    for st in own_nodes(f.node):
      if isinstance(st, ast.Assign):
        for t in st.targets:
          for nm in ast.walk(t):
            if isinstance(nm, ast.Name) and isinstance(nm.ctx, ast.Store):
              self.defs.setdefault(nm.id, []).append((st.value, st))
      elif isinstance(st, (ast.AnnAssign, ast.AugAssign)) and isinstance(st.target, ast.Name) and st.value is not None:
        self.defs.setdefault(st.target.id, []).append((st.value, st))
      elif isinstance(st, (ast.For, ast.comprehension)):
        for nm in ast.walk(st.target):
          if isinstance(nm, ast.Name):
            self.defs.setdefault(nm.id, []).append((st.iter, st))
      elif isinstance(st, ast.With):
        for it in st.items:
          if it.optional_vars is not None:
            for nm in ast.walk(it.optional_vars):
              if isinstance(nm, ast.Name):
                self.defs.setdefault(nm.id, []).append((it.context_expr, st))
      elif isinstance(st, ast.NamedExpr) and isinstance(st.target, ast.Name):
        self.defs.setdefault(st.target.id, []).append((st.value, st))
    # what is put into a local container is part of its value
    for st in own_nodes(f.node):
      if isinstance(st, ast.Call) and isinstance(st.func, ast.Attribute) and isinstance(st.func.value, ast.Name) and st.func.attr in ("setdefault", "append", "add", "update", "extend", "insert") and st.args:
        self.defs.setdefault(st.func.value.id, []).append((ast.Tuple(elts=list(st.args), ctx=ast.Load()), st))
      if isinstance(st, ast.Assign):
        for t in st.targets:
          if isinstance(t, ast.Subscript) and isinstance(t.value, ast.Name):
            self.defs.setdefault(t.value.id, []).append((ast.Tuple(elts=[t.slice, st.value], ctx=ast.Load()), st))
    self.env = None
    self.ignore = lambda v: False

  def _conds(self, node) -> typing.List[ast.AST]:
    out = []
    p = parent(node)
    while p is not None and p is not self.f.node:
      if isinstance(p, (ast.If, ast.While, ast.IfExp)):
        out.append(p.test)
      p = parent(p)
    return out

  def deps(self, e, value_only=False, seen=None) -> typing.Set[str]:
    """access paths rooted at parameters on which the value of `e` depends"""
    seen = set() if seen is None else seen
    out: typing.Set[str] = set()
    if e is None:
      return out
    if isinstance(e, ast.IfExp) and value_only:
      return self.deps(e.body, True, seen) | self.deps(e.orelse, True, seen)
    if isinstance(e, (ast.Name, ast.Attribute)):
      p = _path(e)
      if p is not None:
        root = p.split(".")[0]
        if root in self.params and root not in self.defs:
          return {p}
        if root in self.defs or root in self.params:
          if root in self.params:
            out.add(p)
          if root in seen:
            return out
          seen = seen | {root}
          for (v, st) in self.defs.get(root, []):
            if self.ignore(v):
              continue
            out |= self.deps(v, value_only, seen)
            if not value_only:
              for c in self._conds(st):
                out |= self.deps(c, False, seen)
          return out
        return out        # a global / builtin: constant for the life of the process
    if isinstance(e, ast.Call):
      callee = None
      if self.ty is not None:
        if self.env is None:
          self.env = self.ty.env(self.f)
        try:
          callee = self.ty.callee(self.f.module, e, self.env, self.f.cls, self.f)
        except Exception:   # pylint: disable=broad-except
          callee = None
      args = list(e.args) + [k.value for k in e.keywords]
      if isinstance(e.func, ast.Attribute):
        out |= self.deps(e.func.value, value_only, seen)
      for i, a in enumerate(e.args):
        ap = _path(a)
        if isinstance(callee, FuncInfo) and ap is not None and ap in self.params and ap not in self.defs:
          cparams = [x.arg for x in callee.node.args.posonlyargs + callee.node.args.args]
          off = 1 if (callee.cls is not None and not callee.is_static and isinstance(e.func, ast.Attribute)) else 0
          if i + off < len(cparams):
            reads = _param_reads(callee, cparams[i + off])
            if reads is not None:
              out |= {ap + r for r in reads}
              continue
        out |= self.deps(a, value_only, seen)
      for k in e.keywords:
        out |= self.deps(k.value, value_only, seen)
      return out
    for ch in ast.iter_child_nodes(e):
      if isinstance(ch, (ast.expr, ast.comprehension)):
        if isinstance(ch, ast.comprehension):
          out |= self.deps(ch.iter, value_only, seen)
          for c in ch.ifs:
            out |= self.deps(c, value_only, seen)
        else:
          out |= self.deps(ch, value_only, seen)
    return out


def _param_reads(callee: FuncInfo, pname: str) -> typing.Optional[typing.Set[str]]:
  """suffixes ('.frame_rate') of the attribute paths the callee reads on its parameter; None if it uses the parameter
  otherwise (passes it on, iterates over it, compares it): then the whole value matters"""
  reads: typing.Set[str] = set()
  for n in own_nodes(callee.node):
    if isinstance(n, ast.Name) and n.id == pname and isinstance(n.ctx, ast.Load):
      par = parent(n)
      if isinstance(par, ast.Attribute) and par.value is n:
        top = par
        while isinstance(parent(top), ast.Attribute) and parent(top).value is top:
          top = parent(top)
        if isinstance(parent(top), ast.Call) and parent(top).func is top:
          return None     # a method call on the parameter: may read anything
        reads.add("." + ".".join(_path(top).split(".")[1:]))
      else:
        return None
    if isinstance(n, ast.Name) and n.id == pname and isinstance(n.ctx, ast.Store):
      return None
  return reads


def _pinned(f: FuncInfo, root: str, store_node) -> typing.Optional[bool]:
  """True: the parameter's type is pinned (exact type test on the path, or annotation naming a scalar / class /
  enumeration); False: annotated with a container / Any or not annotated and not tested"""
  if root in ("cls",) and f.cls is not None:
    return True
  for n in own_nodes(f.node):
    # type(p) is str / type(p) is not str ... return / isinstance(p, str)
    if isinstance(n, ast.Compare) and isinstance(n.left, ast.Call) and unparse(n.left.func) == "type" and n.left.args and unparse(n.left.args[0]) == root:
      return True
    if isinstance(n, ast.Call) and unparse(n.func) == "isinstance" and len(n.args) == 2 and unparse(n.args[0]) == root and unparse(n.args[1]) in PINNED_ANN:
      return True
  for a in f.node.args.posonlyargs + f.node.args.args + f.node.args.kwonlyargs:
    if a.arg == root:
      if a.annotation is None:
        return False
      names = {x.id for x in ast.walk(a.annotation) if isinstance(x, ast.Name)} | {x.attr for x in ast.walk(a.annotation) if isinstance(x, ast.Attribute)}
      if names & UNPINNED_ANN and not (names & {"Type"}):
        return False
      return True
  return None


def analyse_store(ix: Index, ty, f: FuncInfo, node, gtext: str, depth=0):
  """node: the mutating statement / call on the global container `gtext` inside f"""
  key = value = None
  if isinstance(node, ast.Assign) and len(node.targets) == 1 and isinstance(node.targets[0], ast.Subscript) and not isinstance(node.targets[0].slice, ast.Slice):
    key, value = node.targets[0].slice, node.value
  elif isinstance(node, ast.Call) and isinstance(node.func, ast.Attribute):
    if node.func.attr == "setdefault" and len(node.args) == 2:
      key, value = node.args
    elif node.func.attr == "add" and len(node.args) == 1:
      key, value = node.args[0], ast.Constant(value=True)
    elif node.func.attr in ("clear", "pop", "popitem") :
      return ("evict", "")
  if key is None:
    return ("not-memo", "")
  sl = _Slice(ix, f, ty)
  # the key may be a local that holds the key expression
  key_exprs = [key]
  if isinstance(key, ast.Name) and key.id in sl.defs and key.id not in sl.params:
    key_exprs = [v for (v, _st) in sl.defs[key.id]]
  ktext = {unparse(key)}
  # a look-up of the container under the same key in this function?
  gname = gtext.split(".")[-1]
  lookup = False
  for n in own_nodes(f.node):
    if isinstance(n, ast.Call) and isinstance(n.func, ast.Attribute) and n.func.attr == "get" and unparse(n.func.value).split(".")[-1] == gname and n.args and unparse(n.args[0]) in ktext:
      lookup = True
    if isinstance(n, ast.Subscript) and isinstance(n.ctx, ast.Load) and unparse(n.value).split(".")[-1] == gname and unparse(n.slice) in ktext:
      lookup = True
    if isinstance(n, ast.Compare) and len(n.ops) == 1 and isinstance(n.ops[0], (ast.In, ast.NotIn)) and unparse(n.comparators[0]).split(".")[-1] == gname and unparse(n.left) in ktext:
      lookup = True
  kpaths: typing.Set[str] = set()
  for k in key_exprs:
    kpaths |= _key_paths(sl, k)
  # (what a look-up of the container itself returned is not a dependence of the value that is stored)
  sl.ignore = lambda v: (isinstance(v, ast.Call) and isinstance(v.func, ast.Attribute) and v.func.attr in ("get", "pop") and unparse(v.func.value).split(".")[-1] == gname) \
      or (isinstance(v, ast.Subscript) and unparse(v.value).split(".")[-1] == gname)
  vdeps = sl.deps(value)
  def covered(d):
    return any(d == k or d.startswith(k + ".") for k in kpaths)
  missing = sorted(d for d in vdeps if not covered(d))
  if not lookup:
    # a helper that stores what it is given: the look-up and the dependences are in its callers
    if depth == 0 and all(isinstance(x, ast.Name) and x.id in sl.params for x in [key, value] if not isinstance(x, ast.Constant)):
      return _through_callers(ix, ty, f, key, value, gtext)
    return ("not-memo", "")
  if missing:
    return ("violation", f"the stored value depends on {', '.join('`' + m + '`' for m in missing)}, which the key `{unparse(key)}` "
                         f"({', '.join(sorted(kpaths)) or 'no parameter'}) does not contain: a later call that differs only there gets the earlier call's result")
  for k_ in sorted(kpaths):
    if "." not in k_:
      mc = _mutable_object_param(ix, f, k_)
      if mc is not None:
        return ("violation", f"the entry is keyed by the {mc} object `{k_}` itself, and a {mc} can be modified after the entry was stored: the memo is never refreshed, so a later call "
                             "on the modified object gets what was computed for its earlier content")
  unp = sorted({k.split(".")[0] for k in kpaths if _pinned(f, k.split(".")[0], node) is False})
  if unp:
    return ("violation", f"the key `{unparse(key)}` is built from {', '.join('`' + u + '`' for u in unp)}, whose type nothing pins (no exact type test, annotation {_ann(f, unp[0])}): "
                         "values of different types that compare equal (1, 1.0, True) share one entry, so the result for one is returned for the other")
  return ("sound", f"memo: the value depends on {', '.join(sorted(vdeps)) or 'nothing'}; the key `{unparse(key)}` covers it")


LOSSLESS_WRAPPERS = {"tuple", "sorted", "frozenset", "str", "repr", "list", "id"}


def _key_paths(sl: "_Slice", k, depth=0) -> typing.Set[str]:
  """parameter paths that the key contains *as themselves*: a component that is only a function of a parameter
  (`byte_1 & 0xF7`, `text.lower()`, `round(t, 3)`) does not determine it, so it covers nothing"""
  if depth > 6 or k is None:
    return set()
  if isinstance(k, (ast.Tuple, ast.List)):
    out = set()
    for e in k.elts:
      out |= _key_paths(sl, e, depth + 1)
    return out
  if isinstance(k, ast.IfExp):
    return _key_paths(sl, k.body, depth + 1) | _key_paths(sl, k.orelse, depth + 1)
  if isinstance(k, ast.Call):
    fn = unparse(k.func)
    if fn in LOSSLESS_WRAPPERS and len(k.args) == 1 and not k.keywords:
      return _key_paths(sl, k.args[0], depth + 1)
    if isinstance(k.func, ast.Attribute) and k.func.attr == "items" and not k.args:
      return _key_paths(sl, k.func.value, depth + 1)
    return set()
  if isinstance(k, (ast.Name, ast.Attribute)):
    p = _path(k)
    if p is None:
      return set()
    root = p.split(".")[0]
    if root in sl.params and root not in sl.defs:
      return {p}
    if root in sl.defs and "." not in p:
      out = set()
      for (v, _st) in sl.defs[root]:
        out |= _key_paths(sl, v, depth + 1)
      return out
    if root in sl.params:
      return {p}
  return set()


def _mutable_object_param(ix: Index, f: FuncInfo, root: str) -> typing.Optional[str]:
  """the parameter is annotated with a class of the package whose instances can be modified (not an enumeration, not a frozen
  dataclass / NamedTuple): an entry keyed by such an object is not refreshed when the object changes"""
  for a in f.node.args.posonlyargs + f.node.args.args + f.node.args.kwonlyargs:
    if a.arg == root and a.annotation is not None:
      if any(isinstance(x, ast.Name) and x.id == "Type" or isinstance(x, ast.Attribute) and x.attr == "Type" for x in ast.walk(a.annotation)):
        return None
      for x in ast.walk(a.annotation):
        nm = x.id if isinstance(x, ast.Name) else (x.attr if isinstance(x, ast.Attribute) else None)
        if nm is None:
          continue
        for ci in ix.classes.values():
          if ci.name == nm and not ix.is_enum(ci):
            frozen = any("frozen=True" in unparse(d_) for d_ in ci.node.decorator_list) or any("NamedTuple" in b_ for c_ in ix.mro(ci) for b_ in c_.ext_bases)
            setters = [m_ for c_ in ix.mro(ci) for m_ in c_.methods if m_.startswith(("set_", "push_", "put_", "add_", "remove_"))]
            if not frozen and setters:
              return ci.name
  return None


def _ann(f, name):
  for a in f.node.args.posonlyargs + f.node.args.args + f.node.args.kwonlyargs:
    if a.arg == name:
      return unparse(a.annotation) if a.annotation is not None else "absent"
  return "absent"


def _through_callers(ix: Index, ty, helper: FuncInfo, key, value, gtext):
  hparams = [a.arg for a in helper.node.args.posonlyargs + helper.node.args.args]
  gname = gtext.split(".")[-1]
  found = False
  for g in ix.funcs.values():
    if g.module is not helper.module:
      continue
    for n in own_nodes(g.node):
      if isinstance(n, ast.Call) and unparse(n.func).split(".")[-1] == helper.name and g is not helper:
        amap = {}
        for i, a in enumerate(n.args):
          if i < len(hparams):
            amap[hparams[i]] = a
        for k in n.keywords:
          if k.arg:
            amap[k.arg] = k.value
        ka = amap.get(key.id) if isinstance(key, ast.Name) else None
        va = amap.get(value.id) if isinstance(value, ast.Name) else value
        if ka is None or va is None:
          return ("undecided", f"call of the storing helper {helper.short} with an argument list the rule does not map")
        # the look-up in the caller under the same key argument
        looked = any(isinstance(x, ast.Call) and isinstance(x.func, ast.Attribute) and x.func.attr == "get" and unparse(x.func.value).split(".")[-1] == gname and x.args and unparse(x.args[0]) == unparse(ka)
                     for x in own_nodes(g.node)) or any(isinstance(x, ast.Subscript) and unparse(x.value).split(".")[-1] == gname and unparse(x.slice) == unparse(ka) for x in own_nodes(g.node))
        if not looked:
          continue
        found = True
        sl = _Slice(ix, g, ty)
        kpaths = _key_paths(sl, ka)
        vdeps = sl.deps(va)
        missing = sorted(d for d in vdeps if not any(d == k or d.startswith(k + ".") for k in kpaths))
        if missing:
          return ("violation", f"{g.short} stores (through {helper.short}) a value that depends on {', '.join('`' + m + '`' for m in missing)} under the key `{unparse(ka)}`, "
                               "which does not contain it: a later call that differs only there gets the earlier call's result")
        unp = sorted({k.split(".")[0] for k in kpaths if _pinned(g, k.split(".")[0], n) is False})
        if unp:
          return ("violation", f"the key `{unparse(ka)}` is built from {', '.join('`' + u + '`' for u in unp)}, whose type nothing pins: values of different types that compare equal share one entry")
  if found:
    return ("sound", f"memo filled through {helper.short}; every caller's key covers the value's dependences")
  return ("not-memo", "")

