"""LIVE: mutation of a storage group while a live view of the same group is being iterated.

`for v in <live view of (R, group)>` whose body (or a repo function the body passes R / v to)
calls a mutator of the same group on a must-alias of R.  `list()/tuple()/sorted()` wrappers are
the accepted safe idiom.  Plain Python containers are handled the same way (same access path).
"""
from __future__ import annotations

import ast
import typing

from ..core import FuncInfo, Index, call_name, own_nodes, parent, short, unparse
from ..modelfacts import CONTAINER_MUTATORS, ModelFacts
from ..typing_lite import Typer, strip_opt

SAFE_WRAPPERS = {"list", "tuple", "sorted", "set", "frozenset", "dict"}


class ParamSummaries:
  """For every repo function: which groups it mutates on each parameter, and whether it
  unlinks the parameter from its parent (bounded fixpoint over the resolved call graph)."""

  def __init__(self, ix: Index, mf: ModelFacts, ty: Typer):
    self.ix, self.mf, self.ty = ix, mf, ty
    self.mut: typing.Dict[str, typing.Dict[str, typing.Set[str]]] = {}
    funcs = list(ix.funcs.values())
    for f in funcs:
      self.mut[f.qualname] = {p: set() for p in f.params}
    changed = True
    rounds = 0
    while changed and rounds < 6:
      changed = False
      rounds += 1
      for f in funcs:
        env = self.ty.env(f)
        cur = self.mut[f.qualname]
        for n in own_nodes(f.node):
          if not isinstance(n, ast.Call):
            continue
          # direct: p.mutator(...)
          if isinstance(n.func, ast.Attribute) and isinstance(n.func.value, ast.Name) and n.func.value.id in cur:
            p = n.func.value.id
            name = n.func.attr
            add = set(self.mf.mutators.get(name, ()))
            if name in self.mf.parent_mutators:
              add.add("unlink")
            t = strip_opt(env.get(p))
            if t is not None and not (self.mf.is_element_type(t) or self.mf.is_document_type(t)):
              add = set()
            if add - cur[p]:
              cur[p] |= add
              changed = True
          # indirect: g(..., p, ...)
          callee = self.ty.callee(f.module, n, env, f.cls, f)
          if isinstance(callee, FuncInfo):
            params = callee.params
            offset = 0
            if callee.cls is not None and not callee.is_static and isinstance(n.func, ast.Attribute):
              # bound call: receiver is param 0
              recv = n.func.value
              if isinstance(recv, ast.Name) and recv.id in cur and params:
                add = self.mut[callee.qualname].get(params[0], set())
                if add - cur[recv.id]:
                  cur[recv.id] |= add
                  changed = True
              offset = 1
            for i, a in enumerate(n.args):
              if isinstance(a, ast.Name) and a.id in cur and i + offset < len(params):
                add = self.mut[callee.qualname].get(params[i + offset], set())
                if add - cur[a.id]:
                  cur[a.id] |= add
                  changed = True
            for kw in n.keywords:
              if kw.arg and isinstance(kw.value, ast.Name) and kw.value.id in cur and kw.arg in params:
                add = self.mut[callee.qualname].get(kw.arg, set())
                if add - cur[kw.value.id]:
                  cur[kw.value.id] |= add
                  changed = True


def _terminates_after(stmt, loop: ast.For) -> bool:
  """True if, after `stmt`, control unconditionally leaves the loop (break/return/raise at the
  end of every enclosing block up to the loop body)."""
  node = stmt
  while node is not loop and node is not None:
    par = parent(node)
    if par is None:
      return False
    for fld in ("body", "orelse", "handlers", "finalbody"):
      blk = getattr(par, fld, None)
      if isinstance(blk, list) and node in blk:
        rest = blk[blk.index(node) + 1:]
        for r in rest:
          if isinstance(r, (ast.Break, ast.Return, ast.Raise)):
            return True
          if isinstance(r, ast.Continue):
            return False
        break
    if isinstance(par, (ast.For, ast.While)) and par is not loop:
      return False
    node = par
  return False


def _sequence_backed(mf, group):
  """The view's backing field is a list (or the sibling chain): equal items can occur more than once."""
  if group == "children":
    return True
  for c in mf.classes:
    init = c.methods.get("__init__")
    for n in own_nodes(init.node) if init is not None else ():
      tgt = n.targets[0] if isinstance(n, ast.Assign) and len(n.targets) == 1 else (n.target if isinstance(n, ast.AnnAssign) else None)
      if isinstance(tgt, ast.Attribute) and tgt.attr == group and isinstance(getattr(n, "value", None), (ast.List, ast.ListComp)):
        return True
  return False


def _stmt_of(node):
  while node is not None and not isinstance(node, ast.stmt):
    node = parent(node)
  return node


def check_live(ctx, funcs: typing.Iterable[FuncInfo], rule="LIVE", shared=None):
  ix = ctx.ix
  if shared is None:
    shared = {}
  mf = shared.get("mf") or ModelFacts(ix)
  ty = shared.get("ty") or Typer(ix)
  ps = shared.get("ps") or ParamSummaries(ix, mf, ty)
  shared.update(mf=mf, ty=ty, ps=ps)
  n_loops = 0
  n_live = 0
  for f in funcs:
    env = None
    for loop in own_nodes(f.node):
      if not isinstance(loop, ast.For):
        continue
      n_loops += 1
      if env is None:
        env = ty.env(f)
      it = loop.iter
      view = None  # (recv_text, group, kind)
      if isinstance(it, ast.Call) and isinstance(it.func, ast.Name) and it.func.id in SAFE_WRAPPERS:
        # a set is a snapshot too, but of a sequence view it drops equal items and their order
        if it.func.id in ("set", "frozenset") and len(it.args) == 1:
          inner = it.args[0]
          if isinstance(inner, ast.Call) and isinstance(inner.func, ast.Attribute) and inner.func.attr in mf.views \
              and _sequence_backed(mf, mf.views[inner.func.attr]) and inner.func.attr != "__iter__":
            ctx.bad(rule, f"{f.qualname}|for {unparse(loop.target)} in {unparse(it)}|lossy snapshot", ctx.where(f.module, loop),
                    f"`{unparse(it)}` snapshots a sequence view as a set: items that compare equal collapse into one and the order is lost, "
                    f"so the loop body runs once per distinct value instead of once per item. Iterate over list(...) instead.")
        continue
      if isinstance(it, ast.Call) and isinstance(it.func, ast.Name) and it.func.id in ("iter", "reversed", "enumerate") and it.args:
        inner = it.args[0]
        if isinstance(inner, ast.Call) and isinstance(inner.func, ast.Name) and inner.func.id in SAFE_WRAPPERS:
          continue
        it = inner
      if isinstance(it, ast.Call) and isinstance(it.func, ast.Attribute) and it.func.attr in mf.views and it.func.attr != "__iter__":
        t = strip_opt(ty.expr_type(f.module, it.func.value, env, f.cls, f))
        if t is None or mf.is_element_type(t) or mf.is_document_type(t):
          view = (unparse(it.func.value), mf.views[it.func.attr], "model")
      elif isinstance(it, ast.Call) and isinstance(it.func, ast.Attribute) and it.func.attr in ("items", "values", "keys") and not it.args:
        view = (unparse(it.func.value), "py", "py")
      elif isinstance(it, (ast.Name, ast.Attribute, ast.Subscript)):
        t = strip_opt(ty.expr_type(f.module, it, env, f.cls, f))
        if mf.is_element_type(t):
          view = (unparse(it), "children", "model")
        elif t is None:
          view = (unparse(it), "children", "maybe-model")   # untyped: model idioms and container idioms both checked
        else:
          view = (unparse(it), "py", "py")
      if view is None:
        continue
      n_live += 1
      recv, group, kind = view
      loopvars = set()
      for nm in ast.walk(loop.target):
        if isinstance(nm, ast.Name):
          loopvars.add(nm.id)
      hits = []
      for st in loop.body:
        for n in [st] + list(own_nodes(st)) if not isinstance(st, (ast.FunctionDef, ast.ClassDef)) else []:
          if isinstance(n, ast.Delete) and kind in ("py", "maybe-model"):
            for t in n.targets:
              if isinstance(t, ast.Subscript) and unparse(t.value) == recv:
                hits.append((n, f"del on the iterated container `{recv}`"))
          if not isinstance(n, ast.Call):
            continue
          name = call_name(n)
          if isinstance(n.func, ast.Attribute):
            r2 = unparse(n.func.value)
            if kind == "maybe-model":
              if r2 == recv and name in ("remove_child", "push_child", "remove_children", "push_children"):
                hits.append((n, f"`{name}` mutates the children of `{recv}` while they are iterated"))
              if isinstance(n.func.value, ast.Name) and n.func.value.id in loopvars and name in mf.parent_mutators and not n.args and not n.keywords:
                hits.append((n, f"`{r2}.{name}()` unlinks the loop variable from `{recv}` while its children are iterated"))
              if r2 == recv and name in CONTAINER_MUTATORS:
                hits.append((n, f"`{name}` mutates the iterated container `{recv}`"))
            elif kind == "model":
              if r2 == recv and group in mf.mutators.get(name, ()):
                hits.append((n, f"`{name}` mutates the {group} of `{recv}` while it is iterated"))
              if group == "children" and isinstance(n.func.value, ast.Name) and n.func.value.id in loopvars \
                  and name in mf.parent_mutators:
                hits.append((n, f"`{r2}.{name}()` unlinks the loop variable from `{recv}` while its children are iterated"))
            else:
              if r2 == recv and name in CONTAINER_MUTATORS:
                hits.append((n, f"`{name}` mutates the iterated container `{recv}`"))
          # interprocedural (summaries)
          if kind == "model":
            callee = ty.callee(f.module, n, env, f.cls, f)
            if isinstance(callee, FuncInfo):
              params = callee.params
              offset = 1 if (callee.cls is not None and not callee.is_static and isinstance(n.func, ast.Attribute)) else 0
              if offset and callee.module.name in ("ttconv.model",):
                continue  # direct model methods handled above by name
              pairs = []
              if offset and params:
                pairs.append((n.func.value, params[0]))
              for i, a in enumerate(n.args):
                if i + offset < len(params):
                  pairs.append((a, params[i + offset]))
              for kw in n.keywords:
                if kw.arg in params:
                  pairs.append((kw.value, kw.arg))
              for (a, p) in pairs:
                eff = ps.mut[callee.qualname].get(p, set())
                if unparse(a) == recv and group in eff:
                  hits.append((n, f"`{callee.short}` mutates the {group} of its parameter `{p}` = `{recv}` while it is iterated"))
                if group == "children" and isinstance(a, ast.Name) and a.id in loopvars and "unlink" in eff:
                  hits.append((n, f"`{callee.short}` unlinks its parameter `{p}` (the loop variable) from `{recv}` while its children are iterated"))
      header = f"for {unparse(loop.target)} in {unparse(loop.iter)}"
      real = []
      for (n, why) in hits:
        st = _stmt_of(n)
        if _terminates_after(st, loop):
          continue
        real.append((n, why))
      key = f"{f.qualname}|{header}"
      if real:
        for (n, why) in real:
          ctx.bad(rule, f"{key}|{short(n, 80)}", ctx.where(f.module, n),
                  f"{header}: {why}; the view is live, so elements are skipped (or iteration fails). "
                  f"Iterate over list(...) instead.")
      else:
        ctx.ok(rule, key, ctx.where(f.module, loop), f"live view of {group} of `{recv}`; no mutation of it in the body")
  return n_loops, n_live


def check_live_self_alias(ctx, funcs: typing.Iterable[FuncInfo], rule="LIVE-alias", shared=None):
  """A method that iterates a live view of `self` and, in the loop, calls a mutator of the same storage group on another
  parameter declared with the method's own class (`copy_to(self, dest: Region)`): nothing stops a caller from passing the
  object itself, and then the loop feeds the list it is reading - it never ends.  Accepted: a dominating `if dest is self: return`."""
  ix = ctx.ix
  shared = shared if shared is not None else {}
  mf = shared.get("mf") or ModelFacts(ix)
  shared["mf"] = mf
  from ..cfg import CFG
  n = 0
  for f in funcs:
    if f.cls is None or f.is_static or len(f.params) < 2 or f.params[0] != "self":
      continue
    own = {c.name for c in ix.mro(f.cls)}
    others = []
    for a in f.node.args.args[1:]:
      if a.annotation is not None and any((isinstance(x, ast.Name) and x.id in own) or (isinstance(x, ast.Attribute) and x.attr in own) or (isinstance(x, ast.Constant) and x.value in own)
                                          for x in ast.walk(a.annotation)):
        others.append(a.arg)
    if not others:
      continue
    cfg = dom = None
    for loop in own_nodes(f.node):
      if not isinstance(loop, ast.For):
        continue
      it = loop.iter
      if not (isinstance(it, ast.Call) and isinstance(it.func, ast.Attribute) and isinstance(it.func.value, ast.Name) and it.func.value.id == "self" and it.func.attr in mf.views):
        continue
      group = mf.views[it.func.attr]
      if not _sequence_backed(mf, group):
        continue        # a dictionary whose existing keys are set again keeps its size: the iteration is not disturbed
      for c in own_nodes(loop):
        if isinstance(c, ast.Call) and isinstance(c.func, ast.Attribute) and isinstance(c.func.value, ast.Name) and c.func.value.id in others \
            and group in mf.mutators.get(c.func.attr, ()):
          d = c.func.value.id
          n += 1
          if cfg is None:
            cfg = CFG(f.node)
            dom = cfg.dominators()
          guards = [g for g in cfg.nodes if g.kind == "test" and isinstance(g.ast, ast.If) and unparse(g.ast.test).replace(" ", "") in (f"{d}isself", f"selfis{d}")
                    and g.ast.body and isinstance(g.ast.body[-1], ast.Return)]
          lid = cfg.node_of(loop)
          ok = any(g.id in dom.get(lid, ()) for g in guards)
          ctx.check(ok, rule, f"{f.qualname}|for {unparse(loop.target)} in {unparse(it)}|{d}.{c.func.attr}", ctx.where(f.module, c),
                    f"`if {d} is self: return` dominates the loop",
                    f"{f.short} iterates the live view `{unparse(it)}` and calls `{d}.{c.func.attr}(...)` in the loop; `{d}` is declared a {f.cls.name}, so it can be the object itself, "
                    f"and no `if {d} is self: return` precedes the loop: `x.{f.name}(x)` then appends to the list it is reading and never returns")
  return n
